"""C02 Tag streams are self-delimiting: framing is total, canonical and balanced.

E3, three exhaustive parts, all against bv.refs.tagref (clause 20.2.1, written without bacpypes):

 a  framing of tag lists: every single tag over class x number x data length boundary, every tag list of
    length <= 3 over a 14-tag alphabet: TagList.encode -> octets identical to the reference -> TagList.decode
    gives exactly the list back, buffer empty, every octet consumed.
 b  decode totality: every octet string of length 0..2 (quick) / 0..3 (thorough) and every single-octet
    substitution (all 256 values), truncation and one-octet insertion (all 256 values) at every header /
    first / last contents position of the encodings of (a).  The decoder must terminate (call budget on a
    counting PDUData subclass + a SIGALRM watchdog), must not hand out contents the buffer did not hold, and
    must either raise InvalidTag or return a list whose re-encoding decodes to the same list; any other
    exception type is a failure.  Where the octets are the canonical encoding of a list (reference parse
    without long forms / reserved patterns) that list must be returned.
 c  nesting: every sequence of length <= 6 (quick) / <= 7 (thorough) over {open0 open1 close0 close1 ctx0 ctx1
    app} plus every sequence of length 7..9 over {open0 close0 ctx0} (depth >= 4):  TagList.get_context(n) for
    n = 0, 1, 2 and Any.decode / Any.encode against the reference group extractor.
"""
import signal
import time
import traceback

import bv  # noqa: F401
from bacpypes.pdu import PDUData
from bacpypes.errors import InvalidTag, DecodingError
from bacpypes.primitivedata import Tag, TagList
from bacpypes.constructeddata import Any

from bv.engine.acc import Acc
from bv.engine.pool import run_shards, HarnessError
from bv.refs import tagref as R

PROPERTY = "C02"
LEVEL = "exploration"
BUDGET = {"quick": 55.0, "thorough": 840.0}
RULE = ("a: one case per tag list (distinct by the list); b: one evaluation per octet string; strings of length <= 2 "
        "and mutants of encodings of one or two tags are distinct one by one (mutants that equal their original are "
        "skipped); to bound the key set, the 2^24 strings of length 3 are all evaluated but counted as distinct by "
        "parse shape ((class, number, length) per tag, or rejection) and the mutants of three-tag encodings per "
        "(encoding, mutation kind, position); c: four evaluations (get_context(0|1|2), Any.decode) per tag sequence, "
        "distinct by the sequence; "
        "outcomes are labelled by part x result (list returned / InvalidTag / group / single tag / absent / "
        "unbalanced) x form (canonical, long form, reserved pattern) x nesting depth")
ASSUMPTIONS = [
    "a tag is (class, number, L/V/T, contents); lists are compared field by field with contents as bytes",
    "balance is level counting: an opening tag is closed by the next closing tag on its level whatever its number "
    "(pairing of numbers is checked by the callers that consume the closing tag, not by get_context / Any.decode); "
    "sequences whose levels balance but whose numbers do not pair are labelled in the outcomes",
    "get_context scans from the left: an imbalance after the wanted item is not seen",
    "for non-canonical but well-formed octets (long-form length or number, class bit clear with L/V/T 6/7, tag "
    "number 255) only the statement's conditions are judged (InvalidTag, or a list that survives re-encoding); "
    "whether the decoder agrees with the liberal reference reader is recorded as an outcome only",
    "octet strings longer than 3 are covered only as one-octet mutants of the encodings of part a",
    "unbalanced input to Any.decode / get_context may be reported with InvalidTag or DecodingError",
]
BOUNDS = {
    "quick": "a: 4 classes x 9 numbers x 12 lengths (<= 70000) singles + 2955 lists of length <= 3; b: all octet "
             "strings of length 0..2, mutants (256 substitutions, 256 insertions, truncation per selected position) of "
             "the singles (lengths >= 65535 for tag numbers 0, 15, 254 only) and of the lists of length <= 2; c: 7-symbol sequences of length <= 6, 3-symbol sequences of "
             "length 7..9",
    "thorough": "a: as quick + lists of length 4 over 7 tags; b: all octet strings of length 0..3 (16.8 M), mutants of "
                "the singles and of all lists of length <= 3; c: 7-symbol sequences of length <= 7, 3-symbol sequences "
                "of length 7..10",
}

_SEED = 0

# ----------------------------------------------------------------------------- helpers


def pos_bytes(n, seed):
    return bytes(((i * 131) ^ (i >> 8) * 29 ^ (i >> 16) * 7 ^ seed) & 0xFF for i in range(n))


_POS_CACHE = {}


def contents(n, seed):
    k = (n, seed)
    b = _POS_CACHE.get(k)
    if b is None:
        b = _POS_CACHE[k] = pos_bytes(n, seed)
    return b


def ref_tag(spec, seed):
    """(class, number, length) -> reference tag tuple with position dependent contents"""
    cls, number, n = spec
    if cls in (R.OPEN, R.CLOSE):
        return (cls, number, 0, b"")
    if cls == R.APP and number == R.BOOLEAN:
        return (cls, number, n, b"")
    return (cls, number, n, contents(n, seed))


def real_tag(t):
    """bacpypes Tag object of a reference tuple (the four fields, nothing computed)."""
    cls, number, lvt, data = t
    return Tag({R.APP: Tag.applicationTagClass, R.CTX: Tag.contextTagClass, R.OPEN: Tag.openingTagClass,
                R.CLOSE: Tag.closingTagClass}[cls], number, lvt, data)


_CLASS_BACK = None


def shape_of(taglist):
    """Field-by-field picture of a bacpypes TagList in the reference's vocabulary."""
    global _CLASS_BACK
    if _CLASS_BACK is None:
        _CLASS_BACK = {Tag.applicationTagClass: R.APP, Tag.contextTagClass: R.CTX, Tag.openingTagClass: R.OPEN,
                       Tag.closingTagClass: R.CLOSE}
    return [(_CLASS_BACK.get(t.tagClass, t.tagClass), t.tagNumber, t.tagLVT, bytes(t.tagData)) for t in taglist.tagList]


def brief(tags, n=6):
    return [(c, num, lvt, d[:6].hex() + (".." if len(d) > 6 else "")) for (c, num, lvt, d) in tags[:n]] + (
        ["... %d tags" % len(tags)] if len(tags) > n else [])


class StepBudget(BaseException):
    """The decoder asked the buffer for more than any terminating decoder can."""


class Watchdog(BaseException):
    """SIGALRM: one block of decodes did not finish."""


def _alarm(signum, frame):
    raise Watchdog()


class CountingPDU(PDUData):
    """PDUData that counts what the decoder takes (no change of behaviour)."""

    def __init__(self, data):
        PDUData.__init__(self, data)
        self.total = len(self.pduData)
        self.calls = 0
        self.budget = 4 * self.total + 16
        self.overread = None

    def get(self):
        self.calls += 1
        if self.calls > self.budget:
            raise StepBudget()
        before = len(self.pduData)
        octet = PDUData.get(self)
        if before < 1:
            self.overread = "get() returned with an empty buffer"
        return octet

    def get_data(self, dlen):
        self.calls += 1
        if self.calls > self.budget:
            raise StepBudget()
        before = len(self.pduData)
        data = PDUData.get_data(self, dlen)
        if dlen > before or len(data) != dlen:
            self.overread = "get_data(%d) returned %d octets from a buffer of %d" % (dlen, len(data), before)
        return data


class Res(object):
    __slots__ = ("label", "sig", "detail", "shape")

    def __init__(self, label, sig=None, detail=None, shape=None):
        self.label = label
        self.sig = sig
        self.detail = detail
        self.shape = shape


# ----------------------------------------------------------------------------- part a

NUMBERS = (0, 1, 13, 14, 15, 16, 127, 253, 254)
LENGTHS = (0, 1, 4, 5, 6, 252, 253, 254, 255, 65535, 65536, 70000)

ALPHABET14 = [
    (R.APP, 0, 0), (R.APP, 1, 1), (R.APP, 2, 1), (R.APP, 6, 5), (R.APP, 7, 254), (R.APP, 5, 8),
    (R.CTX, 0, 1), (R.CTX, 14, 0), (R.CTX, 15, 4), (R.CTX, 254, 253),
    (R.OPEN, 0, 0), (R.CLOSE, 0, 0), (R.OPEN, 15, 0), (R.CLOSE, 254, 0),
]
ALPHABET7 = [(R.APP, 4, 4), (R.APP, 1, 0), (R.CTX, 3, 5), (R.CTX, 200, 2), (R.OPEN, 14, 0), (R.CLOSE, 14, 0), (R.CLOSE, 15, 0)]


def singles():
    out = []
    for cls in (R.APP, R.CTX):
        for number in NUMBERS:
            if cls == R.APP and number == R.BOOLEAN:
                out.append([(cls, number, 0)])
                out.append([(cls, number, 1)])
                continue
            for n in LENGTHS:
                out.append([(cls, number, n)])
    for cls in (R.OPEN, R.CLOSE):
        for number in NUMBERS:
            out.append([(cls, number, 0)])
    return out


def lists_over(alphabet, maxlen, minlen=0):
    out = []
    level = [[]]
    for L in range(0, maxlen + 1):
        if L >= minlen:
            out.extend(level)
        if L < maxlen:
            level = [p + [a] for p in level for a in alphabet]
    return out


def part_a_lists(tier):
    lists = singles() + lists_over(ALPHABET14, 3)
    if tier == "thorough":
        lists += lists_over(ALPHABET7, 4, 4)
    return lists


def check_framing(specs, seed):
    """One tag list through TagList.encode / TagList.decode.  -> Res"""
    tags = [ref_tag(s, seed) for s in specs]
    ref_octets = R.encode_tags(tags)
    try:
        tl = TagList([real_tag(t) for t in tags])
        pdu = PDUData()
        tl.encode(pdu)
        octets = bytes(pdu.pduData)
    except Exception as err:
        return Res("a:encode-raises", "framing:encode-raises-%s" % type(err).__name__, {"tags": brief(tags), "error": repr(err)})
    if octets != ref_octets:
        k = 0
        while k < min(len(octets), len(ref_octets)) and octets[k] == ref_octets[k]:
            k += 1
        return Res("a:octets-differ", "framing:encoded-octets-differ-from-reference",
                   {"tags": brief(tags), "first difference at": k, "emitted": octets[max(0, k - 4):k + 8],
                    "reference": ref_octets[max(0, k - 4):k + 8], "emitted_len": len(octets), "reference_len": len(ref_octets)})
    cp = CountingPDU(octets)
    try:
        back = TagList(cp)
    except InvalidTag as err:
        return Res("a:own-encoding-rejected", "framing:own-encoding-rejected-as-invalid-tag", {"tags": brief(tags), "octets": octets[:16]})
    except StepBudget:
        return Res("a:no-termination", "framing:decoder-does-not-terminate", {"tags": brief(tags)})
    except Exception as err:
        return Res("a:decode-raises", "framing:decode-raises-%s" % type(err).__name__, {"tags": brief(tags), "error": repr(err)})
    if len(cp.pduData) != 0:
        return Res("a:octets-left", "framing:octets-left-after-decode", {"tags": brief(tags), "left": len(cp.pduData)})
    if cp.overread:
        return Res("a:over-read", "framing:decoder-over-reads", {"tags": brief(tags), "what": cp.overread})
    got = shape_of(back)
    if got != tags:
        return Res("a:list-differs", "framing:decoded-list-differs", {"tags": brief(tags), "decoded": brief(got)})
    for a, b in zip(back.tagList, tl.tagList):
        if not (a == b) or (a != b):
            return Res("a:tag-eq-differs", "framing:decoded-tag-not-equal-by-Tag.__eq__", {"tags": brief(tags)})
    # the same octets once more, this time into ONE Tag object that is decoded into again and again (the documented
    # Tag.decode(pdu) use): what a decode leaves in the object is the tag just read, nothing of the one before
    if len(tags) > 1:
        cp = CountingPDU(octets)
        one = Tag()
        for k, want in enumerate(tags):
            try:
                one.decode(cp)
                got1 = shape_of(TagList([one]))[0]
                out = PDUData()
                one.encode(out)
                again = bytes(out.pduData)
            except StepBudget:
                return Res("a:no-termination", "framing:decoder-does-not-terminate", {"tags": brief(tags)})
            except Exception as err:
                return Res("a:reused-tag-raises", "framing:reused-tag-object-raises-%s" % type(err).__name__,
                           {"tags": brief(tags), "position": k, "error": repr(err)})
            if got1 != want or again != R.encode_tags([want]):
                return Res("a:reused-tag-differs", "framing:tag-object-decoded-into-again-keeps-something-of-the-previous-tag",
                           {"tags": brief(tags), "position": k, "decoded": brief([got1]) if isinstance(got1, tuple) else repr(got1),
                            "re-encoded": again[:16], "reference": R.encode_tags([want])[:16]})
        if len(cp.pduData) != 0:
            return Res("a:octets-left", "framing:octets-left-after-decode", {"tags": brief(tags), "left": len(cp.pduData)})
    nmax = max([len(t[3]) for t in tags] or [0])
    return Res("a:ok:%d-tags:%s" % (len(tags), "len<5" if nmax < 5 else "len5..253" if nmax <= 253 else
                                     "len254..65535" if nmax <= 65535 else "len>65535"))


# ----------------------------------------------------------------------------- part b

def form_of(flags):
    if not flags:
        return "canonical"
    return "+".join(sorted(flags))


def check_total(octets):
    """The decoder on arbitrary octets.  -> Res (shape = coarse parse shape for counting)"""
    try:
        ref, flags = R.parse_tags(octets)
    except R.Truncated:
        ref, flags = None, ()
    canonical = ref is not None and not flags
    if canonical and len(octets) <= 64 and R.encode_tags(ref) != octets:
        raise HarnessError("reference: flag-free parse of %s does not re-encode to itself" % octets.hex())
    cp = CountingPDU(octets)
    try:
        tl = TagList(cp)
    except InvalidTag:
        tl = None
    except StepBudget:
        return Res("b:no-termination", "decode:does-not-terminate", {"octets": octets[:32], "len": len(octets)})
    except Watchdog:
        raise
    except Exception as err:
        return Res("b:raises-%s" % type(err).__name__, "decode:raises-%s-instead-of-InvalidTag" % type(err).__name__,
                   {"octets": octets[:32], "len": len(octets), "error": repr(err)})
    if cp.overread:
        return Res("b:over-read", "decode:hands-out-octets-the-buffer-did-not-hold", {"octets": octets[:32], "what": cp.overread})
    if tl is None:
        if ref is None:
            return Res("b:InvalidTag:truncated", shape=("trunc",))
        if canonical:
            return Res("b:canonical-rejected", "decode:canonical-encoding-rejected-as-invalid-tag",
                       {"octets": octets[:32], "len": len(octets), "reference reads": brief(ref)})
        return Res("b:InvalidTag:reference-reads-%s" % form_of(flags), shape=("rejected",))
    if len(cp.pduData) != 0:
        return Res("b:octets-left", "decode:returns-with-octets-left", {"octets": octets[:32], "left": len(cp.pduData)})
    got = shape_of(tl)
    for (c, num, lvt, d) in got:
        if c in (R.OPEN, R.CLOSE) or (c == R.APP and num == R.BOOLEAN):
            ok = len(d) == 0
        else:
            ok = len(d) == lvt
        if not ok:
            return Res("b:length-lies", "decode:tag-length-and-contents-disagree",
                       {"octets": octets[:32], "tag": (c, num, lvt, len(d))})
    if ref is None:
        return Res("b:list-from-truncated", "decode:returns-tags-for-truncated-octets",
                   {"octets": octets[:32], "len": len(octets), "decoded": brief(got)})
    # the statement's condition: the re-encoding decodes to the same list
    try:
        out = PDUData()
        tl.encode(out)
        again = TagList(PDUData(out.pduData))
    except InvalidTag:
        return Res("b:reencoding-invalid", "decode:reencoding-of-returned-list-is-invalid", {"octets": octets[:32], "decoded": brief(got)})
    except Exception as err:
        return Res("b:reencoding-raises", "decode:reencoding-of-returned-list-raises-%s" % type(err).__name__,
                   {"octets": octets[:32], "decoded": brief(got), "error": repr(err)})
    got2 = shape_of(again)
    if got2 != got or len(again.tagList) != len(tl.tagList):
        return Res("b:reencoding-differs", "decode:reencoding-decodes-to-a-different-list",
                   {"octets": octets[:32], "decoded": brief(got), "reencoded": bytes(out.pduData)[:32], "decoded again": brief(got2)})
    shape = tuple((c, num, lvt) for (c, num, lvt, d) in got)
    if canonical:
        if got != ref:
            return Res("b:canonical-misread", "decode:canonical-encoding-misread",
                       {"octets": octets[:32], "decoded": brief(got), "reference reads": brief(ref)})
        if bytes(out.pduData) != octets:
            return Res("b:canonical-reencoded-differently", "decode:canonical-encoding-not-reproduced",
                       {"octets": octets[:32], "reencoded": bytes(out.pduData)[:32]})
        return Res("b:list:canonical:%d-tags" % min(len(got), 3), shape=shape)
    agree = "agrees" if got == ref else "differs-from-liberal-reference"
    return Res("b:list:%s:%s" % (form_of(flags), agree), shape=shape)


def header_len(octets, pos):
    (_t, nxt, _f) = R.parse_tag(octets, pos)
    t = _t
    return nxt - len(t[3]) - pos, nxt


def mutation_positions(octets):
    """Offsets worth touching: every header octet, the first two and the last contents octet of every tag."""
    pos = 0
    sel = []
    n = len(octets)
    while pos < n:
        hl, nxt = header_len(octets, pos)
        for p in range(pos, pos + hl):
            sel.append(p)
        body = pos + hl
        for p in (body, body + 1, nxt - 1):
            if body <= p < nxt:
                sel.append(p)
        pos = nxt
    return sorted(set(sel))


# ----------------------------------------------------------------------------- part c

SYMBOLS7 = ("open0", "open1", "close0", "close1", "ctx0", "ctx1", "app")
SYMBOLS3 = ("open0", "close0", "ctx0")


def symbol_tag(sym, i):
    if sym == "app":
        return (R.APP, R.UNSIGNED, 1, bytes([i]))
    n = int(sym[-1])
    if sym.startswith("open"):
        return (R.OPEN, n, 0, b"")
    if sym.startswith("close"):
        return (R.CLOSE, n, 0, b"")
    return (R.CTX, n, 1, bytes([i]))


def seq_of(symbols, L, idx):
    base = len(symbols)
    out = []
    for _ in range(L):
        out.append(symbols[idx % base])
        idx //= base
    return out[::-1]


def numbers_pair(tags):
    """True when every closing tag carries the number of the opening tag it closes (level-balanced input)."""
    stack = []
    for t in tags:
        if t[0] == R.OPEN:
            stack.append(t[1])
        elif t[0] == R.CLOSE:
            if not stack or stack.pop() != t[1]:
                return False
    return not stack


def check_nesting(seq):
    """-> list of (query, Res)"""
    tags = [symbol_tag(s, i) for i, s in enumerate(seq)]
    octets = R.encode_tags(tags)
    depth = R.max_depth(tags)
    dlabel = "depth%d" % min(depth, 5)
    results = []
    pair = ""
    try:
        if R.any_prefix(tags) == len(tags) and not numbers_pair(tags):
            pair = ":levels-balance-but-numbers-do-not-pair"
    except R.Unbalanced:
        pass

    def fresh():
        tl = TagList(PDUData(octets))
        if shape_of(tl) != tags:
            raise HarnessError("part c: sequence %r does not decode to itself (part a covers this)" % (seq,))
        return tl

    for ctx in (0, 1, 2):
        try:
            exp = R.get_context(tags, ctx)
        except R.Unbalanced:
            exp = "unbalanced"
        tl = fresh()
        members = list(tl.tagList)
        raised = False
        got = None
        try:
            got = tl.get_context(ctx)
        except (InvalidTag, DecodingError):
            raised = True
        except Exception as err:
            results.append((ctx, Res("c:get_context:raises", "nesting:get_context-raises-%s" % type(err).__name__,
                                     {"sequence": seq, "context": ctx, "error": repr(err), "reference": exp})))
            continue
        if raised:
            seen = "unbalanced"
        elif got is None:
            seen = None
        elif isinstance(got, TagList):
            seen = ("group", [index_of(members, t) for t in got.tagList])
        elif isinstance(got, Tag):
            seen = ("tag", index_of(members, got))
        else:
            seen = ("unknown", repr(got))
        if len(tl.tagList) != len(members) or any(a is not b for a, b in zip(tl.tagList, members)):
            results.append((ctx, Res("c:get_context:mutates", "nesting:get_context-changes-the-list", {"sequence": seq, "context": ctx})))
            continue
        if seen != exp:
            if exp == "unbalanced":
                sig = "nesting:get_context-extracts-from-unbalanced-list"
            elif seen == "unbalanced":
                sig = "nesting:get_context-rejects-balanced-group"
            elif exp is None:
                sig = "nesting:get_context-finds-absent-context"
            elif seen is None:
                sig = "nesting:get_context-misses-present-context"
            else:
                sig = "nesting:get_context-extracts-wrong-members"
            results.append((ctx, Res("c:get_context:differs", sig, {"sequence": seq, "context": ctx, "reference": exp, "got": seen})))
            continue
        kind = "unbalanced" if exp == "unbalanced" else "absent" if exp is None else exp[0]
        results.append((ctx, Res("c:get_context:%s:%s%s" % (kind, dlabel, pair))))

    # Any.decode takes the value up to the closing tag of the enclosing group
    try:
        k = R.any_prefix(tags)
    except R.Unbalanced:
        k = "unbalanced"
    tl = fresh()
    members = list(tl.tagList)
    a = Any()
    try:
        a.decode(tl)
        taken = [index_of(members, t) for t in a.tagList.tagList]
        rest = [index_of(members, t) for t in tl.tagList]
        seen = len(taken) if (taken == list(range(len(taken))) and rest == list(range(len(taken), len(members)))) else ("scrambled", taken, rest)
    except (InvalidTag, DecodingError):
        seen = "unbalanced"
    except Exception as err:
        results.append(("any", Res("c:any:raises", "nesting:Any.decode-raises-%s" % type(err).__name__,
                                   {"sequence": seq, "error": repr(err), "reference": k})))
        return results
    if seen != k:
        if k == "unbalanced":
            sig = "nesting:Any.decode-accepts-unbalanced-value"
        elif seen == "unbalanced":
            sig = "nesting:Any.decode-rejects-balanced-value"
        else:
            sig = "nesting:Any.decode-takes-wrong-tags"
        results.append(("any", Res("c:any:differs", sig, {"sequence": seq, "reference takes": k, "got": seen})))
        return results
    if k != "unbalanced":
        out = TagList()
        a.encode(out)
        if [index_of(members, t) for t in out.tagList] != list(range(k)):
            results.append(("any", Res("c:any:encode-differs", "nesting:Any.encode-does-not-give-back-what-decode-took", {"sequence": seq})))
            return results
    results.append(("any", Res("c:any:%s:%s%s" % ("unbalanced" if k == "unbalanced" else "all" if k == len(tags) else "prefix", dlabel, pair))))
    return results


def index_of(members, t):
    for i, m in enumerate(members):
        if m is t:
            return i
    return -1


# ----------------------------------------------------------------------------- shards

_LISTS = []       # part a lists, filled before the fork
_TIER = "quick"

# watchdog: a 1 s interval timer; the handler raises Watchdog when the evaluation counter of the running shard has
# not moved for STUCK_S ticks, i.e. ONE decode has been running that long (no per-case system call)
STUCK_S = 10
_WD = {"acc": None, "last": -1, "stuck": 0, "current": None}


def _tick(signum, frame):
    acc = _WD["acc"]
    if acc is None:
        return
    if acc.evaluations == _WD["last"]:
        _WD["stuck"] += 1
        if _WD["stuck"] >= STUCK_S:
            _WD["stuck"] = 0
            raise Watchdog()
    else:
        _WD["last"] = acc.evaluations
        _WD["stuck"] = 0


def guarded(acc, fn):
    """Run fn() under the per-case watchdog; a stuck case becomes a failing case of the decoder."""
    _WD.update(acc=acc, last=-1, stuck=0, current=None)
    old = signal.signal(signal.SIGALRM, _tick)
    signal.setitimer(signal.ITIMER_REAL, 1.0, 1.0)
    try:
        fn()
    except Watchdog:
        cur = _WD["current"] or {"part": "?"}
        acc.case(("stuck", repr(cur)[:200]))
        acc.outcome("no-termination-within-%ds" % STUCK_S)
        acc.cap("a block was abandoned after a case that did not terminate (the rest of that block was not evaluated)")
        acc.fail("decode:does-not-terminate", {"watchdog": "one case ran for more than %d s" % STUCK_S,
                                               "case": {k: (v[:32] if isinstance(v, bytes) else v) for k, v in cur.items()}}, cur)
    finally:
        signal.setitimer(signal.ITIMER_REAL, 0, 0)
        signal.signal(signal.SIGALRM, old)
        _WD["acc"] = None


def record(acc, res, case):
    acc.outcome(res.label)
    if res.sig is not None:
        acc.fail(res.sig, res.detail, case)


def mutants(octets):
    """(kind, position, value, mutant octets) for one encoding; kinds: 0 substitution, 1 insertion, 2 truncation;
    all 256 values at every selected position"""
    sel = mutation_positions(octets)
    for p in sel:
        orig = octets[p]
        head, tail = octets[:p], octets[p + 1:]
        for v in range(256):
            if v != orig:
                yield 0, p, v, head + bytes([v]) + tail
    for p in sel + [len(octets)]:
        head, tail = octets[:p], octets[p:]
        for v in range(256):
            yield 1, p, v, head + bytes([v]) + tail
    for p in sel:
        yield 2, p, 0, octets[:p]


K_BSHORT, K_BMUT, K_C = 1 << 60, 2 << 60, 3 << 60


def shard(item, deadline):
    """A crash of the harness itself is carried home in the Acc and raised by run() after the pool has ended
    normally (terminating a pool that still has large results in flight was seen to deadlock)."""
    acc = Acc()
    try:
        guarded(acc, lambda: shard_body(acc, item, deadline))
    except HarnessError as err:
        acc = Acc()
        acc.info["harness_error"] = ["%s" % err]
    except Exception as err:
        acc = Acc()
        acc.info["harness_error"] = ["shard %r: %r\n%s" % (item, err, traceback.format_exc())]
    return acc


def shard_body(acc, item, deadline):
    kind = item[0]
    if kind == "a":
        _, lo, hi = item
        for idx in range(lo, hi):
            specs = _LISTS[idx]
            case = _WD["current"] = {"part": "a", "tags": [list(s) for s in specs], "seed": _SEED}
            res = check_framing(specs, _SEED)
            acc.case(("a", tuple(specs)))
            record(acc, res, case)
        acc.add_info("a: tag lists", hi - lo)

    elif kind == "b-short":
        # every octet string of length 0..2
        for L in (0, 1, 2):
            for v in range(256 ** L):
                octets = v.to_bytes(L, "big") if L else b""
                case = _WD["current"] = {"part": "b", "octets": octets}
                res = check_total(octets)
                acc.case(K_BSHORT | (L << 24) | v)
                record(acc, res, case)
        acc.add_info("b: octet strings of length 0..2", 1 + 256 + 65536)

    elif kind == "b-len3":
        _, first = item
        done = 0
        for v in range(65536):
            if (v & 0xFFF) == 0 and time.time() > deadline:
                acc.cap("b: deadline inside the length-3 block of first octet 0x%02x" % first)
                break
            octets = bytes((first, v >> 8, v & 0xFF))
            case = _WD["current"] = {"part": "b", "octets": octets}
            res = check_total(octets)
            acc.case(("b3", res.label, res.shape))
            record(acc, res, case)
            done += 1
        acc.add_info("b: octet strings of length 3", done)

    elif kind in ("b-mut", "b-mut-set"):
        todo = range(item[1], item[2]) if kind == "b-mut" else item[1]
        lo, hi = todo[0], todo[-1] + 1
        done = 0
        for idx in todo:
            if time.time() > deadline:
                acc.cap("b: deadline inside the mutants (encoding %d of block %d..%d)" % (idx, lo, hi))
                break
            specs = _LISTS[idx]
            octets = R.encode_tags([ref_tag(s, _SEED) for s in specs])
            for mk, p, v, mutant in mutants(octets):
                if len(mutant) <= 600:
                    case = {"part": "b", "octets": mutant}
                else:
                    case = {"part": "b-mut", "tags": [list(s) for s in specs], "seed": _SEED, "mutation": [mk, p, v]}
                _WD["current"] = case
                res = check_total(mutant)
                # mutants of the (many) three-tag lists are counted as distinct per (encoding, kind, position) only,
                # to keep the key set small; all others one by one
                acc.case(K_BMUT | ((((idx * 4 + mk) << 20) | p) << 8) | (v if len(specs) < 3 else 0))
                done += 1
                if res.sig is not None:
                    acc.outcome(res.label)
                    acc.fail(res.sig, dict(res.detail, mutation=("substitute", "insert", "truncate")[mk], at=p, value=v,
                                           of=[list(s) for s in specs]), case)
                else:
                    acc.outcome("%s:%s" % (res.label, ("substituted", "inserted", "truncated")[mk]))
        acc.add_info("b: mutants", done)

    elif kind == "c":
        _, alpha, L, lo, hi = item
        symbols = SYMBOLS7 if alpha == 7 else SYMBOLS3
        n = 0
        for idx in range(lo, hi):
            if (idx & 0x3FF) == 0 and time.time() > deadline:
                acc.cap("c: deadline inside sequences of length %d" % L)
                break
            seq = seq_of(symbols, L, idx)
            case = _WD["current"] = {"part": "c", "seq": seq}
            for q, res in check_nesting(seq):
                acc.case(K_C | (((alpha * 16 + L) << 32) | idx))
                record(acc, res, case)
            n += 1
        acc.add_info("c: sequences", n)
    else:
        raise HarnessError("unknown shard %r" % (item,))


# ----------------------------------------------------------------------------- entry points

def blocks(n, size):
    return [(lo, min(n, lo + size)) for lo in range(0, n, size)]


def run(tier, seed, deadline):
    global _LISTS, _SEED, _TIER
    _TIER = tier
    acc = Acc()
    bad = R.selftest()
    if bad:
        raise HarnessError("reference self-test failed: %r" % (bad,))
    _SEED = seed & 0xFF
    _LISTS = part_a_lists(tier)
    n_single = len(singles())
    n_upto2 = n_single + 1 + 14 + 196            # singles + lists of length <= 2
    n_upto3 = n_single + len(lists_over(ALPHABET14, 3))

    # determinism: a few cases twice
    for octets in (b"", b"\x0e", b"\x25\x05\x01", b"\xf9\x05", b"\x65\xfe\x00"):
        r1, r2 = check_total(octets), check_total(octets)
        if (r1.label, r1.sig, r1.shape) != (r2.label, r2.sig, r2.shape):
            raise HarnessError("C02: %s decoded twice gave %r and %r" % (octets.hex(), r1.label, r2.label))

    items = []
    items += [("a", lo, hi) for lo, hi in blocks(len(_LISTS), 200)]
    # part c
    for L in range(0, (6 if tier == "quick" else 7) + 1):
        items += [("c", 7, L, lo, hi) for lo, hi in blocks(7 ** L, 12000)]
    for L in range(7, (9 if tier == "quick" else 10) + 1):
        items += [("c", 3, L, lo, hi) for lo, hi in blocks(3 ** L, 12000)]
    # part b
    items.append(("b-short",))
    mut_hi = n_upto2 if tier == "quick" else n_upto3
    if tier == "quick":
        # the 70 KB encodings are mutated for three tag numbers only (nibble, first extended, last extended)
        keep = [i for i in range(n_single) if _LISTS[i][0][2] < 65535 or _LISTS[i][0][1] in (0, 15, 254)]
    else:
        keep = list(range(n_single))
    items += [("b-mut", i, i + 1) for i in keep if _LISTS[i][0][2] >= 65535]
    short_ones = [i for i in keep if _LISTS[i][0][2] < 65535]
    items += [("b-mut-set", tuple(short_ones[k:k + 8])) for k in range(0, len(short_ones), 8)]
    items += [("b-mut", lo, hi) for lo, hi in blocks_from(n_single, mut_hi, 24)]
    if tier == "thorough":
        items += [("b-len3", first) for first in range(256)]
    run_shards(shard, items, deadline, into=acc, ordered=True)
    if acc.info.get("harness_error"):
        raise HarnessError("C02 harness crashed in %d shard(s); first: %s" % (len(acc.info["harness_error"]), acc.info["harness_error"][0]))
    acc.info["blocks"] = len(items)
    acc.info["a: singles"] = n_single
    acc.info["b: encodings mutated"] = len(keep) + mut_hi - n_single
    acc.sample({"part": "a", "tags": _LISTS[n_single + 500], "octets": R.encode_tags([ref_tag(s, _SEED) for s in _LISTS[n_single + 500]])[:32]})
    acc.sample({"part": "b", "octets": b"\x65\xfe\x00\x03\x01\x02\x03", "result": check_total(b"\x65\xfe\x00\x03\x01\x02\x03").label})
    acc.sample({"part": "b", "octets": b"\x2d\x07\x01", "result": check_total(b"\x2d\x07\x01").label})
    acc.sample({"part": "c", "seq": ["open1", "close1", "open0", "ctx1", "open1", "close0", "close0"],
                "results": [(q, r.label) for q, r in check_nesting(["open1", "close1", "open0", "ctx1", "open1", "close0", "close0"])]})
    return acc


def blocks_from(lo, hi, size):
    return [(a, min(hi, a + size)) for a in range(lo, hi, size)]


def replay(case):
    part = case["part"]
    if part == "a":
        specs = [tuple(s) for s in case["tags"]]
        res = replay_guard(lambda: check_framing(specs, case.get("seed", 0)))
        if res is None:
            return False, "tag list %r -> decode:does-not-terminate (no result within 30 s)" % (specs,)
        return res.sig is None, "tag list %r -> %s %r" % (specs, res.sig or res.label, printable(res.detail))
    if part in ("b", "b-mut"):
        if part == "b-mut":
            specs = [tuple(s) for s in case["tags"]]
            octets = R.encode_tags([ref_tag(s, case.get("seed", 0)) for s in specs])
            mk, p, v = case["mutation"]
            octets = [octets[:p] + bytes([v]) + octets[p + 1:], octets[:p] + bytes([v]) + octets[p:], octets[:p]][mk]
        else:
            octets = bytes(case["octets"])
        res = replay_guard(lambda: check_total(octets))
        if res is None:
            return False, "octets %s (%d) -> decode:does-not-terminate (no result within 30 s)" % (octets[:40].hex(), len(octets))
        return res.sig is None, "octets %s%s (%d) -> %s %r" % (octets[:40].hex(), ".." if len(octets) > 40 else "", len(octets),
                                                              res.sig or res.label, printable(res.detail))
    if part == "c":
        seq = list(case["seq"])
        out = replay_guard(lambda: check_nesting(seq))
        if out is None:
            return False, "sequence %r -> decode:does-not-terminate (no result within 30 s)" % (seq,)
        ok = all(r.sig is None for _, r in out)
        return ok, "sequence %r\n" % (seq,) + "\n".join("  %s -> %s %r" % (q, r.sig or r.label, printable(r.detail)) for q, r in out)
    return False, "unknown part %r" % (part,)


def replay_guard(fn):
    def boom(signum, frame):
        raise Watchdog()
    old = signal.signal(signal.SIGALRM, boom)
    signal.alarm(30)
    try:
        return fn()
    except Watchdog:
        return None
    finally:
        signal.alarm(0)
        signal.signal(signal.SIGALRM, old)


def printable(x):
    if isinstance(x, (bytes, bytearray)):
        return bytes(x).hex()
    if isinstance(x, dict):
        return {k: printable(v) for k, v in x.items()}
    if isinstance(x, (list, tuple)):
        return [printable(v) for v in x]
    return x
