"""C17 A commandable value equals its highest-priority command or the relinquish default.

Part cmd  (E2): per commandable class, breadth-first search over command histories on the REAL object
          (fresh object per history, replayed from scratch), deduplicated on the canonical command state
          (16 slots, present value, relinquish default, every other property value), against bv.refs.cmdref.
          Two drivers: "direct" (obj.WriteProperty / obj.ReadProperty) and "wire" (WriteProperty / ReadProperty
          request PDUs from a client application stack to a device application stack over a vlan).
Part pairs(E3): every ordered pair of the 16 priorities (write, write, relinquish, relinquish) and two
          fill-all-16 histories per class: reaches the slots the BFS alphabet does not name.
Part min  (E2): binary output / binary value with (minimum on, minimum off) in {0,2,3}^2 under the virtual clock,
          alphabet extended with "advance 1 s"; slot 6 follows the minimum on/off rule of the reference.

Refused writes are operations of the histories like any other: besides the refused priority / array-index forms,
every class is written values that are not values of its datatype (bv.refs.cmdref.INVALID: undefined enumeration
numbers and names, other datatypes, out-of-range numbers) at every priority of the set and in every state; the
oracle is "refused, and nothing at all changed".  Writes of priority-array elements 1..16 (a value, Null) may be
refused or taken as the command at that priority -- nothing else.
Mode "direct+pa": the histories also contain "the priority array is replaced as a whole" -- by attribute assignment,
through the mix-in's whole-array entry WriteProperty("priorityArray", array, direct=True) and by the same call without
`direct` (refused or taken) -- with a copy of its current content, an all-NULL array, an array with one slot set.  The
reference: the slots are those of the new array, later commands land in it; the present value is unspecified right
after the replacement and follows the rule again from the next accepted command on.
Mode "wire+cov": the device offers ChangeOfValueServices as well and the histories contain the life cycle of a COV
subscription of the commanded object (subscribe / renew with a lifetime or indefinitely, cancel, the lifetime
running out while time advances).  The reference knows nothing of subscriptions: they must not influence commanding.
"""
import re
import time

import bv  # noqa: F401
from bacpypes.errors import ExecutionError
from bacpypes.primitivedata import Unsigned
from bacpypes.basetypes import PriorityArray, PriorityValue

from bv.engine import vclock
from bv.engine.acc import Acc, h64
from bv.engine.pool import run_shards, HarnessError
from bv.refs import cmdref
from bv.refs.cmdref import NULL
from bv.stacks import cmdstack as cs

PROPERTY = "C17"
LEVEL = "model_checking"
BUDGET = {"quick": 90.0, "thorough": 840.0}
RULE = ("cmd: BFS over all histories of {write value_i | relinquish} x priority in the tier's priority set (None = no "
        "priority) plus the refused forms (priority 0/17/255/-1/-16 with a value and with Null; priorityArray[0] := length, "
        "priorityArray[0] := value, priorityArray[17] := value, priorityArray[17] := Null), plus writes of every invalid "
        "value of the class (cmdref.INVALID: undefined enumeration number / name, wrong datatype, out of range) at every "
        "priority of the set, plus priorityArray[k] := value (wire driver: and := Null) for every k of the set (either "
        "refused without change or exactly the command at priority k); a state is the canonical "
        "snapshot of the real object (16 slots as (alternative,value), present value, relinquish default, all other "
        "property values, pending min-on/off timer as time-to-go); a case is distinct by (configuration, state, "
        "operation); failing transitions are not expanded.  Merged on purpose: the protocol stacks' own state (next "
        "invoke id, device info cache) is not part of the state -- every transaction completes before the next "
        "operation and the property is stated on the object.  pairs: all 16x16 ordered priority pairs x 2 value pairs "
        "and two fill-all histories.  min: same BFS with priorities {1,8,none}, both binary states, relinquish and "
        "'advance 1 s' for every (min-on, min-off) in {0,2,3}^2, plus the invalid-value writes; mode wire+cov adds "
        "SubscribeCOV(lifetime 2 s | indefinite, unconfirmed | confirmed as the tier says) and the cancellation to the "
        "alphabet (lifetimes run out under 'advance 1 s'); there the state also carries the harness' account of the "
        "subscription (never / active with time to live / ended) and the device's number of live subscriptions; mode "
        "direct+pa adds the 3 x 3 whole-array replacements (assignment | WriteProperty direct=True | WriteProperty) x (copy "
        "of the content | all NULL | one slot set) to the cmd alphabet; there the state also carries the harness' account "
        "of how the array object was last replaced (never / assign / write-direct / write)")
ASSUMPTIONS = [
    "the *CmdObject classes are used through a register_object_type(vendor_id=999) subclass, as samples/CommandableMixin.py does",
    "objects are constructed with explicit presentValue = relinquishDefault (a consistent all-null initial state); "
    "binary objects with minimum times also get an explicit priorityArray",
    "values are three (binary: two) type-appropriate values per class incl. the type's zero/empty value, enumerations by name; "
    "invalid values are the two or three per class of bv.refs.cmdref.INVALID (direct driver: the bare Python value, wire "
    "driver: the application-tagged value); enumerations are otherwise written by name; whole-array writes are not explored",
    "a write of an invalid value, or of priority-array element 1..16, counts as refused in the direct driver when ANY "
    "exception is raised (the statement does not say which), in the wire driver when answered with Error / Reject / Abort; "
    "priority-array elements 1..16 are written as the value itself (direct) / as a BACnetPriorityValue (wire)",
    "direct+pa: right after a whole-array replacement the statement says nothing about the present value (the replacement "
    "is neither a write nor a relinquish), so it is not checked until the next accepted command; slots, relinquish default "
    "and everything else are; a replacement without direct=True may be refused (read-only property) or taken; not combined "
    "with minimum on/off times or the wire driver",
    "wire+cov: one subscriber process of one client, perfect network, the client acknowledges confirmed notifications; "
    "what the notifications say is not checked here (only that subscriptions have no influence on commanding)",
    "commands at priority 6 are not issued in the minimum on/off part (slot 6 belongs to the mechanism there)",
    "time advances in whole seconds, minimum times in {0,2,3} s; single thread; virtual clock bound to bacpypes.task._time",
    "wire driver: perfect network (every frame delivered at once), unsegmented, one outstanding request",
    "the invalid-value writes of one state are issued one after the other in one execution (each checked on its own: "
    "refused, canonical state as before it; a passing one leaves the state where it was, so the next starts from the same "
    "state; after a failing one the rest is run from the state again); every other operation gets a fresh object",
    "'refused' for the priority / array-index forms means: direct driver -- an ExecutionError is raised (what the service layer turns into a BACnet Error; any "
    "other exception type on a refused form is reported); wire driver -- the request is answered with an Error, Reject or "
    "Abort PDU and not with a SimpleAck; in both, the canonical state (all property values) is unchanged",
    "a transition that fails the oracle is reported and not expanded further, so 'closure' is closure of the non-failing part",
    "histories beyond the closure of the stated alphabets (e.g. length-100 sequences over all 16 priorities) are covered "
    "only as far as they revisit the explored states; slots outside the priority set are reached by the pairs part only",
]
BOUNDS = {
    "quick": "cmd: priorities {1,6,8,16,none}, depth<=6 (closure), direct for all 20 classes, wire for 3 classes "
             "(analog value, binary output, character string value); pairs: direct, all 20 classes; "
             "min: binary output + binary value direct, depth<=9, 9 (on,off) configurations each; wire+cov (priorities {1,8}, "
             "subscribe 2 s unconfirmed, cancel) for binary output with (on,off) in {(2,3),(0,2)} and binary value with "
             "{(2,3),(3,0)}, depth<=12; cmd direct+pa (priorities {1,8}, whole-array replacements) for all 20 classes",
    "thorough": "cmd: priorities {1,6,8,16,none} wire for all 20 classes; priorities {1,2,6,8,16,none} direct for all 20 "
                "classes and wire for analog value + binary output, depth<=7 (closure); pairs: direct + wire, all 20 classes; "
                "min: binary output + binary value, direct and wire, depth<=14 (closure), 9 configurations each; "
                "wire+cov (priorities {1,8}; subscribe 2 s / indefinite unconfirmed, 2 s confirmed, cancel) for both, 9 configurations "
                "each, depth<=16; cmd wire+cov (priorities {1,8,none}, same subscription alphabet) for binary value, "
                "multi-state value, date value; cmd direct+pa (priorities {1,8,none}) for all 20 classes",
}

PRIOS_STD = (1, 6, 8, 16, None)
PRIOS_EXT = (1, 2, 6, 8, 16, None)
PRIOS_MIN = (1, 8, None)
PRIOS_COV = (1, 8)              # quick tier, wire+cov: one priority above and one below the hold slot 6
# the priority array is replaced as a whole: by attribute assignment, through the mix-in's whole-array entry
# WriteProperty("priorityArray", array, direct=True), and the same call without `direct` (a service-level write of
# a read-only property: refused or taken, both allowed); with a copy of its content, all NULL, one slot set
PA_WAYS = ("assign", "write-direct", "write")
PA_CONTENTS = ("copy", "clear", "one")
COV_QUICK = (("cov", "sub", 2, False), ("cov", "cancel"))
COV_FULL = (("cov", "sub", 2, False), ("cov", "sub", 0, False), ("cov", "sub", 2, True), ("cov", "cancel"))
QUICK_WIRE = ("AnalogValueCmdObject", "BinaryOutputCmdObject", "CharacterStringValueCmdObject")
CLASS_INFO = dict((n, (c, d)) for (n, c, d) in cmdref.CLASSES)

# a configuration is a plain tuple: (part, class name, mode, priority set, min_on, min_off)
# mode: "direct" | "wire" | "wire+cov" (quick subscription alphabet) | "wire+cov*" (full subscription alphabet)
#       | "direct+pa" (direct, with whole-array replacements in the alphabet)


def cfg_label(cfg):
    part, name, mode, prios, mon, moff = cfg
    s = "%s[%s,%s,p%d" % (part, name.replace("CmdObject", ""), mode, len(prios))
    if part == "min":
        s += ",on=%s,off=%s" % (mon, moff)
    return s + "]"


def alphabet(cfg):
    """Valid commands first, then the refused forms, then the invalid values, then subscription events."""
    part, name, mode, prios, mon, moff = cfg
    domain = CLASS_INFO[name][1]
    nvals = len(cmdref.DOMAINS[domain]["values"])
    ops = []
    for p in prios:
        for vi in range(nvals):
            ops.append(("w", p, vi))
        ops.append(("r", p))
    if part == "min":
        ops.append(("adv",))
    else:
        for p in (0, 17, 255, -1, -16):      # a priority is a signed integer on the wire
            ops.append(("w", p, 0))
            ops.append(("r", p))
        ops += [("a", 0, "len"), ("a", 0, "val"), ("a", 17, "val"), ("a", 17, "null")]
        for p in prios:
            if p is not None:
                ops.append(("a", p, "val"))
                if not mode.startswith("direct"):    # direct: the same statements as a relinquish at p, not repeated
                    ops.append(("a", p, "null"))
    for p in prios:
        for j in range(len(cmdref.INVALID[domain])):
            ops.append(("x", p, j))
    if mode == "direct+pa":
        for way in PA_WAYS:
            for content in PA_CONTENTS:
                ops.append(("pa", way, content))
    if mode == "wire+cov":
        ops += list(COV_QUICK)
    elif mode == "wire+cov*":
        ops += list(COV_FULL)
    return ops


def in_range(op):
    """array-element write that addresses one of the 16 slots"""
    return op[0] == "a" and isinstance(op[1], int) and 1 <= op[1] <= 16


def strict_form(op):
    """refused forms for which the direct driver must raise an ExecutionError (bad priority, array index 0 / > 16)"""
    return op[0] in ("w", "r") or (op[0] == "a" and not in_range(op))


def op_kind(op):
    if op[0] == "w":
        return "write"
    if op[0] == "r":
        return "relinquish"
    if op[0] == "a":
        return "array-element-write"
    if op[0] == "x":
        return "invalid-value-write"
    if op[0] == "cov":
        return "cov-subscribe" if op[1] == "sub" else "cov-cancel"
    if op[0] == "pa":
        return "array-replacement"
    return "advance"


def op_form(op, domain=None):
    if op[0] in ("w", "r"):
        return "priority-%s" % (op[1],)
    if op[0] == "a":
        return "array-index-in-1-to-16" if in_range(op) else "array-index-%s" % (op[1],)
    if op[0] == "x":
        return cmdref.INVALID[domain][op[2]][0] if domain else "invalid-value"
    if op[0] == "cov":
        return "cov"
    if op[0] == "pa":
        return "%s-%s" % (op[1], op[2])
    return "advance"


class ConstructError(Exception):
    pass


# ------------------------------------------------------------------------------------ one execution

class Run(object):
    """Fresh real object (+ stacks in wire mode) and fresh reference for one configuration."""

    def __init__(self, cfg):
        part, name, mode, prios, mon, moff = cfg
        self.cfg = cfg
        self.cov = mode.startswith("wire+cov")
        self.pa = mode == "direct+pa"
        self.mode = "wire" if self.cov else "direct" if self.pa else mode      # the driver: "direct" | "wire"
        self.replaced = "never"         # harness' own account: how the array object was last replaced as a whole
        self.new_array = None
        self.pa_equiv = []
        self.one_slot = max([p for p in prios if p is not None] or [16])
        self.choice, self.domain = CLASS_INFO[name]
        dom = cmdref.DOMAINS[self.domain]
        self.values = dom["values"]
        self.invalid = cmdref.INVALID[self.domain]
        vclock.reset(0.0)
        try:
            if part == "min":
                self.obj = cs.make_object(name, self.domain, min_on=mon, min_off=moff, explicit_array=True,
                                          status_flags=self.cov)
            else:
                self.obj = cs.make_object(name, self.domain, status_flags=self.cov)
        except Exception as err:
            raise ConstructError("%s: %s" % (type(err).__name__, str(err)[:120]))
        self.ref = cmdref.CmdRef(dom["default"], min_on=mon or 0, min_off=moff or 0)
        self.book = cmdref.SubscriptionBook() if self.cov else None
        self.oid = self.obj.objectIdentifier
        self.pair = None
        if self.mode == "wire":
            self.pair = cs.WirePair(cov=self.cov)
            self.pair.add(self.obj)

    # -- applying one operation
    def apply_ref(self, op):
        try:
            if op[0] == "w":
                self.ref.command(self.values[op[2]], priority=op[1])
            elif op[0] == "r":
                self.ref.command(NULL, priority=op[1])
            elif op[0] == "a":
                if in_range(op):
                    return "either"                             # settled by settle_either once the answer is known
                self.ref.write_array_element(op[1], None)      # index 0 / 17: refused whatever the value
            elif op[0] == "x":
                self.ref.command_invalid(self.invalid[op[2]][0], priority=op[1])
            elif op[0] == "pa":
                self.new_array = self.ref.array_content(op[2], self.one_slot, self.values[0])
                # the ordinary commands that would bring the array to that content (the only value put is values[0])
                self.pa_equiv = [("r", k) if self.new_array[k - 1] is NULL else ("w", k, 0)
                                 for k in range(1, 17) if self.ref.slots[k] != self.new_array[k - 1]]
                if op[1] == "write":
                    return "either"                             # read-only for a service-level write, or taken
                self.ref.replace_array(self.new_array)
                self.replaced = op[1]
            elif op[0] == "cov":
                if op[1] == "sub":                              # the reference of commanding is not told
                    self.book.subscribe(op[2], op[3])
                else:
                    self.book.cancel()
            elif op[0] == "adv":
                self.ref.advance(1)
                if self.book is not None:
                    self.book.advance(1)
            return "accepted"
        except cmdref.Refused:
            return "refused"

    def settle_either(self, op, accepted):
        """priorityArray[k] := value / Null, k in 1..16, and priorityArray := array without `direct`: the reference
        follows the answer of the device"""
        if op[0] == "pa":
            if accepted:
                self.ref.replace_array(self.new_array)
                self.replaced = op[1]
            return "accepted" if accepted else "refused"
        value = self.values[0] if op[2] == "val" else NULL
        self.ref.optional_array_element(op[1], value, accepted)
        return "accepted" if accepted else "refused"

    def apply_real(self, op):
        """-> ('accepted',) | ('refused', how...) | ('broken', what...)"""
        if op[0] == "adv":
            vclock.advance_to(vclock.clock.now + 1.0)
            return ("accepted",)
        if self.mode == "direct":
            try:
                if op[0] == "w":
                    self.obj.WriteProperty("presentValue", cs.to_py(self.domain, self.values[op[2]]), priority=op[1])
                elif op[0] == "r":
                    self.obj.WriteProperty("presentValue", (), priority=op[1])
                elif op[0] == "x":
                    self.obj.WriteProperty("presentValue", cs.invalid_py(self.invalid[op[2]][1]), priority=op[1])
                elif op[0] == "pa":
                    arr = cs.make_array(self.domain, self.choice, self.new_array)
                    if op[1] == "assign":
                        self.obj.priorityArray = arr
                    elif op[1] == "write-direct":
                        self.obj.WriteProperty("priorityArray", arr, direct=True)
                    else:
                        self.obj.WriteProperty("priorityArray", arr)
                else:
                    val = {"len": 5, "val": cs.to_py(self.domain, self.values[0]), "null": ()}[op[2]]
                    self.obj.WriteProperty("priorityArray", val, arrayIndex=op[1])
            except ExecutionError as err:
                return ("refused", "ExecutionError", str(err.errorClass), str(err.errorCode))
            except Exception as err:
                return ("refused", type(err).__name__, str(err)[:80])
            return ("accepted",)
        # wire
        if op[0] == "w":
            res = self.pair.write(self.oid, "presentValue", cs.to_encodable(self.domain, self.values[op[2]]), priority=op[1])
        elif op[0] == "r":
            res = self.pair.write(self.oid, "presentValue", cs.to_encodable(self.domain, NULL), priority=op[1])
        elif op[0] == "x":
            res = self.pair.write(self.oid, "presentValue", cs.invalid_encodable(self.invalid[op[2]][1]), priority=op[1])
        elif op[0] == "cov":
            if op[1] == "sub":
                res = self.pair.subscribe(self.oid, lifetime=op[2], confirmed=op[3])
            else:
                res = self.pair.cancel(self.oid)
            if res[0] != "ack":
                raise HarnessError("C17: the device does not acknowledge %r for %r: %r" % (op, self.oid, res))
        elif in_range(op):
            enc = cs.to_priority_value(self.domain, self.choice, self.values[0] if op[2] == "val" else NULL)
            res = self.pair.write(self.oid, "priorityArray", enc, array_index=op[1])
        else:
            enc = {"len": Unsigned(5), "val": cs.to_encodable(self.domain, self.values[0]),
                   "null": cs.to_encodable(self.domain, NULL)}[op[2]]
            res = self.pair.write(self.oid, "priorityArray", enc, array_index=op[1])
        if res[0] == "ack":
            return ("accepted",)
        if res[0] in ("error", "reject", "abort"):
            return ("refused",) + tuple(res)
        return ("broken",) + tuple(res)

    # -- observing
    def view_direct(self):
        """(slots 1..16, pv, rd), array length -- through obj.ReadProperty"""
        obj = self.obj
        slots = []
        for i in range(1, 17):
            try:
                slots.append(cs.slot_view(self.domain, self.choice, obj.ReadProperty("priorityArray", i)))
            except Exception as err:
                slots.append(("?read", type(err).__name__))
        try:
            length = obj.ReadProperty("priorityArray", 0)
        except Exception as err:
            length = ("?read", type(err).__name__)
        pv = cs.from_py(self.domain, obj.ReadProperty("presentValue"))
        rd = cs.from_py(self.domain, obj.ReadProperty("relinquishDefault"))
        return (tuple(slots), pv, rd), length

    def view_wire(self, k):
        """same through ReadProperty requests: pv, rd, whole array, element k (if given), element 0"""
        dt = self.obj.get_datatype("presentValue")
        out = {}

        def rd(prop, index, cast):
            st, anyv = self.pair.read(self.oid, prop, index)
            if st != ("ack",):
                return ("?answer",) + tuple(st)
            try:
                return cast(anyv)
            except Exception as err:
                return ("?decode", type(err).__name__, str(err)[:60])

        pv = rd("presentValue", None, lambda a: cs.from_py(self.domain, a.cast_out(dt)))
        rdv = rd("relinquishDefault", None, lambda a: cs.from_py(self.domain, a.cast_out(dt)))

        def whole(a):
            arr = a.cast_out(PriorityArray)
            if len(arr) != 16:
                return ("?length", len(arr))
            return tuple(cs.slot_view(self.domain, self.choice, arr[i]) for i in range(1, 17))

        slots = rd("priorityArray", None, whole)
        out["length"] = rd("priorityArray", 0, lambda a: a.cast_out(Unsigned))
        if k is not None:
            out["element"] = (k, rd("priorityArray", k, lambda a: cs.slot_view(self.domain, self.choice, a.cast_out(PriorityValue))))
        return (slots, pv, rdv), out

    def canon(self, view):
        task = getattr(self.obj, "_min_on_off_task", None)
        pend = None
        if task is not None and task.isScheduled:
            pend = round(task.taskTime - vclock.clock.now, 6)
        if self.cov:
            return (view, pend, cs.other_properties(self.obj), self.book.status(), self.pair.live_subscriptions())
        if self.pa:
            return (view, pend, cs.other_properties(self.obj), ("array-replaced", self.replaced))
        return (view, pend, cs.other_properties(self.obj))


def compare(view, ref, op, part):
    """Direct (or wire) view against the reference snapshot -> None or (signature, detail)."""
    slots, pv, rd = view
    rslots, rpv, rrd = ref.snapshot()
    kind = op_kind(op) if op is not None else "construction"
    if not isinstance(slots, tuple) or len(slots) != 16:
        return ("slots:array-not-readable", {"got": slots})
    for i, s in enumerate(slots):
        if isinstance(s, tuple) and s and isinstance(s[0], str) and s[0].startswith("?"):
            return ("slot:malformed:%s" % (s[0][1:] or "not-a-value-of-the-datatype"), {"slot": i + 1, "got": s})
    if slots != rslots:
        diff = [(i + 1, slots[i], rslots[i]) for i in range(16) if slots[i] != rslots[i]]
        detail = {"slots (index, got, expected)": diff}
        if part == "min" and all(d[0] == 6 for d in diff):
            return ("minonoff:slot6-hold-differs", detail)
        if op is not None and op[0] in ("w", "r") and op[1] is None:
            return ("slots:command-without-priority-not-at-16", detail)
        if op is not None and op[0] in ("w", "r") and isinstance(op[1], int) and 1 <= op[1] <= 16:
            if any(d[0] == op[1] for d in diff):
                return ("slots:commanded-slot-does-not-hold-last-%s" % kind, detail)
            return ("slots:other-slot-changed-by-%s" % kind, detail)
        return ("slots:differ-after-%s" % kind, detail)
    if rpv is not cmdref.UNSPECIFIED and pv != rpv:
        src = "relinquish-default"
        for i in range(16):
            if rslots[i] is not NULL:
                src = "slot-16" if i == 15 else "slot-1-to-15"
                break
        return ("pv:differs-after-%s:expected-%s" % (kind, src), {"present value": pv, "expected": rpv, "slots": slots})
    if rd != rrd:
        return ("rd:relinquish-default-changed-by-%s" % kind, {"got": rd, "expected": rrd})
    return None


def execute(cfg, hist, check_from=0, labels=None):
    """_execute, and for a failing history that contains subscription events the differential diagnosis: does the
    same history WITHOUT them (same commands, same passage of time) pass?  Then the subscriptions are the cause."""
    res = _execute(cfg, hist, check_from, labels)
    bad, step = res[0], res[1]
    if bad is not None and step is not None and step >= 0 and any(op[0] == "cov" for op in hist[:step + 1]):
        plain = tuple(op for op in hist[:step + 1] if op[0] != "cov")
        if _execute(cfg, plain, 0)[0] is None:
            if bad[0] == "minonoff:on-off-times-swapped":       # refuted: the same commands pass without the events
                bad = (bad[1]["first"], bad[1]["detail"])
            bad = ("cov:subscription-events-change-commanding:%s" % bad[0],
                   {"mismatch": bad[1], "note": "the same history without the subscribe / cancel events passes",
                    "without": plain})
            res = (bad,) + tuple(res[1:])
    if bad is not None and step is not None and step >= 0 and any(op[0] == "pa" for op in hist[:step + 1]):
        # the same history with every replacement that took place spelled as the ordinary commands that bring the
        # array to the same content (none for a copy): does that pass?  Then replacing the array object is the cause.
        equiv = []
        _execute(cfg, hist[:step + 1], step + 2, equiv=equiv)          # unobserved re-run, collects the spelling
        plain = tuple(o for ops in equiv for o in ops)
        if plain and plain != tuple(hist[:step + 1]) and _execute(cfg, plain, 0)[0] is None:
            bad = ("array-replaced:commands-after-whole-array-replacement-go-astray:%s" % bad[0],
                   {"mismatch": bad[1], "note": "the same history passes when every replacement is spelled as ordinary "
                                                "commands that bring the array to the same content", "instead": plain})
            res = (bad,) + tuple(res[1:])
    return res


def _execute(cfg, hist, check_from=0, labels=None, equiv=None):
    """Replay `hist` on fresh real objects and on the reference.  `labels` (a list) receives the outcome label of
    every checked step.  From step `check_from` on, the direct view is
    checked after every step (the BFS passes len(hist)-1: the prefix is the history by which the parent state was
    first reached and was checked then); the wire view (wire mode) is checked after the last step.
    -> (bad | None, failing step | None, canon before last op, canon after, observed outcome label)"""
    part = cfg[0]
    run = Run(cfg)
    view, length = run.view_direct()
    bad = compare(view, run.ref, None, part)
    if bad is None and length != 16:
        bad = ("array:length-not-16", {"got": length})
    canon = run.canon(view)
    if bad is not None:
        return bad, -1, None, canon, "initial-state-wrong"
    before = canon
    label = "initial"
    for step, op in enumerate(hist):
        want = run.apply_ref(op)
        got = run.apply_real(op)
        if want == "either":
            want = run.settle_either(op, got[0] == "accepted")
        if equiv is not None:               # (failing cases only) the step as ordinary commands
            if op[0] == "pa":
                equiv.append(tuple(run.pa_equiv) if (want == "accepted" and got[0] == "accepted") else ())
            else:
                equiv.append((op,))
        if step < check_from - 1:
            continue                    # unobserved prefix
        before, before_view = canon, view
        view, length = run.view_direct()
        canon = run.canon(view)
        if step < check_from:
            continue                    # the observation before the first checked step
        label = "%s:%s:%s" % (op_kind(op), want, ":".join(str(x) for x in got[:4]))
        if op[0] == "x":
            how = got[:4] if (run.mode == "wire" or got[1:2] == ("ExecutionError",)) else got[:2]
            label = "%s:%s:%s:%s" % (op_kind(op), want, ":".join(str(x) for x in how), op_form(op, run.domain))
        elif in_range(op):
            label = "%s:in-1-to-16" % label
        elif op[0] == "pa":
            label = "%s:%s" % (label, op_form(op))
        elif op[0] == "cov" or (op[0] == "adv" and run.cov):
            label = "%s:subscription-%s:live-%d" % (label, canon[3][0] if isinstance(canon[3], tuple) else canon[3], canon[4])
        if labels is not None:
            labels.append(label)
        if got[0] == "broken":
            return ("wire:%s-gets-no-proper-answer:%s" % (op_kind(op), got[1]), {"op": op, "got": got}), step, before, canon, label
        if want == "refused" and got[0] == "accepted":
            if op[0] == "x":
                stored = addressed_slot_only(op, before, canon)
                return ("invalid-value:%s:%s" % ("acknowledged-and-put-into-the-addressed-slot" if stored else "acknowledged",
                                                 op_form(op, run.domain)),
                        {"op": op, "changed": what_changed(before, canon), "before": before_view, "after": view}), \
                    step, before, canon, label
            return ("refusal:%s-%s-accepted" % (op_kind(op), op_form(op, run.domain)),
                    {"op": op, "before": before_view, "after": view}), step, before, canon, label
        if want == "accepted" and got[0] != "accepted":
            return ("command:valid-%s-refused:%s" % (op_kind(op), ":".join(str(x) for x in got[1:4])),
                    {"op": op, "got": got}), step, before, canon, label
        if want == "refused" and run.mode == "direct" and got[1] != "ExecutionError" and strict_form(op):
            return ("refusal:%s-%s-raises-%s-instead-of-refusing-with-an-execution-error" % (op_kind(op), op_form(op), got[1]),
                    {"op": op, "got": got}), step, before, canon, label
        if want == "refused" and canon != before and (op[0] == "x" or in_range(op)) and addressed_slot_only(op, before, canon):
            sig = "invalid-value:refused-but-addressed-slot-changed:%s" % op_form(op, run.domain) if op[0] == "x" \
                else "array-element-in-1-to-16:refused-but-addressed-slot-changed"
            return (sig, {"op": op, "answer": got, "changed": what_changed(before, canon),
                          "before": before, "after": canon}), step, before, canon, label
        if want == "refused" and canon != before:
            return ("refusal:state-changed-by-refused-%s-%s" % (op_kind(op), op_form(op, run.domain)),
                    {"op": op, "answer": got, "changed": what_changed(before, canon),
                     "before": before, "after": canon}), step, before, canon, label
        bad = compare(view, run.ref, op, part)
        if bad is None and length != 16:
            bad = ("array:length-not-16", {"got": length})
        if bad is not None:
            if part == "min":
                bad = diagnose_min(cfg, hist[:step + 1], view, bad)
            return bad, step, before, canon, label
    if run.mode == "wire":
        last = hist[-1] if hist else None
        k = None
        if last is not None and last[0] in ("w", "r"):
            k = 16 if last[1] is None else last[1]
            if not (1 <= k <= 16):
                k = 16
        wview, extra = run.view_wire(k)
        step = len(hist) - 1
        if wview != view:
            what = [n for n, a, b in (("slots", wview[0], view[0]), ("pv", wview[1], view[1]), ("rd", wview[2], view[2])) if a != b]
            return ("wire-view:%s-read-over-the-wire-differs-from-object" % "+".join(what),
                    {"wire": wview, "object": view}), step, before, canon, label
        if extra["length"] != 16:
            return ("wire-view:array-length-not-16", {"got": extra["length"]}), step, before, canon, label
        if "element" in extra and extra["element"][1] != view[0][extra["element"][0] - 1]:
            return ("wire-view:indexed-element-differs-from-whole-array", {"element": extra["element"], "slots": view[0]}), \
                step, before, canon, label
        if run.pair.wire.errors:
            return ("wire:exception-while-delivering", {"errors": run.pair.wire.errors[:3]}), step, before, canon, label
    return None, None, before, canon, label


def addressed_slot_only(op, before, after):
    """the two canonical states differ in the slot the operation addresses and in nothing else"""
    k = op[1] if op[1] is not None else 16
    (bs, bpv, brd), (as_, apv, ard) = before[0], after[0]
    if not (isinstance(bs, tuple) and isinstance(as_, tuple) and len(bs) == len(as_) == 16 and 1 <= k <= 16):
        return False
    return bs[k - 1] != as_[k - 1] and all(bs[i] == as_[i] for i in range(16) if i != k - 1) \
        and (bpv, brd) == (apv, ard) and tuple(before[1:]) == tuple(after[1:])


def what_changed(before, after):
    """human-readable difference of two canonical states (failing cases only)"""
    out = []
    (bs, bpv, brd), (as_, apv, ard) = before[0], after[0]
    if isinstance(bs, tuple) and isinstance(as_, tuple) and len(bs) == len(as_) == 16:
        out += ["slot %d: %r -> %r" % (i + 1, bs[i], as_[i]) for i in range(16) if bs[i] != as_[i]]
    elif bs != as_:
        out.append("slots: %r -> %r" % (bs, as_))
    if bpv != apv:
        out.append("present value: %r -> %r" % (bpv, apv))
    if brd != ard:
        out.append("relinquish default: %r -> %r" % (brd, ard))
    for i, n in ((1, "pending min on/off timer"), (2, "other properties"), (3, "harness account (subscription / array replaced)"),
                 (4, "live subscriptions")):
        if i < len(before) and before[i] != after[i]:
            out.append("%s: %r -> %r" % (n, before[i], after[i]))
    return out


def diagnose_min(cfg, hist, view, bad):
    """Root cause of a minimum on/off mismatch: does the implementation follow, at EVERY step of this history, the
    reference with the two times exchanged?  (re-executes the history with full observation; failing cases only)"""
    part, name, mode, prios, mon, moff = cfg
    if (mon or 0) == (moff or 0):
        return bad
    dom = cmdref.DOMAINS[CLASS_INFO[name][1]]
    alt = cmdref.CmdRef(dom["default"], min_on=moff or 0, min_off=mon or 0)
    run = Run(cfg)
    for op in hist:
        try:
            if op[0] == "w":
                alt.command(dom["values"][op[2]], priority=op[1])
            elif op[0] == "r":
                alt.command(NULL, priority=op[1])
            elif op[0] == "adv":
                alt.advance(1)
        except cmdref.Refused:
            pass
        run.apply_real(op)
        if run.view_direct()[0] != alt.snapshot():
            return bad
    return ("minonoff:on-off-times-swapped", {"first": bad[0], "detail": bad[1], "min_on": mon, "min_off": moff,
                                               "note": "at every step of this history the object behaves exactly like the "
                                                       "reference with minimum on and minimum off time exchanged"})


# ------------------------------------------------------------------------------------ BFS (parts cmd, min)

def note_swallowed(acc):
    for (name, msg) in vclock.swallowed:
        acc.swallowed["%s: %s" % (name, re.sub(r" at 0x[0-9a-f]+", "", msg)[:90])] += 1


def expand(item, deadline):
    """item: list of (cfg, hist, hash of the state hist leads to).  Every operation of the alphabet from every given state."""
    acc = Acc()
    nxt = []
    for (cfg, hist, parent) in item:
        if time.time() > deadline:
            acc.cap("deadline inside frontier expansion (%s)" % cfg[0])
            break
        ops = alphabet(cfg)
        for op in ops:
            if op[0] == "x":
                continue
            h2 = hist + (op,)
            bad, step, before, canon, label = execute(cfg, h2, check_from=len(h2) - 1)
            note_swallowed(acc)
            if bad is not None and step == -1:
                acc.fail("init:fresh-object-not-in-initial-state", {"configuration": cfg_label(cfg), "mismatch": bad},
                         {"cfg": cfg, "hist": h2})
                continue
            if h64((cfg, before)) != parent:
                raise HarnessError("C17: replaying %r %r does not lead to the state it led to when first explored"
                                   % (cfg, hist))
            acc.transitions += 1
            acc.traces += 1
            acc.case((cfg, h64(before), op))
            acc.outcome("%s:%s" % (cfg[2], label))
            if op[0] == "cov" or (op[0] == "adv" and cfg[2].startswith("wire+cov")):
                acc.add_info("subscription events %s" % label, 1)
            if bad is not None:
                acc.fail(bad[0], {"configuration": cfg_label(cfg), "history": h2, "mismatch": bad[1]},
                         {"cfg": cfg, "hist": h2})
                continue
            nxt.append((cfg, h64((cfg, canon)), h2))
        # the invalid-value writes of this state, one after the other in ONE execution: each is checked on its own
        # (refused, canonical state as before it), and since a passing one leaves the state where it was, the next
        # starts from the same state -- the history `hist + (x1, .., xk)` is one of the space.  A failing one ends
        # the execution; the rest is run from the state again.
        rest = tuple(op for op in ops if op[0] == "x")
        while rest:
            labels = []
            h2 = hist + rest
            bad, step, before, canon, label = execute(cfg, h2, check_from=len(hist), labels=labels)
            note_swallowed(acc)
            if bad is not None and step == -1:
                acc.fail("init:fresh-object-not-in-initial-state", {"configuration": cfg_label(cfg), "mismatch": bad},
                         {"cfg": cfg, "hist": h2})
                break
            if h64((cfg, before)) != parent:
                raise HarnessError("C17: replaying %r %r does not lead to the state it led to when first explored"
                                   % (cfg, hist))
            done = len(rest) if bad is None else step - len(hist) + 1
            acc.traces += 1
            for i in range(done):
                acc.transitions += 1
                acc.case((cfg, h64(before), rest[i]))
                acc.outcome("%s:%s" % (cfg[2], labels[i]))
            if bad is not None:
                acc.fail(bad[0], {"configuration": cfg_label(cfg), "history": h2[:step + 1], "mismatch": bad[1]},
                         {"cfg": cfg, "hist": h2[:step + 1]})
            rest = rest[done:]
    acc.info["next"] = nxt
    return acc


def bfs(acc, cfgs, depth_cap, deadline, label):
    started = time.time()
    seen = {}
    frontier = []
    live = []
    for cfg in cfgs:
        try:
            bad, step, before, canon, lab = execute(cfg, ())
        except ConstructError as err:
            part, name, mode, prios, mon, moff = cfg
            acc.evaluations += 1
            acc.outcome("construct:raises")
            acc.fail("construct:%s-commandable-class-cannot-be-instantiated:%s" % (CLASS_INFO[name][1], str(err).split(":")[0]),
                     {"configuration": cfg_label(cfg), "error": str(err)}, {"cfg": cfg, "hist": ()})
            continue
        acc.evaluations += 1
        if bad is not None:
            acc.fail(bad[0], {"configuration": cfg_label(cfg), "history": (), "mismatch": bad[1]}, {"cfg": cfg, "hist": ()})
            continue
        seen[cfg] = {h64((cfg, canon))}
        frontier.append((cfg, (), h64((cfg, canon))))
        live.append(cfg)
    depth_of = dict((cfg, 0) for cfg in live)
    truncated = False
    for d in range(1, depth_cap + 1):
        if not frontier:
            break
        size = max(1, min(12, len(frontier) // 64 + 1))
        shards = [frontier[i:i + size] for i in range(0, len(frontier), size)]
        sub = run_shards(expand, shards, deadline, ordered=True)
        nxt = sub.info.pop("next", [])
        capped = bool(sub.caps)
        acc.merge(sub)
        nxt.sort(key=lambda t: (repr(t[0]), len(t[2]), repr(t[2])))
        frontier = []
        for cfg, k, h2 in nxt:
            if k not in seen[cfg]:
                seen[cfg].add(k)
                frontier.append((cfg, h2, k))
                depth_of[cfg] = d
        acc.max_depth = max(acc.max_depth, d)
        if capped or time.time() > deadline:
            acc.cap("%s: deadline at depth %d" % (label, d))
            truncated = True
            break
    open_cfgs = set(f[0] for f in frontier)
    for cfg in live:
        for k in seen[cfg]:
            acc.states.add(k)
        acc.add_info("%s states" % label, len(seen[cfg]))
        acc.info["%s %s" % (label, cfg_label(cfg))] = "states=%d depth=%d %s" % (
            len(seen[cfg]), depth_of[cfg], "open" if (cfg in open_cfgs or truncated) else "closed")
    closed = (not frontier) and not truncated
    acc.info["%s wall_s" % label] = round(time.time() - started, 1)
    acc.info["%s closed" % label] = closed
    acc.closed = closed if acc.closed is None else (acc.closed and closed)
    if frontier:
        acc.info["%s frontier left at depth cap %d" % (label, depth_cap)] = len(frontier)
    return closed


# ------------------------------------------------------------------------------------ part pairs (E3)

def pair_histories(name):
    nvals = len(cmdref.DOMAINS[CLASS_INFO[name][1]]["values"])
    vps = [(0, 1), (nvals - 1, 0)]
    for p in range(1, 17):
        for q in range(1, 17):
            for (a, b) in vps:
                if p == q:
                    yield (("w", p, a), ("w", p, b), ("r", p), ("r", p))
                else:
                    yield (("w", p, a), ("w", q, b), ("r", p), ("r", q))
    up = tuple(("w", p, p % nvals) for p in range(1, 17))
    down = tuple(("w", p, (p + 1) % nvals) for p in range(16, 0, -1))
    yield up + tuple(("r", p) for p in range(16, 0, -1))
    yield down + tuple(("r", p) for p in range(1, 17))
    yield up + tuple(("r", p) for p in range(1, 17))


def pairs_shard(item, deadline):
    acc = Acc()
    for (cfg, hist) in item:
        if time.time() > deadline:
            acc.cap("deadline inside the pairs part")
            break
        try:
            bad, step, before, canon, label = execute(cfg, hist)
        except ConstructError:
            continue            # reported once by the cmd part
        note_swallowed(acc)
        acc.traces += 1
        acc.transitions += len(hist)
        acc.case((cfg, hist))
        acc.state((cfg[1], canon))
        acc.outcome("pairs:%s:%s" % (cfg[2], "ok" if bad is None else bad[0]))
        if bad is not None:
            acc.fail(bad[0], {"configuration": cfg_label(cfg), "history": hist[:(step or 0) + 1], "mismatch": bad[1]},
                     {"cfg": cfg, "hist": hist})
    return acc


def part_pairs(acc, names_modes, deadline):
    items = []
    for (name, mode) in names_modes:
        cfg = ("pairs", name, mode, (), None, None)
        for hist in pair_histories(name):
            items.append((cfg, hist))
    size = 24
    shards = [items[i:i + size] for i in range(0, len(items), size)]
    run_shards(pairs_shard, shards, deadline, into=acc, ordered=True)
    acc.info["pairs histories"] = len(items)


# ------------------------------------------------------------------------------------ entry points

def run(tier, seed, deadline):
    acc = Acc()
    vclock.install()
    names = [n for (n, c, d) in cmdref.CLASSES]

    # determinism self-check: the same history twice gives the same observation
    probe = (("w", 8, 0), ("w", None, 1), ("r", 8), ("w", 17, 0), ("a", 0, "len"), ("w", 1, 1))
    for mode in ("direct", "wire"):
        cfg = ("cmd", "AnalogValueCmdObject", mode, PRIOS_STD, None, None)
        a = execute(cfg, probe)
        b = execute(cfg, probe)
        if repr(a) != repr(b):
            # a freshly constructed object that is not in the initial state (it carries what an earlier object of
            # its class was commanded) is the library's doing, not the harness': that is a finding, not a harness error
            stale = [x for x in (a, b) if x[0] is not None and x[1] == -1]
            if stale:
                acc.fail("init:fresh-object-not-in-initial-state", {"configuration": cfg_label(cfg), "mismatch": stale[0][0],
                                                                     "note": "second object of the class, built after the first was commanded"},
                         {"cfg": cfg, "hist": probe, "twice": True})
                return acc
            raise HarnessError("C17 replay of one history diverged (%s): %r vs %r" % (mode, a, b))
    mprobe = (("w", 8, 0), ("adv",), ("w", 1, 1), ("adv",), ("adv",), ("r", 1), ("adv",))
    cfg = ("min", "BinaryOutputCmdObject", "direct", PRIOS_MIN, 2, 2)
    if repr(execute(cfg, mprobe)) != repr(execute(cfg, mprobe)):
        raise HarnessError("C17 replay of one minimum on/off history diverged")
    cprobe = (("cov", "sub", 2, False), ("w", 8, 0), ("adv",), ("x", 1, 0), ("adv",), ("r", 8), ("cov", "sub", 0, True),
              ("w", None, 0), ("cov", "cancel"), ("adv",), ("adv",), ("adv",), ("r", None))
    cfg = ("min", "BinaryValueCmdObject", "wire+cov*", PRIOS_MIN, 2, 3)
    a = execute(cfg, cprobe)
    if repr(a) != repr(execute(cfg, cprobe)):
        raise HarnessError("C17 replay of one history with subscription events diverged")
    if a[0] is None and (a[3][3], a[3][4]) != ("ended", 0):
        raise HarnessError("C17: subscription bookkeeping of the harness is off: %r" % (a[3][3:],))

    t0 = time.time()
    span = deadline - t0
    binaries = ("BinaryOutputCmdObject", "BinaryValueCmdObject")
    times = [(a, b) for a in (0, 2, 3) for b in (0, 2, 3)]

    if tier == "quick":
        cmd_cfgs = [("cmd", n, "direct", PRIOS_STD, None, None) for n in names]
        cmd_cfgs += [("cmd", n, "wire", PRIOS_STD, None, None) for n in QUICK_WIRE]
        cmd_cfgs += [("cmd", n, "direct+pa", PRIOS_COV, None, None) for n in names]
        min_cfgs = [("min", n, "direct", PRIOS_MIN, a, b) for n in binaries for (a, b) in times]
        cov_cfgs = [("min", n, "wire+cov", PRIOS_COV, a, b) for (n, a, b) in (("BinaryOutputCmdObject", 2, 3), ("BinaryOutputCmdObject", 0, 2),
                                     ("BinaryValueCmdObject", 2, 3), ("BinaryValueCmdObject", 3, 0))]
        pair_modes = [(n, "direct") for n in names]
        bfs(acc, min_cfgs, 9, t0 + 0.15 * span, "min")
        bfs(acc, cov_cfgs, 12, t0 + 0.35 * span, "min-cov")
        part_pairs(acc, pair_modes, t0 + 0.45 * span)
        bfs(acc, cmd_cfgs, 6, deadline, "cmd")
    else:
        min_cfgs = [("min", n, m, PRIOS_MIN, a, b) for n in binaries for m in ("direct", "wire") for (a, b) in times]
        bfs(acc, min_cfgs, 14, t0 + 0.12 * span, "min")
        cov_cfgs = [("min", n, "wire+cov*", PRIOS_COV, a, b) for n in binaries for (a, b) in times]
        bfs(acc, cov_cfgs, 16, t0 + 0.30 * span, "min-cov")
        pair_modes = [(n, m) for n in names for m in ("direct", "wire")]
        part_pairs(acc, pair_modes, t0 + 0.36 * span)
        std = [("cmd", n, "wire", PRIOS_STD, None, None) for n in names]
        std += [("cmd", n, "wire+cov*", PRIOS_MIN, None, None)
                for n in ("BinaryValueCmdObject", "MultiStateValueCmdObject", "DateValueCmdObject")]
        bfs(acc, std, 8, t0 + 0.60 * span, "cmd")
        ext = [("cmd", n, "direct", PRIOS_EXT, None, None) for n in names]
        ext += [("cmd", n, "wire", PRIOS_EXT, None, None) for n in ("AnalogValueCmdObject", "BinaryOutputCmdObject")]
        ext += [("cmd", n, "direct+pa", PRIOS_MIN, None, None) for n in names]
        bfs(acc, ext, 7, deadline, "cmd-ext")

    # written-out samples (seed only rotates which class is shown)
    pick = names[seed % len(names)]
    for mode in ("direct", "wire"):
        cfg = ("cmd", pick, mode, PRIOS_STD, None, None)
        hist = (("w", 8, 0), ("w", None, 1), ("w", 1, 2 % len(cmdref.DOMAINS[CLASS_INFO[pick][1]]["values"])), ("r", 1), ("r", 8), ("w", 17, 0))
        try:
            bad, step, before, canon, label = execute(cfg, hist)
            acc.sample({"configuration": cfg_label(cfg), "history": hist, "final (slots, pv, rd)": canon[0], "verdict": bad})
        except ConstructError as err:
            acc.sample({"configuration": cfg_label(cfg), "construction": str(err)})
    return acc


def _tuplify(x):
    if isinstance(x, list):
        return tuple(_tuplify(i) for i in x)
    return x


def replay(case):
    vclock.install()
    cfg = _tuplify(case["cfg"])
    hist = _tuplify(case["hist"])
    try:
        if case.get("twice"):
            execute(cfg, hist)      # the first object of the class is commanded, the second must start clean
        bad, step, before, canon, label = execute(cfg, hist)
    except ConstructError as err:
        return False, "%s: the class cannot be instantiated: %s" % (cfg_label(cfg), err)
    text = "%s history=%r\n" % (cfg_label(cfg), hist)
    if bad is None:
        return True, text + "final (slots, pv, rd) = %r" % (canon[0],)
    return False, text + "fails at step %r (%r): %s\n%r" % (step, hist[step] if step is not None and 0 <= step < len(hist) else None,
                                                          bad[0], bad[1])
