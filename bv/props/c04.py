"""C04 A confirmed request ends in exactly one outcome, in bounded time, no residue.

E1: deviation-bounded exploration of drop / duplicate / reorder / timer-first / late application answer
    over two real application stacks on a controlled LAN.
E2: explicit-state closure under *unbounded* faults for small configurations.
"""
import time

import bv  # noqa: F401
from bv.engine import vclock, explorer
from bv.engine.acc import Acc, h64
from bv.engine.bfs import bfs
from bv.engine.pool import run_shards, HarnessError
from bv.stacks import apporacle as O
from bv.stacks.appsys import Cfg, AppSystem, run_execution, frame_label

PROPERTY = "C04"
LEVEL = "model_checking"
BUDGET = {"quick": 95.0, "thorough": 1500.0}
RULE = ("E1: for every configuration of the list (segmentation support, payload sizes around the segmentation boundary, "
        "windows, retries, answer mode, plain/IOCB submission) every execution with at most d deviations from the default "
        "environment (drop oldest frame, duplicate it, deliver a younger frame first, fire the earliest timer while frames are "
        "in flight, server application answers early/late) is run to quiescence on fresh real stacks; E2: breadth-first closure "
        "over all such environment moves without deviation bound for small configurations, states deduplicated on a canonical "
        "snapshot of both stacks, in-flight frames and timers.  A case is distinct by (configuration, choice sequence).")
ASSUMPTIONS = [
    "single thread; virtual clock bound to bacpypes.task._time; the vlan delivers only what the explorer releases",
    "duplicates are capped at one copy per frame and reordering at the two oldest frames (E2: to keep the pool finite)",
    "faults beyond the deviation bound are covered only where the E2 closure completed",
    "the client has no DeviceInfo record of the server (the I-Am path is judged under C12)",
]
BOUNDS = {
    "quick": "E1 d<=2 on unsegmented and 3-segment transfers, d<=1 elsewhere; E2 closure for configurations below ~2500 states",
    "thorough": "E1 d<=3 on unsegmented/3-segment, d<=2 elsewhere; E2 adds both-sides-segmented and duplicate/reorder moves",
}

SEG = 50
OVERHEAD = 9


def rq(k, seg=SEG):
    """request payload length that yields exactly k full segments (6-octet segment header)"""
    from bv.props.c05 import rq as _rq
    return _rq(k, seg)


def rs(k, seg=SEG):
    """response payload length that yields exactly k full segments (5-octet segment header)"""
    from bv.props.c05 import rs as _rs
    return _rs(k, seg)


def configs(tier):
    out = []
    d_small = 3 if tier == "quick" else 4
    d_big = 2 if tier == "quick" else 3

    def add(bound, **kw):
        out.append((Cfg(**kw), bound))

    # unsegmented, retries 0..3, plain and IOCB with a second queued request
    for r in (0, 1, 2, 3):
        add(d_small if r <= 1 or tier != "quick" else 2, c={"retries": r}, s={"retries": r}, reqs=[(0, 0)], label="unseg-r%d" % r)
    add(d_small, c={"retries": 1}, reqs=[(0, 0), (5, 5)], via="iocb", label="iocb-2queued")
    add(d_big, c={"retries": 1}, reqs=[(0, rs(3)), (0, 0)], via="iocb", label="iocb-segresp-then-unseg")
    # the application submits the next request to the same peer from inside the completion callback
    add(d_big, c={"retries": 1}, reqs=[(0, 0), (3, 3), (0, 0)], via="iocb-chain", label="iocb-chain-3")
    add(d_big, c={"retries": 0}, reqs=[(0, rs(2)), (rq(2), 0)], via="iocb-chain", label="iocb-chain-seg")
    # the client application also talks to the same peer with an unconfirmed request of its own, at any point
    add(d_small, c={"retries": 1}, reqs=[(0, 0), (5, 5)], via="iocb", sidetalk=True, label="iocb-2queued-sidetalk")
    add(d_big, c={"retries": 0}, reqs=[(0, rs(2))], via="iocb", answer="hold", sidetalk=True, label="iocb-hold-sidetalk")
    add(d_small, c={"retries": 1}, reqs=[(0, 0)], sidetalk=True, label="plain-sidetalk")
    # the peer is unknown when the request is submitted and announces itself while the request is under way
    add(d_small, c={"retries": 1}, reqs=[(0, 0)], reannounce={"maxapdu": 50}, label="unknown-peer-announces-midway")
    add(d_small, c={"retries": 1}, reqs=[(0, 0), (5, 5)], via="iocb", reannounce={"maxapdu": 50}, label="iocb-unknown-peer-announces-midway")
    add(d_big, c={"retries": 1}, reqs=[(rq(2), rs(2))], reannounce={"maxapdu": 50}, label="seg-unknown-peer-announces-midway")
    # the peer is known (its record is held by the transaction) and announces itself again while the request is under way
    add(d_small, c={"retries": 1}, reqs=[(0, 0)], peerinfo="iam", reannounce={"maxapdu": 50}, label="known-peer-announces-again-midway")
    add(d_small, c={"retries": 1}, reqs=[(0, 0), (5, 5)], via="iocb", peerinfo="record", reannounce={"maxapdu": 50},
        label="iocb-known-peer-announces-again-midway")
    # two requests outstanding at once in a process that has a far-away timer of its own
    add(d_small, c={"retries": 1}, reqs=[(0, 0), (0, 0)], background=True, label="2-concurrent-with-background-timer")
    add(d_big, c={"retries": 1}, reqs=[(0, rs(2)), (0, 0)], background=True, answer="hold", label="2-concurrent-hold-with-background-timer")
    # on both sides of the boundary
    for (a, b) in ((rq(1), rs(1)), (rq(1) + 1, 0), (0, rs(1) + 1)):
        add(d_big, reqs=[(a, b)], label="boundary")
    # 3-segment transfers
    add(d_small, reqs=[(0, rs(3))], label="segresp3")
    add(d_small, reqs=[(rq(3), 0)], label="segreq3")
    add(d_big, reqs=[(rq(3), rs(3))], label="both3")
    add(d_big, reqs=[(rq(2) + 1, rs(2) + 1)], label="both-2seg+1")
    # windows
    wins = (1, 2, 3, 8) if tier != "quick" else (1, 3, 8)
    for wc in wins:
        for ws in wins:
            if tier == "quick" and wc != ws and (wc, ws) not in ((1, 8), (8, 1)):
                continue
            add(d_big, c={"window": wc}, s={"window": ws}, reqs=[(rq(4), rs(5))], label="win%d/%d" % (wc, ws))
    # segmentation support 4 x 4
    segs = ("segmentedBoth", "segmentedTransmit", "segmentedReceive", "noSegmentation")
    for sc in segs:
        for ss in segs:
            for reqs in ([(rq(2), 0)], [(0, rs(2))]):
                add(d_big, c={"seg": sc}, s={"seg": ss}, reqs=reqs, label="segsup")
    # the same through the IOCB queue, with a small request queued behind (outcomes produced synchronously inside the
    # submission - local aborts - must reach the IOCB and free the queue), peer known from a record or unknown
    for sc in segs:
        for ss in segs:
            for peerinfo in (False, "record"):
                add(1, c={"seg": sc}, s={"seg": ss}, reqs=[(rq(2), 0), (0, 0)], via="iocb", peerinfo=peerinfo, label="segsup-iocb")
    # a request that is refused locally (synchronously, when its turn comes) with two more queued behind it
    for sc in ("noSegmentation", "segmentedReceive"):
        add(1, c={"seg": sc}, reqs=[(0, 0), (rq(2), 0), (0, 0), (5, 5)], via="iocb", label="iocb-sync-abort-in-the-middle")
        add(1, c={"seg": sc}, reqs=[(rq(2), 0), (0, 0), (5, 5)], via="iocb", label="iocb-sync-abort-first")
    # answer modes and other reply kinds
    add(d_small, reqs=[(0, 0)], answer="hold", label="hold")
    add(d_big, reqs=[(0, rs(3))], answer="hold", label="hold-segresp")
    add(d_big, reqs=[(rq(3), 0)], answer="never", label="never")
    add(d_small, reqs=[(0, 0)], answer="never", label="never-unseg")
    for kind in ("error", "reject", "abort"):
        add(d_small, reqs=[(0, 0)], resp_kind=kind, label=kind)
        add(d_big, reqs=[(rq(3), 0)], resp_kind=kind, label=kind + "-segreq")
    # retries 3 on segmented transfers
    if tier != "quick":
        add(d_big, c={"retries": 3}, s={"retries": 3}, reqs=[(0, rs(3))], label="segresp3-r3")
        add(d_big, c={"retries": 3}, s={"retries": 3}, reqs=[(rq(3), 0)], label="segreq3-r3")
        add(2, c={"maxapdu": 128}, s={"maxapdu": 128}, reqs=[(300, 300)], label="apdu128")
    return out


def closure_configs(tier):
    out = []

    def add(cap, **kw):
        kw.setdefault("dupcap", 0)
        kw.setdefault("reorder", 0)
        out.append((Cfg(**kw), cap))

    for r in (0, 1, 3):
        add(5000, c={"retries": r}, s={"retries": r}, reqs=[(0, 0)], label="closure-unseg-r%d" % r)
    for r in ((0, 1) if tier == "quick" else (0, 1, 3)):
        add(20000, c={"retries": r}, s={"retries": r}, reqs=[(0, rs(3))], label="closure-segresp3-r%d" % r)
    for r in (0, 1):
        add(30000, c={"retries": r}, s={"retries": r}, reqs=[(rq(3), 0)], label="closure-segreq3-r%d" % r)
    add(30000, c={"retries": 1, "window": 3}, s={"retries": 1, "window": 3}, reqs=[(rq(4), 0)], label="closure-segreq4-w3-r1")
    add(20000, c={"retries": 0}, s={"retries": 0}, reqs=[(rq(3), rs(3))], label="closure-both3-r0")
    add(5000, c={"retries": 1}, s={"retries": 1}, reqs=[(0, 0)], answer="hold", label="closure-hold")
    add(5000, c={"retries": 1}, s={"retries": 1}, reqs=[(0, 0)], via="iocb", label="closure-iocb")
    add(8000, c={"retries": 0}, s={"retries": 0}, reqs=[(0, 0), (0, 0)], via="iocb-chain", label="closure-iocb-chain")
    add(8000, c={"retries": 0}, s={"retries": 0}, reqs=[(0, 0), (0, 0)], via="iocb", sidetalk=True, label="closure-iocb-sidetalk")
    if tier != "quick":
        add(60000, c={"retries": 1}, s={"retries": 1}, reqs=[(0, 0)], dupcap=1, reorder=1, label="closure-unseg-dup-reorder")
        add(150000, c={"retries": 1}, s={"retries": 1}, reqs=[(0, rs(2))], dupcap=1, reorder=1, label="closure-segresp2-dup-reorder")
        add(150000, c={"retries": 1}, s={"retries": 1}, reqs=[(rq(3), rs(3))], label="closure-both3-r1")
    return out


# ----------------------------------------------------------------------------- judging

def judge(sysm, terminal=True):
    cfg = sysm.cfg
    problems = []
    got = O.judge_outcomes(sysm, problems) if terminal else {}
    if not terminal:
        # safety part that must hold in every state
        confs = sysm.client.confirmations
        invs = [c[3] for c in confs]
        if len(invs) != len(set(invs)):
            problems.append(("multiple-outcomes:%s" % "+".join(c[1] for c in confs), {"confirmations": [(c[1], c[3]) for c in confs]}))
        got = {sn: [c for c in confs if c[3] == req.apduInvokeID][0] for sn, req in sysm.submitted
               if any(c[3] == req.apduInvokeID for c in confs)}
    O.judge_payloads(sysm, got, problems)
    O.judge_late_frames(sysm, got, problems)
    O.judge_retransmissions(sysm, problems)
    O.judge_stale_timers(sysm, problems)
    nreq = max(O.seg_count(r[0] + OVERHEAD, cfg.c["maxapdu"] - 6) for r in cfg.reqs)
    nresp = max(O.seg_count(r[1] + OVERHEAD, min(cfg.c["maxapdu"], cfg.s["maxapdu"]) - 5) for r in cfg.reqs)
    if terminal:
        O.judge_residue(sysm, problems)
        O.judge_timing(sysm, got, problems, nreq, nresp)
        O.iocb_order(sysm, problems)
    else:
        bound = O.time_bound(cfg, nreq, nresp) * max(1, len(cfg.reqs))
        if len(got) < len(sysm.submitted) and vclock.clock.now > bound:
            problems.append(("no-outcome-within-time-bound", {"t": vclock.clock.now, "bound": bound}))
    return got, problems


def signature(sysm, problem, points=None):
    kinds = O.swallowed_kinds(sysm)
    sig = "txn:%s" % problem
    if kinds:
        sig += "|swallowed=" + ";".join(kinds)[:160]
    return sig


# ----------------------------------------------------------------------------- E1

def e1_plan(item, deadline):
    """Run the default execution of one configuration, judge it, return the first-level prefixes."""
    cfg_json, bound = item
    cfg = Cfg.from_json(cfg_json)
    acc = Acc()
    sysm, points = run_execution(cfg, ())
    # determinism: run it again and compare the full observation
    sysm2, points2 = run_execution(cfg, ())
    if observation(sysm) != observation(sysm2) or points != points2:
        raise HarnessError("default execution of %r is not reproducible" % (cfg.describe(),))
    sysm, points = run_execution(cfg, ())
    _record(acc, cfg, cfg_json, sysm, points, ())
    kids = explorer.children(points, 0, bound)
    acc.info["kids"] = [(cfg_json, bound, list(k)) for k in kids]
    return acc


def observation(sysm):
    return (sysm.client.confirmations, sysm.server.indications, [(e[0], e[1]) + tuple(e[2:]) for e in sysm.events],
            sysm.wire.log, sysm.trace, vclock.clock.now)


def _record(acc, cfg, cfg_json, sysm, points, prefix):
    got, problems = judge(sysm)
    choices = [idx for (m, idx) in points]
    acc.case(("e1", cfg.key(), tuple(choices)))
    acc.traces += 1
    acc.transitions += len(points)
    acc.max_depth = max(acc.max_depth, len(points))
    label = ",".join("%s" % (got[sn][1] if sn in got else "none") for sn, _ in sysm.submitted)
    acc.outcome("%s" % label)
    for name, msg in sysm.swallowed():
        acc.swallowed["%s: %s" % (name, msg[:80])] += 1
    for prob, detail in problems:
        acc.fail(signature(sysm, prob), {"problem": prob, "detail": detail, "cfg": cfg.describe(),
                                         "schedule": explorer.labels(points), "outcomes": label},
                 {"kind": "e1", "cfg": cfg_json, "choices": choices})
    return got, problems


def e1_subtree(item, deadline):
    cfg_json, bound, root = item
    cfg = Cfg.from_json(cfg_json)
    acc = Acc()

    def run(prefix):
        return run_execution(cfg, prefix, want_states=acc.states)

    def on_exec(sysm, points, prefix):
        _record(acc, cfg, cfg_json, sysm, points, prefix)

    n, capped = explorer.explore(run, bound, on_exec, deadline, roots=(tuple(root),))
    if capped:
        acc.cap("E1: deadline inside the subtree of a first-level deviation (%s)" % (cfg.label,))
    return acc


# ----------------------------------------------------------------------------- E2

def e2_expand(item, deadline):
    cfg_json, hists = item
    cfg = Cfg.from_json(cfg_json)
    acc = Acc()
    nxt = []
    for hist in hists:
        if time.time() > deadline:
            acc.cap("E2: deadline inside frontier expansion (%s)" % cfg.label)
            break
        # menu of this state
        sysm = _replay(cfg, hist)
        parent_hash = h64(sysm.canon_state())
        m = sysm.menu()
        if not m:
            continue
        for k in range(len(m)):
            s2 = _replay(cfg, hist)
            s2.apply(s2.menu()[k][0])
            acc.transitions += 1
            acc.evaluations += 1
            terminal = not s2.menu()
            if len(hist) + 1 > 300:
                s2.horizon_hit = True
                terminal = True
            got, problems = judge(s2, terminal=terminal)
            if terminal:
                acc.traces += 1
                acc.outcome(",".join("%s" % (got[sn][1] if sn in got else "none") for sn, _ in s2.submitted))
            for prob, detail in problems:
                acc.fail(signature(s2, prob), {"problem": prob, "detail": detail, "cfg": cfg.describe(), "schedule": s2.trace},
                         {"kind": "e2", "cfg": cfg_json, "labels": list(s2.trace)})
            if not terminal and not problems:
                cs = s2.canon_state()
                nxt.append((h64(cs), hist + (k,), h64(cs[:-1]), parent_hash))
            elif terminal:
                acc.state(h64(("terminal", s2.canon_state())))
    acc.info["next"] = nxt
    return acc


def _replay(cfg, hist):
    sysm = AppSystem(cfg)
    sysm.start()
    for k in hist:
        m = sysm.menu()
        if k >= len(m):
            raise HarnessError("E2 replay diverged: choice %d not in menu %r" % (k, m))
        sysm.apply(m[k][0])
    return sysm


# ----------------------------------------------------------------------------- entry points

def run(tier, seed, deadline):
    vclock.install()
    acc = Acc()
    t0 = time.time()
    e1_deadline = t0 + (deadline - t0) * 0.6
    cfgs = configs(tier)
    plan = run_shards(e1_plan, [(c.to_json(), b) for (c, b) in cfgs], e1_deadline)
    kids = plan.info.pop("kids", [])
    acc.merge(plan)
    acc.info["E1 configurations"] = len(cfgs)
    acc.info["E1 first-level deviations"] = len(kids)
    # biggest bounds first so the long subtrees start early
    kids.sort(key=lambda k: -k[1])
    run_shards(e1_subtree, kids, e1_deadline, into=acc)
    acc.info["E1 executions"] = acc.traces
    s0 = run_execution(cfgs[9][0], ())[0] if len(cfgs) > 9 else None
    if s0 is not None:
        acc.sample({"cfg": cfgs[9][0].describe(), "default_schedule": s0.trace, "wire": [frame_label(f[4]) for f in s0.wire.log]})
    # E2
    for cfg, cap in closure_configs(tier):
        if time.time() > deadline:
            acc.cap("E2: deadline before closure of %s" % cfg.label)
            break
        sysm = AppSystem(cfg)
        sysm.start()
        h0 = h64(sysm.canon_state())
        cj = cfg.to_json()

        def on_lasso(hist, steps, cj=cj, cfg=cfg):
            s2 = _replay(cfg, hist)
            return ("txn:execution-can-repeat-for-ever:no-time-bound",
                    {"problem": "the stack returns to a state it was in %d events earlier (absolute time aside): the same faults "
                                "can be repeated without end" % steps, "cfg": cfg.describe(), "schedule": s2.trace,
                     "t": vclock.clock.now},
                    {"kind": "e2", "cfg": cj, "labels": list(s2.trace), "lasso": steps})

        bfs(e2_expand, cj, (), h0, 400, deadline, acc, max_states=cap, label="E2 %s" % cfg.label, on_lasso=on_lasso)
    acc.info.pop("kids", None)
    return acc


def replay(case):
    vclock.install()
    cfg = Cfg.from_json(case["cfg"])
    if case["kind"] == "e1":
        sysm, points = run_execution(cfg, tuple(case["choices"]))
    else:
        sysm = AppSystem(cfg)
        sysm.start()
        for lab in case["labels"]:
            sysm.apply(lab)
    got, problems = judge(sysm, terminal=not sysm.menu())
    if case.get("lasso"):
        # re-derive: the timeless canonical state at the end equals the one `lasso` events earlier
        s1 = AppSystem(cfg)
        s1.start()
        for lab in case["labels"][:-case["lasso"]]:
            s1.apply(lab)
        early = h64(s1.canon_state()[:-1])
        s2 = AppSystem(cfg)
        s2.start()
        for lab in case["labels"]:
            s2.apply(lab)
        if early == h64(s2.canon_state()[:-1]):
            problems = problems + [("execution-can-repeat-for-ever", {"events": case["lasso"]})]
        sysm = s2
    text = "cfg=%r\nschedule=%r\noutcomes=%r\nwire=%r\nswallowed=%r\nproblems=%r" % (
        cfg.describe(), sysm.trace, [(c[1], c[3]) for c in sysm.client.confirmations],
        [frame_label(f[4]) for f in sysm.wire.log], O.swallowed_kinds(sysm), problems)
    return not problems, text
