"""C07 APDU fixed headers carry every field of all eight PDU types faithfully.

E3, four parts, all exhaustive inside the stated alphabets:

  hdr    per PDU type the cross product of every flag bit, both code fields and an octet alphabet for every
         octet field, times three payloads; plus a "star" sweep of all 256 values of every octet field.
         Each case is encoded and decoded through three paths of the library (APCI alone, the generic APDU,
         the typed *PDU class over the generic APDU, which is the way the stack does it) and compared with
         bv.refs.apciref (clause 20.1.2 - 20.1.9 written out by hand).
  trunc  every one of those headers cut at every position: DecodingError, nothing else.
  rsvd   every one of those headers with each reserved bit set: DecodingError or a header with fields in their domains.
  tot    every octet string of length 0..2 (and of length 3, see BOUNDS): header or DecodingError.
  tab    the four code-table functions over all code points and all capabilities 0..2000.
"""
import itertools
import time

import bv  # noqa: F401
from bacpypes import apdu as bp
from bacpypes.errors import DecodingError
from bacpypes.pdu import PDU
from bv.engine.acc import Acc
from bv.engine.pool import run_shards, HarnessError
from bv.refs import apciref as ref

PROPERTY = "C07"
LEVEL = "exploration"
BUDGET = {"quick": 55.0, "thorough": 840.0}
RULE = ("hdr: one case = (PDU type, every header field value, payload); enumerated as the full cross product per type of "
        "all flag bits x maxSegs 0..7 x maxResp 0..15 x the octet alphabet for each of invoke ID / sequence number / window "
        "size / service choice / reason x 3 payloads (unsegmented cases additionally with stray sequence/window values that "
        "must not be emitted), plus for every octet field all 256 values on two backgrounds; a case is distinct by that tuple "
        "(perfect packing, the three library paths it is pushed through are not counted separately).  trunc/tot: one case = "
        "one octet string, distinct by its octets (length-3 strings are counted per (octet0, octet1) only, the third octet "
        "is swept under that key).  tab: one case = (function, argument).  stale/reuse: every ordered pair of the stale "
        "headers (every type x flag combination): decoded one after the other into one object and re-encoded; one object "
        "given the first header's fields, encoded, given the second's, encoded again; two typed PDUs encoded one after the "
        "other into one staging APDU (the second also with its off flags left unset) - the last header emitted must be "
        "the second's.")
ASSUMPTIONS = [
    "octet fields are covered at the stated alphabet in cross product and at all 256 values one field at a time; a defect "
    "that needs two specific interior values in two fields at once is outside the bound",
    "for SimpleAck, SegmentAck, Reject and Abort (no content after the header in the standard) a non-empty payload is "
    "judged leniently: header octets and decoded fields must be exact, the trailing octets may be kept unchanged, dropped "
    "or refused with DecodingError, never altered",
    "octet strings with reserved bits set are only required to give DecodingError or a header whose fields lie inside "
    "their clause-20.1 domains (the standard binds senders, not receivers); whether a reserved bit changes a field is "
    "recorded as an outcome, not judged",
    "decode_max_segments_accepted(7) ('greater than 64') may be None or any number above 64; reserved max-APDU codes "
    "6..15 may raise or give None",
    "the context= shortcut of the typed constructors, addresses and network priority are not part of this property",
    "octet strings longer than 3 are covered only as encodings of the enumerated headers and their truncations",
]
BOUNDS = {
    "quick": "octet alphabet {0,128,255}; payloads of 0, 1, 300 octets; star sweep 0..255 per octet field; every header "
             "cut at every position and with each reserved bit set; all octet strings of length 0..2 and length 3 with "
             "third octet in the alphabet; tables: codes 0..7 / 0..15, capabilities None, 0..2000, 65535, 10**6, 2**31",
    "thorough": "octet alphabet {0,1,2,127,128,254,255}; payloads of 0, 1, 300 octets; star sweep 0..255 per octet field; "
                "every header cut at every position and with each reserved bit set; all octet strings of length 0..3; "
                "tables as quick",
}

NAMES = ref.TYPE_NAMES
ATTR = (("seg", "apduSeg"), ("mor", "apduMor"), ("sa", "apduSA"), ("maxsegs", "apduMaxSegs"), ("maxresp", "apduMaxResp"),
        ("invoke", "apduInvokeID"), ("seq", "apduSeq"), ("win", "apduWin"), ("service", "apduService"),
        ("nak", "apduNak"), ("srv", "apduSrv"), ("reason", "apduAbortRejectReason"))
FLAGS = ("seg", "mor", "sa", "nak", "srv")
TYPED = {0: "ConfirmedRequestPDU", 1: "UnconfirmedRequestPDU", 2: "SimpleAckPDU", 3: "ComplexAckPDU",
         4: "SegmentAckPDU", 5: "ErrorPDU", 6: "RejectPDU", 7: "AbortPDU"}
PATHS = ("APCI", "APDU", "typed")

B3 = (0, 128, 255)
B7 = (0, 1, 2, 127, 128, 254, 255)


def octet_alphabet(tier):
    return B3 if tier == "quick" else B7


def payloads(seed):
    return (b"", bytes([(0xC3 + 37 * seed) & 0xFF]), bytes((i * 7 + 3 + seed) & 0xFF for i in range(300)))


# ----------------------------------------------------------------------------- driving the library

def set_generic(obj, f, stray):
    obj.apduType = f["type"]
    for key, attr in ATTR:
        if key in f:
            setattr(obj, attr, f[key])
    if stray is not None:
        obj.apduSeq, obj.apduWin = stray


def make_typed(f, stray):
    """The typed PDU built the way appservice.py builds them (positional constructor arguments, flags as 0/1)."""
    t = f["type"]
    if t == 0:
        p = bp.ConfirmedRequestPDU(f["service"])
        p.apduSeg, p.apduMor, p.apduSA = int(f["seg"]), int(f["mor"]), int(f["sa"])
        p.apduMaxSegs, p.apduMaxResp, p.apduInvokeID = f["maxsegs"], f["maxresp"], f["invoke"]
    elif t == 1:
        p = bp.UnconfirmedRequestPDU(f["service"])
    elif t == 2:
        p = bp.SimpleAckPDU(f["service"], f["invoke"])
    elif t == 3:
        p = bp.ComplexAckPDU(f["service"], f["invoke"])
        p.apduSeg, p.apduMor = int(f["seg"]), int(f["mor"])
    elif t == 4:
        p = bp.SegmentAckPDU(int(f["nak"]), int(f["srv"]), f["invoke"], f["seq"], f["win"])
    elif t == 5:
        p = bp.ErrorPDU(f["service"], f["invoke"])
    elif t == 6:
        p = bp.RejectPDU(f["invoke"], f["reason"])
    elif t == 7:
        p = bp.AbortPDU(int(f["srv"]), f["invoke"], f["reason"])
    else:
        raise HarnessError("no typed class for %r" % (t,))
    if t in (0, 3):
        if f["seg"]:
            p.apduSeq, p.apduWin = f["seq"], f["win"]
        elif stray is not None:
            p.apduSeq, p.apduWin = stray
    return p


def read_fields(obj):
    got = {"type": getattr(obj, "apduType", None)}
    for key, attr in ATTR:
        got[key] = getattr(obj, attr, None)
    return got


def encode_via(path, f, stray, payload):
    """-> ("octets", bytes) or ("raises", exception name)"""
    try:
        if path == "APCI":
            a = bp.APCI()
            set_generic(a, f, stray)
            pdu = PDU()
            a.encode(pdu)
        elif path == "APDU":
            a = bp.APDU()
            set_generic(a, f, stray)
            a.put_data(payload)
            pdu = PDU()
            a.encode(pdu)
        else:
            p = make_typed(f, stray)
            p.put_data(payload)
            a = bp.APDU()
            p.encode(a)
            pdu = PDU()
            a.encode(pdu)
    except Exception as err:
        return ("raises", type(err).__name__)
    return ("octets", bytes(pdu.pduData))


def decode_via(path, data):
    """-> ("header", fields, payload) | ("DecodingError",) | ("raises", name)"""
    try:
        pdu = PDU(data)
        if path == "APCI":
            a = bp.APCI()
            a.decode(pdu)
            return ("header", read_fields(a), bytes(pdu.pduData))
        a = bp.APDU()
        a.decode(pdu)
        if path == "APDU":
            # "payload untouched": the decoded APDU owns its payload; what happens to the source buffer afterwards
            # (a receive buffer being reused) must not change it
            kept = bytes(a.pduData)
            pdu.put(0xAA)
            pdu.put(0x55)
            if bytes(a.pduData) != kept:
                return ("raises", "decoded-payload-changes-when-the-source-buffer-is-written-to")
            return ("header", read_fields(a), kept)
        cls = bp.apdu_types.get(a.apduType)
        if cls is None:
            return ("raises", "no-class-registered-for-type-%r" % (a.apduType,))
        if cls.__name__ != TYPED.get(a.apduType):
            return ("raises", "class-%s-registered-for-type-%r" % (cls.__name__, a.apduType))
        p = cls()
        p.decode(a)
        return ("header", read_fields(p), bytes(p.pduData))
    except DecodingError:
        return ("DecodingError",)
    except Exception as err:
        return ("raises", type(err).__name__)


# ----------------------------------------------------------------------------- oracles

LAYOUT_PROBLEMS = ("field-type-differs", "field-seg-differs")
AFTER_LAYOUT = ("maxsegs", "maxresp", "invoke", "seq", "win", "service", "nak", "srv", "reason")


def layout_misread(problems):
    return any(p in LAYOUT_PROBLEMS for p in problems)


def field_problems(f, got):
    """Compare decoded fields with the reference description f (absent field == None)."""
    out = []
    for key in ref.ALL_FIELDS:
        exp = f.get(key)
        g = got.get(key)
        if out and key in AFTER_LAYOUT and any(o in LAYOUT_PROBLEMS for o in out):
            break       # PDU type or SEG misread: the rest of the header is read at the wrong place, one root cause
        if exp is None:
            if g is not None:
                out.append("field-%s-set-although-not-in-this-header" % key)
        elif key in FLAGS:
            if g is None or bool(g) != bool(exp):
                out.append("field-%s-differs" % key)
        else:
            if isinstance(g, bool) or not isinstance(g, int) or g != exp:
                out.append("field-%s-differs" % key)
    return out


DOMAIN_TOP = {"type": 7, "maxsegs": 7, "maxresp": 15}


def domain_problems(got):
    """A decoded header whose field cannot be a value of that field in clause 20.1 is not a header."""
    out = []
    for key in ref.ALL_FIELDS:
        g = got.get(key)
        if g is None:
            continue
        if key in FLAGS:
            if g not in (0, 1):         # True == 1, False == 0
                out.append("header-field-%s-outside-its-domain" % key)
        elif isinstance(g, bool) or not isinstance(g, int) or not 0 <= g <= DOMAIN_TOP.get(key, 255):
            out.append("header-field-%s-outside-its-domain" % key)
    return out


def octet_problem(got, header, payload, lenient):
    if got == header + payload:
        return None
    if lenient and got == header:
        return None
    for i in range(len(header)):
        if i >= len(got) or got[i] != header[i]:
            return "header-octet-%d-differs" % i
    return "payload-differs" if not lenient else "trailing-octets-altered"


def judge_header_case(f, stray, payload):
    """Push one header description through the three library paths.
    -> (problems {(kind, what): [paths]}, observations {path: ...}, extra outcome label or None)"""
    t = f["type"]
    header = ref.build_header(f)
    lenient = bool(payload) and not ref.CARRIES_DATA[t]
    problems = {}
    obs = {"reference": header + payload}
    extra = None

    def note(kind, what, path):
        problems.setdefault((kind, what), []).append(path)

    for path in PATHS:
        enc = encode_via(path, f, stray, payload)
        obs[path + ".encode"] = enc
        if enc[0] == "raises":
            note("encode", "raises-" + enc[1], path)
        else:
            bad = octet_problem(enc[1], header, b"" if path == "APCI" else payload, lenient)
            if bad:
                note("encode", bad, path)
        dec = decode_via(path, header + payload)
        obs[path + ".decode"] = dec
        if dec[0] == "raises":
            note("decode", "raises-" + dec[1], path)
        elif dec[0] == "DecodingError":
            if lenient:
                extra = "trailing-octets-refused"
            else:
                note("decode", "DecodingError-on-valid-header", path)
        else:
            bads = field_problems(f, dec[1])
            for bad in bads:
                note("decode", bad, path)
            if layout_misread(bads):
                pass
            elif dec[2] != payload:
                if lenient and dec[2] == b"":
                    extra = "trailing-octets-dropped"
                else:
                    note("decode", "payload-differs" if not lenient else "trailing-octets-altered", path)
            elif lenient:
                extra = extra or "trailing-octets-kept"
    return problems, obs, extra


def judge_string(data):
    """Totality (and agreement with the reference where the string is a clean header) for one octet string.
    -> (problems {(kind, what): [paths]}, observations, outcome label)"""
    try:
        f, hlen, reserved = ref.parse_header(data)
        klass = "header+reserved-bits" if reserved else "header"
    except ref.Truncated:
        f, klass = None, "truncated"
    except ref.InvalidType:
        f, klass = None, "undefined-type"
    problems = {}
    obs = {}
    seen = set()
    for path in PATHS:
        dec = decode_via(path, data)
        obs[path] = dec
        seen.add(dec[0])
        if dec[0] == "raises":
            problems.setdefault(("totality", "raises-" + dec[1]), []).append(path)
        elif klass == "truncated":
            if dec[0] != "DecodingError":
                problems.setdefault(("totality", "header-from-truncated-octets"), []).append(path)
        elif klass == "undefined-type":
            if dec[0] != "DecodingError":
                problems.setdefault(("totality", "header-from-undefined-pdu-type"), []).append(path)
        elif klass == "header":
            if dec[0] == "DecodingError":
                problems.setdefault(("decode", "DecodingError-on-valid-header"), []).append(path)
            else:
                bads = field_problems(f, dec[1])
                for bad in bads:
                    problems.setdefault(("decode", bad), []).append(path)
                if dec[2] != data[hlen:] and not layout_misread(bads):
                    problems.setdefault(("decode", "payload-differs"), []).append(path)
        else:
            # reserved bits set: header or DecodingError, both fine.  What is returned as a header must still be one
            # (every field inside the domain clause 20.1 gives it); agreement with the reference reading is only recorded.
            if dec[0] == "header":
                for bad in domain_problems(dec[1]):
                    problems.setdefault(("totality", bad), []).append(path)
                if field_problems(f, dec[1]) or dec[2] != data[hlen:]:
                    seen.add("reserved-bits-change-a-field")
    label = "%s->%s" % (klass, "+".join(sorted(seen)))
    return problems, obs, label


def signature(kind, type_name, what, paths):
    sig = "%s:%s:%s" % (kind, type_name, what)
    if len(paths) != len(PATHS):
        sig += ":" + "+".join(paths) + "-only"
    return sig


# ----------------------------------------------------------------------------- case keys (perfect packing)

def pack_fields(f, stray, pidx):
    k = 1
    for key in ref.ALL_FIELDS:
        v = f.get(key)
        k = k * 258 + (257 if v is None else int(v))
    k = k * 3 + (0 if stray is None else 1 + (stray[0] & 1))
    return (k * 4 + pidx) * 8 + 1


def pack_string(data, swept_last=False):
    if swept_last:
        return (int.from_bytes(b"\x01" + data[:-1], "big") * 8) + 3
    return (int.from_bytes(b"\x01" + data, "big") * 8) + 2


def pack_table(fn_index, arg):
    return ((fn_index * (2 ** 40)) + (arg if arg is not None else 2 ** 39)) * 8 + 4


# ----------------------------------------------------------------------------- enumeration of header cases

STRAYS = (None, (255, 254))


def header_blocks(tier):
    """Shard descriptions, simplest first.  A block fixes type + flags + codes, the worker crosses the octet fields."""
    blocks = []
    for t in (1, 2, 5, 6):
        blocks.append(("cross", t, ()))
    for srv in (False, True):
        blocks.append(("cross", 7, (srv,)))
    for nak, srv in itertools.product((False, True), repeat=2):
        blocks.append(("cross", 4, (nak, srv)))
    for seg, mor in itertools.product((False, True), repeat=2):
        blocks.append(("cross", 3, (seg, mor)))
    for t in range(8):
        blocks.append(("star", t, ()))
    for seg, mor, sa in itertools.product((False, True), repeat=3):
        for maxsegs in range(8):
            for maxresp in range(16):
                blocks.append(("cross", 0, (seg, mor, sa, maxsegs, maxresp)))
    return blocks


def cross_cases(t, fixed, alpha):
    """Yield (fields, stray) for one block."""
    if t == 0:
        seg, mor, sa, maxsegs, maxresp = fixed
        base = {"type": 0, "seg": seg, "mor": mor, "sa": sa, "maxsegs": maxsegs, "maxresp": maxresp}
        if seg:
            for invoke, seq, win, service in itertools.product(alpha, repeat=4):
                yield dict(base, invoke=invoke, seq=seq, win=win, service=service), None
        else:
            for invoke, service in itertools.product(alpha, repeat=2):
                for stray in STRAYS:
                    yield dict(base, invoke=invoke, service=service), stray
    elif t == 1:
        for service in alpha:
            yield {"type": 1, "service": service}, None
    elif t in (2, 5):
        for invoke, service in itertools.product(alpha, repeat=2):
            yield {"type": t, "invoke": invoke, "service": service}, None
    elif t == 3:
        seg, mor = fixed
        base = {"type": 3, "seg": seg, "mor": mor}
        if seg:
            for invoke, seq, win, service in itertools.product(alpha, repeat=4):
                yield dict(base, invoke=invoke, seq=seq, win=win, service=service), None
        else:
            for invoke, service in itertools.product(alpha, repeat=2):
                for stray in STRAYS:
                    yield dict(base, invoke=invoke, service=service), stray
    elif t == 4:
        nak, srv = fixed
        for invoke, seq, win in itertools.product(alpha, repeat=3):
            yield {"type": 4, "nak": nak, "srv": srv, "invoke": invoke, "seq": seq, "win": win}, None
    elif t == 6:
        for invoke, reason in itertools.product(alpha, repeat=2):
            yield {"type": 6, "invoke": invoke, "reason": reason}, None
    elif t == 7:
        (srv,) = fixed
        for invoke, reason in itertools.product(alpha, repeat=2):
            yield {"type": 7, "srv": srv, "invoke": invoke, "reason": reason}, None


# two backgrounds of pairwise different values, so that a sweep also exposes two fields changing places
BACKGROUNDS = ({"invoke": 0xA5, "seq": 0x5A, "win": 0x3C, "service": 0xC3, "reason": 0x96},
               {"invoke": 0x00, "seq": 0xFF, "win": 0x01, "service": 0x80, "reason": 0x7F})


def star_cases(t):
    """All 256 values of each octet field, one field at a time, every flag combination, two code pairs."""
    flagsets = {0: ("seg", "mor", "sa"), 3: ("seg", "mor"), 4: ("nak", "srv"), 7: ("srv",)}.get(t, ())
    for flags in itertools.product((False, True), repeat=len(flagsets)):
        fl = dict(zip(flagsets, flags))
        octet_fields = [k for k in ref.fields_of(t, fl.get("seg", False)) if k in BACKGROUNDS[0]]
        codes = ((5, 10), (2, 5)) if t == 0 else ((None, None),)
        for bg, (maxsegs, maxresp) in zip(BACKGROUNDS, codes * 2):
            for swept in octet_fields:
                for v in range(256):
                    f = {"type": t}
                    f.update(fl)
                    if t == 0:
                        f["maxsegs"], f["maxresp"] = maxsegs, maxresp
                    for k in octet_fields:
                        f[k] = bg[k]
                    f[swept] = v
                    yield f, None


# (octet index, mask) of the bits clause 20.1 leaves reserved in each fixed header
RESERVED_BITS = {
    0: ((0, 0x01), (1, 0x80)),
    1: ((0, 0x01), (0, 0x02), (0, 0x04), (0, 0x08)),
    2: ((0, 0x01), (0, 0x02), (0, 0x04), (0, 0x08)),
    3: ((0, 0x01), (0, 0x02)),
    4: ((0, 0x04), (0, 0x08)),
    5: ((0, 0x01), (0, 0x02), (0, 0x04), (0, 0x08)),
    6: ((0, 0x01), (0, 0x02), (0, 0x04), (0, 0x08)),
    7: ((0, 0x02), (0, 0x04), (0, 0x08)),
}


def hdr_shard(item, deadline):
    kind, t, fixed, tier, seed = item
    acc = Acc()
    alpha = octet_alphabet(tier)
    pls = payloads(seed)
    name = NAMES[t]
    gen = cross_cases(t, fixed, alpha) if kind == "cross" else star_cases(t)
    n = 0
    for f, stray in gen:
        n += 1
        if n % 512 == 0 and time.time() > deadline:
            acc.cap("hdr: deadline inside block %r" % ((kind, t, fixed),))
            break
        for pidx, payload in enumerate(pls):
            problems, obs, extra = judge_header_case(f, stray, payload)
            acc.case(pack_fields(f, stray, pidx))
            acc.add_info("hdr cases", 1)
            acc.add_info("library encode calls", len(PATHS))
            acc.add_info("library decode calls", len(PATHS))
            label = "hdr:%s:%s%s" % (name, "seg" if f.get("seg") else "unseg" if "seg" in f else "plain",
                                     (":" + extra) if extra else "")
            acc.outcome(label + (":ok" if not problems else ":FAIL"))
            for (pk, what), paths in sorted(problems.items()):
                acc.fail(signature(pk, name, what, paths),
                         {"fields": f, "stray_seq_win": stray, "payload_octets": len(payload), "problem": what,
                          "paths": paths, "reference": obs["reference"][:12],
                          "observed": {p: obs[p] for p in sorted(obs) if p.split(".")[0] in paths}},
                         {"part": "hdr", "f": f, "stray": stray, "payload": payload})
            if pidx == 0:
                # the same header cut at every position
                header = obs["reference"]
                for cut in range(len(header)):
                    piece = header[:cut]
                    problems, tobs, tlabel = judge_string(piece)
                    acc.case(pack_string(piece))
                    acc.add_info("trunc cases", 1)
                    acc.add_info("library decode calls", len(PATHS))
                    acc.outcome("trunc:%s:%s" % (name, tlabel))
                    for (pk, what), paths in sorted(problems.items()):
                        acc.fail(signature(pk, name, what, paths),
                                 {"octets": piece, "cut_of": header, "problem": what, "paths": paths, "observed": tobs},
                                 {"part": "tot", "data": piece})
                # the same header with each reserved bit set (a non-conforming sender): header or DecodingError
                for pos, bit in RESERVED_BITS[t]:
                    noisy = bytearray(header)
                    noisy[pos] |= bit
                    noisy = bytes(noisy)
                    problems, tobs, tlabel = judge_string(noisy)
                    acc.case(pack_string(noisy))
                    acc.add_info("reserved-bit cases", 1)
                    acc.add_info("library decode calls", len(PATHS))
                    acc.outcome("rsvd:%s:%s" % (name, tlabel))
                    for (pk, what), paths in sorted(problems.items()):
                        acc.fail(signature(pk, name, what, paths),
                                 {"octets": noisy, "reserved_bit": [pos, bit], "problem": what, "paths": paths, "observed": tobs},
                                 {"part": "tot", "data": noisy})
        if n == 1:
            acc.sample({"part": "hdr", "fields": f, "payload_octets": 0, "reference_octets": ref.build_header(f),
                        "library_octets": encode_via("typed", f, stray, b"")})
    return acc


# ----------------------------------------------------------------------------- totality over short strings

def tot_shard(item, deadline):
    first, third, tier, seed = item
    acc = Acc()

    def one(data, swept_last=False):
        problems, obs, label = judge_string(data)
        acc.case(pack_string(data, swept_last))
        acc.add_info("tot cases", 1)
        acc.add_info("library decode calls", len(PATHS))
        acc.outcome("tot:len%d:%s" % (len(data), label))
        for (pk, what), paths in sorted(problems.items()):
            tname = NAMES.get(data[0] >> 4, "undefined-type") if data else "empty"
            acc.fail(signature(pk, tname, what, paths),
                     {"octets": data, "problem": what, "paths": paths, "observed": obs},
                     {"part": "tot", "data": data})

    if first is None:
        one(b"")
        return acc
    one(bytes([first]))
    for second in range(256):
        one(bytes([first, second]))
    for second in range(256):
        if time.time() > deadline:
            acc.cap("tot: deadline inside first octet 0x%02x" % first)
            break
        for last in third:
            one(bytes([first, second, last]), swept_last=True)
    if first % 16 == 0:
        data = bytes([first, 1, 2])
        acc.sample({"part": "tot", "octets": data, "observed": judge_string(data)[1]["typed"]})
    return acc


# ----------------------------------------------------------------------------- the two code tables

TABLE_FUNCTIONS = ("encode_max_segments_accepted", "decode_max_segments_accepted",
                   "encode_max_apdu_length_accepted", "decode_max_apdu_length_accepted")
CAPABILITIES = tuple(range(0, 2001)) + (65535, 10 ** 6, 2 ** 31)


def call_table(fn_name, arg):
    """-> ("value", v) | ("error", exception name)"""
    try:
        return ("value", getattr(bp, fn_name)(arg))
    except Exception as err:
        return ("error", type(err).__name__)


def is_code(v, top):
    return isinstance(v, int) and not isinstance(v, bool) and 0 <= v <= top


def is_number(v):
    return isinstance(v, (int, float)) and not isinstance(v, bool)


def judge_table(fn_name, arg):
    """-> (problem or None, observation, outcome label)"""
    got = call_table(fn_name, arg)
    if fn_name == "encode_max_segments_accepted":
        if arg is None:
            return (None if got == ("value", 0) else "no-capability-not-encoded-as-unspecified"), got, "unspecified"
        want = ref.max_segments_code(arg)
        if want is None:                                    # 0 or 1: every numeric code overstates it
            if got[0] == "error" or got == ("value", 0):
                return None, got, "below-table:" + ("error" if got[0] == "error" else "unspecified")
            return "rounds-up", got, "below-table:code"
        if got[0] == "error":
            return "error-although-a-code-fits", got, "error"
        c = got[1]
        if not is_code(c, 7):
            return "result-is-not-a-code", got, "junk"
        if c == want:
            return None, got, "code%d" % c
        meaning = ref.MAX_SEGMENTS_TABLE[c]
        if (meaning == ref.GREATER_THAN_64 and arg <= 64) or (is_number(meaning) and meaning > arg):
            return "rounds-up", got, "code%d" % c
        return "not-the-largest-code-within-capability", got, "code%d" % c
    if fn_name == "decode_max_segments_accepted":
        meaning = ref.MAX_SEGMENTS_TABLE[arg]
        if got[0] == "error":
            return "error-on-defined-code", got, "error"
        v = got[1]
        if meaning == ref.UNSPECIFIED:
            return (None if v is None else "unspecified-decoded-as-number"), got, "unspecified"
        if meaning == ref.GREATER_THAN_64:
            ok = v is None or (is_number(v) and v > 64)
            return (None if ok else "greater-than-64-decoded-as-64-or-less"), got, "more-than-64"
        return (None if (is_number(v) and v == meaning) else "table-entry-differs"), got, "number"
    if fn_name == "encode_max_apdu_length_accepted":
        want = ref.max_apdu_code(arg)
        if want is None:                                    # below 50 octets: every code overstates it
            if got[0] == "error":
                return None, got, "below-table:error"
            return "rounds-up", got, "below-table:code"
        if got[0] == "error":
            return "error-although-a-code-fits", got, "error"
        c = got[1]
        if not is_code(c, 15):
            return "result-is-not-a-code", got, "junk"
        if c == want:
            return None, got, "code%d" % c
        if c not in ref.MAX_APDU_TABLE:
            return "reserved-code-produced", got, "code%d" % c
        if ref.MAX_APDU_TABLE[c] > arg:
            return "rounds-up", got, "code%d" % c
        return "not-the-largest-code-within-capability", got, "code%d" % c
    if fn_name == "decode_max_apdu_length_accepted":
        if arg in ref.MAX_APDU_TABLE:
            if got[0] == "error":
                return "error-on-defined-code", got, "error"
            v = got[1]
            return (None if (is_number(v) and v == ref.MAX_APDU_TABLE[arg]) else "table-entry-differs"), got, "number"
        if got[0] == "error" or got[1] is None:
            return None, got, "reserved:" + ("error" if got[0] == "error" else "none")
        return "reserved-code-has-a-length", got, "reserved:number"
    raise HarnessError("unknown table function %r" % (fn_name,))


def judge_table_roundtrip(which, arg):
    """encode then decode never exceeds the capability; decode then encode gives the code back."""
    enc = "encode_max_%s_accepted" % which
    dec = "decode_max_%s_accepted" % which
    if isinstance(arg, tuple):                              # ("code", c)
        c = arg[1]
        v = call_table(dec, c)
        if v[0] == "error" or not is_number(v[1]):
            return None, v, "no-number"
        back = call_table(enc, v[1])
        return (None if back == ("value", c) else "decode-then-encode-gives-another-code"), (v, back), "code-restored"
    c = call_table(enc, arg)
    if c[0] == "error":
        return None, c, "no-code"
    try:
        v = call_table(dec, c[1])
    except Exception as err:        # cannot happen: call_table catches
        raise HarnessError(repr(err))
    if v[0] == "error":
        return "encoded-capability-does-not-decode", (c, v), "error"
    if is_number(v[1]) and v[1] > arg:
        return "rounds-up", (c, v), "exceeds"
    return None, (c, v), "within"


def tab_shard(item, deadline):
    acc = Acc()
    plan = []
    for cap in (None,) + CAPABILITIES:
        plan.append(("encode_max_segments_accepted", cap))
    for code in range(8):
        plan.append(("decode_max_segments_accepted", code))
    for cap in CAPABILITIES:
        plan.append(("encode_max_apdu_length_accepted", cap))
    for code in range(16):
        plan.append(("decode_max_apdu_length_accepted", code))
    for fn_name, arg in plan:
        problem, got, label = judge_table(fn_name, arg)
        acc.case(pack_table(TABLE_FUNCTIONS.index(fn_name), arg))
        acc.add_info("tab cases", 1)
        short = fn_name.replace("_accepted", "").replace("max_", "").replace("_", "-")
        acc.outcome("tab:%s:%s" % (short, label))
        if problem:
            acc.fail("table:%s:%s" % (short, problem), {"function": fn_name, "argument": arg, "observed": got},
                     {"part": "tab", "fn": fn_name, "arg": arg})
    for which, codes in (("segments", range(8)), ("apdu_length", range(16))):
        args = [("code", c) for c in codes] + list(CAPABILITIES)
        for arg in args:
            problem, got, label = judge_table_roundtrip(which, arg)
            fn_index = 4 + (0 if which == "segments" else 1) * 2 + (1 if isinstance(arg, tuple) else 0)
            acc.case(pack_table(fn_index, arg[1] if isinstance(arg, tuple) else arg))
            acc.add_info("tab cases", 1)
            acc.outcome("tab:%s-roundtrip:%s" % (which.replace("_", "-"), label))
            if problem:
                acc.fail("table:%s-roundtrip:%s" % (which.replace("_", "-"), problem),
                         {"table": which, "argument": arg, "observed": got},
                         {"part": "tabrt", "which": which, "arg": list(arg) if isinstance(arg, tuple) else arg})
    acc.sample({"part": "tab", "encode_max_segments_accepted(63)": call_table("encode_max_segments_accepted", 63),
                "encode_max_apdu_length_accepted(1475)": call_table("encode_max_apdu_length_accepted", 1475)})
    return acc


# ----------------------------------------------------------------------------- entry points

# ----------------------------------------------------------------------------- header objects that are not fresh

LOUD = {"seg": True, "mor": True, "sa": True, "nak": True, "srv": True, "maxsegs": 7, "maxresp": 15, "invoke": 0xFF,
        "seq": 0xFF, "win": 0x7F, "service": 0xFF, "reason": 0xFF}


def stale_cases():
    """A few headers of every type (every flag combination, both backgrounds)."""
    out = []
    for t in range(8):
        seen = set()
        for f, stray in star_cases(t):
            key = tuple(sorted((k, v) for k, v in f.items() if isinstance(v, bool) or k in ("type", "maxsegs")))
            if key in seen:
                continue
            seen.add(key)
            out.append(f)
    return out


def encode_with_foreign_fields(path, f, payload):
    """Every attribute that is NOT a field of f's type is set to a loud value first (what a header object that was used
    for another PDU before looks like); -> ("octets", bytes) or ("raises", name)"""
    own = set(ref.fields_of(f["type"], f.get("seg", False)))
    try:
        if path == "typed":
            a0 = make_typed(f, None)
        else:
            a0 = bp.APCI() if path == "APCI" else bp.APDU()
        for key, attr in ATTR:
            if key not in own:
                setattr(a0, attr, LOUD[key])
        if path != "typed":
            set_generic(a0, f, None)
        if path == "APCI":
            pdu = PDU()
            a0.encode(pdu)
        elif path == "APDU":
            a0.put_data(payload)
            pdu = PDU()
            a0.encode(pdu)
        else:
            a0.put_data(payload)
            a = bp.APDU()
            a0.encode(a)
            pdu = PDU()
            a.encode(pdu)
    except Exception as err:
        return ("raises", type(err).__name__)
    return ("octets", bytes(pdu.pduData))


def reuse_decode(path, first, second):
    """Decode two frames one after the other into ONE header object, then encode it again.
    -> ("ok", fields, octets) | ("raises", name)"""
    try:
        a = bp.APCI() if path == "APCI" else bp.APDU()
        a.decode(PDU(first))
        a.decode(PDU(second))
        got = read_fields(a)
        pdu = PDU()
        a.encode(pdu)
    except Exception as err:
        return ("raises", type(err).__name__)
    return ("ok", got, bytes(pdu.pduData))


def reuse_decode_typed(first, second):
    """Two frames of one PDU type decoded one after the other into ONE typed PDU object (through a fresh generic APDU
    each, as the stack does), then encoded again.  -> ("ok", fields, payload, octets) | ("raises", name)"""
    try:
        p = None
        for data in (first, second):
            a = bp.APDU()
            a.decode(PDU(data))
            if p is None:
                p = bp.apdu_types[a.apduType]()
            p.decode(a)
        got = read_fields(p)
        out = bp.APDU()
        p.encode(out)
        pdu = PDU()
        out.encode(pdu)
    except Exception as err:
        return ("raises", type(err).__name__)
    return ("ok", got, bytes(p.pduData), bytes(pdu.pduData))


def make_typed_sparse(f):
    """As make_typed, but a flag that is off is left the way the constructor leaves it (None) instead of being set to 0 -
    the way most callers build an unsegmented request or answer."""
    t = f["type"]
    if t == 0:
        p = bp.ConfirmedRequestPDU(f["service"])
        p.apduMaxSegs, p.apduMaxResp, p.apduInvokeID = f["maxsegs"], f["maxresp"], f["invoke"]
    elif t == 3:
        p = bp.ComplexAckPDU(f["service"], f["invoke"])
    elif t == 4:
        p = bp.SegmentAckPDU(1 if f["nak"] else None, 1 if f["srv"] else None, f["invoke"], f["seq"], f["win"])
    elif t == 7:
        p = bp.AbortPDU(1 if f["srv"] else None, f["invoke"], f["reason"])
    else:
        return make_typed(f, None)
    if t in (0, 3):
        for key, attr in (("seg", "apduSeg"), ("mor", "apduMor"), ("sa", "apduSA")):
            if f.get(key):
                setattr(p, attr, 1)
        if f["seg"]:
            p.apduSeq, p.apduWin = f["seq"], f["win"]
    return p


def reuse_encode(path, first, second, payload):
    """One header object is given the fields of `first` and encoded, then the fields of `second` and encoded again
    (APCI, APDU); "staging": two typed PDUs are encoded one after the other into ONE generic APDU (the buffer between
    the typed classes and the wire), which is then encoded; "staging-sparse": the same with the second PDU's off flags
    left unset.  -> ("octets", bytes of the last encoding) | ("raises", name)"""
    try:
        if path in ("staging", "staging-sparse"):
            a = bp.APDU()
            for k, f in enumerate((first, second)):
                p = make_typed_sparse(f) if (k == 1 and path == "staging-sparse") else make_typed(f, None)
                if ref.CARRIES_DATA[f["type"]]:
                    p.put_data(payload)
                p.encode(a)
            pdu = PDU()
            a.encode(pdu)
        else:
            a = bp.APCI() if path == "APCI" else bp.APDU()
            if path == "APDU":
                a.put_data(payload)
            for f in (first, second):
                set_generic(a, f, None)
                pdu = PDU()
                a.encode(pdu)
    except Exception as err:
        return ("raises", type(err).__name__)
    return ("octets", bytes(pdu.pduData))


def judge_reuse(fa, fb, payload):
    problems = {}
    ha, hb = ref.build_header(fa), ref.build_header(fb)
    # encoding: what the object was given and emitted before may not show in what it emits now (the header octets are
    # judged; the payload of a staging buffer that is filled twice is the caller's business)
    for path in ("APCI", "APDU", "staging", "staging-sparse"):
        r = reuse_encode(path, fa, fb, payload)
        if r[0] == "raises":
            problems.setdefault(("reuse", "second-encoding-of-the-same-object:raises-" + r[1]), []).append(path)
        elif r[1][:len(hb)] != hb or (path == "APCI" and r[1] != hb):
            problems.setdefault(("reuse", "second-encoding-of-the-same-object:header-octets-differ"), []).append(path)
    if fa["type"] == fb["type"]:
        carries = ref.CARRIES_DATA[fb["type"]]
        pa = (payload + b"\x5A\xA5") if carries else b""
        pb = payload if carries else b""
        r = reuse_decode_typed(ha + pa, hb + pb)
        if r[0] == "raises":
            problems.setdefault(("reuse", "typed:raises-" + r[1]), []).append("typed")
        else:
            for bad in field_problems(fb, r[1]):
                if not bad.endswith("-set-although-not-in-this-header"):
                    problems.setdefault(("reuse", "second-decode-into-the-same-object:" + bad), []).append("typed")
            if r[2] != pb:
                problems.setdefault(("reuse", "second-decode-into-the-same-object:payload-differs"), []).append("typed")
            if r[3] != hb + pb:
                problems.setdefault(("reuse", "re-encoding-after-second-decode-differs"), []).append("typed")
    for path in ("APCI", "APDU"):
        pl = payload if (path == "APDU" and ref.CARRIES_DATA[fb["type"]]) else b""
        pla = payload if (path == "APDU" and ref.CARRIES_DATA[fa["type"]]) else b""
        r = reuse_decode(path, ha + pla, hb + pl)
        if r[0] == "raises":
            problems.setdefault(("reuse", "raises-" + r[1]), []).append(path)
            continue
        # only the fields of the second header are looked at: what the object still holds of the first one in attributes
        # the second type does not have is nobody's business as long as it does not reach the wire again
        for bad in field_problems(fb, r[1]):
            if not bad.endswith("-set-although-not-in-this-header"):
                problems.setdefault(("reuse", "second-decode-into-the-same-object:" + bad), []).append(path)
        if r[2] != hb + pl:
            problems.setdefault(("reuse", "re-encoding-after-second-decode-differs"), []).append(path)
    return problems


def _with_debugging(fn):
    """Run fn with the _debug switches of the modules on the APDU path set (log records go nowhere)."""
    import logging
    import bacpypes.apdu as m_apdu
    import bacpypes.pdu as m_pdu
    import bacpypes.comm as m_comm
    mods = (m_apdu, m_pdu, m_comm)
    old = [m._debug for m in mods]
    root = logging.getLogger("bacpypes")
    old_level, old_handlers, old_prop = root.level, list(root.handlers), root.propagate
    root.handlers[:] = [logging.NullHandler()]
    root.propagate = False
    root.setLevel(logging.DEBUG)
    for m in mods:
        m._debug = 1
    try:
        return fn()
    finally:
        for m, v in zip(mods, old):
            m._debug = v
        root.setLevel(old_level)
        root.handlers[:] = old_handlers
        root.propagate = old_prop


def stale_shard(item, deadline):
    tier, seed, lo, hi = item
    acc = Acc()
    cases = stale_cases()
    payload = payloads(seed)[1]
    for i in range(lo, min(hi, len(cases))):
        f = cases[i]
        name = NAMES[f["type"]]
        header = ref.build_header(f)
        for path in PATHS:
            acc.case(("stale", i, path))
            enc = encode_with_foreign_fields(path, f, payload)
            want = header + (b"" if path == "APCI" or not ref.CARRIES_DATA[f["type"]] else payload)
            if enc[0] == "raises":
                acc.fail(signature("stale", name, "encode-with-foreign-fields-set:raises-" + enc[1], [path]),
                         {"fields": f, "path": path}, {"part": "stale", "f": f, "path": path})
            elif enc[1] != want and not (not ref.CARRIES_DATA[f["type"]] and enc[1][:len(header)] == header and path != "APCI"):
                acc.fail(signature("stale", name, "encode-with-foreign-fields-set:octets-differ", [path]),
                         {"fields": f, "path": path, "emitted": enc[1][:8].hex(), "reference": want[:8].hex()},
                         {"part": "stale", "f": f, "path": path})
        # the same decode and encode with the module's debugging switched on (what --debug bacpypes.apdu does): tracing
        # may not change what is decoded or emitted
        plain = [(path, decode_via(path, header + (payload if ref.CARRIES_DATA[f["type"]] else b"")),
                  encode_via(path, f, None, payload)) for path in PATHS]
        with_debug = _with_debugging(lambda: [(path, decode_via(path, header + (payload if ref.CARRIES_DATA[f["type"]] else b"")),
                                               encode_via(path, f, None, payload)) for path in PATHS])
        acc.case(("debug", i))
        if with_debug != plain:
            bad = [a[0] for a, b in zip(plain, with_debug) if a != b]
            acc.fail(signature("debugging", name, "result-differs-when-debugging-is-switched-on", bad),
                     {"fields": f, "paths": bad, "off": repr([x for x in plain if x[0] in bad])[:300],
                      "on": repr([x for x in with_debug if x[0] in bad])[:300]}, {"part": "debug", "f": f})
        for j, g in enumerate(cases):
            acc.case(("reuse", j, i))
            problems = judge_reuse(g, f, payload)
            for (kind, what), paths in problems.items():
                acc.fail(signature(kind, name, what + ":after-" + NAMES[g["type"]], paths),
                         {"first decoded": g, "then decoded": f, "paths": paths}, {"part": "reuse", "first": g, "second": f})
        acc.outcome("stale:%s:ok" % name)
    return acc


def shard(item, deadline):
    part = item[0]
    if part == "stale":
        return stale_shard(item[1:], deadline)
    if part == "tab":
        return tab_shard(item[1:], deadline)
    if part == "hdr":
        return hdr_shard(item[1:], deadline)
    if part == "tot":
        return tot_shard(item[1:], deadline)
    raise HarnessError("unknown part %r" % (part,))


def determinism_probe(seed):
    """The same inputs twice: identical observations, else the harness (not the library) is at fault."""
    probes = []
    for t in range(8):
        for f, stray in itertools.islice(star_cases(t), 0, 600, 97):
            probes.append((f, stray))
    pl = payloads(seed)[1]
    for f, stray in probes:
        a = judge_header_case(f, stray, pl)
        b = judge_header_case(f, stray, pl)
        if a != b:
            raise HarnessError("C07: the same header case gave two different observations: %r / %r" % (a, b))
    for data in (b"", b"\x00", b"\x08\x75\x01", b"\x40\x01\x02\x03", b"\xf0\x00"):
        if judge_string(data) != judge_string(data):
            raise HarnessError("C07: the same octet string gave two different observations: %r" % (data,))


def run(tier, seed, deadline):
    acc = Acc()
    determinism_probe(seed)
    items = [("tab",)]
    items += [("hdr", kind, t, fixed, tier, seed) for (kind, t, fixed) in header_blocks(tier)]
    third = tuple(range(256)) if tier == "thorough" else octet_alphabet(tier)
    n_stale = len(stale_cases())
    items += [("stale", tier, seed, lo, lo + 8) for lo in range(0, n_stale, 8)]
    acc.info["headers in the stale/reuse part"] = n_stale
    items += [("tot", None, third, tier, seed)]
    items += [("tot", first, third, tier, seed) for first in range(256)]
    run_shards(shard, items, deadline, into=acc)
    acc.info["shards"] = len(items)
    acc.info["octet alphabet"] = list(octet_alphabet(tier))
    acc.info["third octet of length-3 strings"] = "0..255" if tier == "thorough" else list(third)
    return acc


def replay(case):
    part = case["part"]
    if part == "hdr":
        f = dict(case["f"])
        stray = tuple(case["stray"]) if case.get("stray") is not None else None
        payload = bytes(case["payload"]) if not isinstance(case["payload"], bytes) else case["payload"]
        problems, obs, extra = judge_header_case(f, stray, payload)
        lines = ["fields=%r stray_seq_win=%r payload=%d octets" % (f, stray, len(payload)),
                 "reference octets: %s" % obs["reference"][:16].hex()]
        for p in PATHS:
            enc, dec = obs[p + ".encode"], obs[p + ".decode"]
            lines.append("%-5s encode -> %s" % (p, enc[1][:16].hex() if enc[0] == "octets" else enc))
            lines.append("%-5s decode -> %s" % (p, {k: v for k, v in dec[1].items() if v is not None} if dec[0] == "header" else dec))
        lines.append("problems: %r" % (sorted(problems.items()),))
        return not problems, "\n".join(lines)
    if part == "stale":
        f = dict(case["f"])
        enc = encode_with_foreign_fields(case["path"], f, b"\xC3")
        header = ref.build_header(f)
        ok = enc[0] == "octets" and enc[1][:len(header)] == header
        return ok, "fields=%r path=%s, every other attribute set loud first\nreference header %s\nemitted %r" % (
            f, case["path"], header.hex(), enc[1].hex() if enc[0] == "octets" else enc)
    if part == "debug":
        f = dict(case["f"])
        header = ref.build_header(f)
        pl = b"\xC3" if ref.CARRIES_DATA[f["type"]] else b""
        off = [decode_via(p, header + pl) for p in PATHS]
        on = _with_debugging(lambda: [decode_via(p, header + pl) for p in PATHS])
        return off == on, "fields=%r\ndebugging off: %r\ndebugging on:  %r" % (f, off, on)
    if part == "reuse":
        fa, fb = dict(case["first"]), dict(case["second"])
        problems = judge_reuse(fa, fb, b"\xC3")
        return not problems, "decode %r then %r into one object\nproblems=%r" % (fa, fb, sorted(problems.items()))
    if part == "tot":
        data = case["data"]
        problems, obs, label = judge_string(data)
        return not problems, "octets=%s %s\nobserved=%r\nproblems=%r" % (data.hex(), label, obs, sorted(problems.items()))
    if part == "tab":
        problem, got, label = judge_table(case["fn"], case["arg"])
        return problem is None, "%s(%r) -> %r %s" % (case["fn"], case["arg"], got, problem or "as the table says")
    if part == "tabrt":
        arg = tuple(case["arg"]) if isinstance(case["arg"], list) else case["arg"]
        problem, got, label = judge_table_roundtrip(case["which"], arg)
        return problem is None, "max_%s round trip of %r -> %r %s" % (case["which"], arg, got, problem or "coherent")
    return False, "unknown part %r" % (part,)
