"""C09 BACnet/IP frames carry a correct length and round-trip all twelve functions.

Pure input enumeration (E3) against bv/refs/bvllref.py (Annex J.2, written from the standard).

part enc   per function its parameter grid: class.encode -> BVLPDU.encode -> octets == reference, and the same
           message through AnnexJCodec.indication with the octets captured below the codec: type 0x81, function
           code, length field == number of octets (checked on the octets themselves), == reference;
           reference octets -> BVLPDU.decode -> bvl_pdu_types[f]().decode -> same parameters, and through
           AnnexJCodec.confirmation
part trunc every strict prefix of selected frames, and every body cut short under a consistent length field
part in    inbound: every function code 0..255 x length field in [len-3, len+3] u {0, 65535} x type octets x
           bodies of many lengths: accepted iff type and length agree with the datagram (and, for the twelve
           functions, the body is complete), otherwise refused by DecodingError/EncodingError
part short every octet string of length <= 3 (thorough: and every 4-octet string starting with 0x81)
part addr  pack_ip_addr / unpack_ip_addr against the six-octet B/IP address of J.1.2
"""
import time

import bv  # noqa: F401
from bacpypes.errors import DecodingError, EncodingError
from bacpypes.comm import Client, Server, bind
from bacpypes.pdu import PDU, Address, pack_ip_addr, unpack_ip_addr
from bacpypes import bvll as B
from bacpypes.bvllservice import AnnexJCodec
from bv.engine.acc import Acc, h64
from bv.engine.pool import run_shards, chunks
from bv.refs import bvllref as R

PROPERTY = "C09"
LEVEL = "exploration"
BUDGET = {"quick": 90.0, "thorough": 900.0}
RULE = ("per function the cross product of its boundary parameters (result codes, TTLs, IP x port, masks, remaining "
        "times, NPDU lengths, NPDU handed over as octets, as a PDU or by put_data); BDT/FDT tables of every size 0..40 filled from every "
        "rotation of the entry cross product; inbound frames as the cross product function code 0..255 x length-field "
        "value x type octet x body; every strict prefix and every consistently re-framed body prefix of selected frames; "
        "every octet string of length <= 3; a case is distinct by its octet string (inbound) or by the reference octets "
        "of its parameters plus the way they are handed over (outbound); strings not starting with 0x81 are refused at "
        "the type octet and count as one non-trivial case per (length, first octet) in part short, 4-octet strings whose "
        "length field is not 4 as one per (type, function)")
ASSUMPTIONS = [
    "values between the listed boundaries (interior IPv4 addresses, ports, masks, TTLs, table sizes above 40, NPDU lengths "
    "between 2 and 1496) are not enumerated, except ports: all 65536 in part addr",
    "messages are built the way bvllservice.py builds them: parameters through the constructor, table entries as Address "
    "objects made from (ip, port) tuples with addrMask assigned, FDTEntry objects with attributes assigned",
    "not judged here: what happens above BVLPDU.decode with a function code outside the twelve (property C10); octets "
    "after a complete fixed-size body under a consistent length field (accepted either way, parameters must still be right)",
    "real UDP sockets are not involved: the octets are captured from the PDU that AnnexJCodec hands to the layer below",
]
BOUNDS = {
    "quick": "IPs {0.0.0.0,1.2.3.4,255.255.255.255} x ports {0,1,47808,65535}; 7 masks; TTL/remaining {0,1,30|35,65535}; "
             "tables 0..40 entries x every rotation; NPDU lengths {0,1,2,1496,1497} x 3 hand-over forms and every length 0..1497 "
             "once; inbound 21 body lengths x 256 functions "
             "x 9 length values x 7 type octets; all strings <= 2 octets, 3-octet strings starting 0x81 (all) and others "
             "(16 third octets)",
    "thorough": "as quick plus IPs {127.0.0.1,192.168.0.255,10.20.30.40}, ports {255,256,47809}, 10 masks, all 256 type "
                "octets on part of the inbound bodies, all strings <= 3 octets and all 4-octet strings starting 0x81",
}

NAMES = {
    R.RESULT: "Result", R.WRITE_BDT: "WriteBroadcastDistributionTable", R.READ_BDT: "ReadBroadcastDistributionTable",
    R.READ_BDT_ACK: "ReadBroadcastDistributionTableAck", R.FORWARDED_NPDU: "ForwardedNPDU",
    R.REGISTER_FD: "RegisterForeignDevice", R.READ_FDT: "ReadForeignDeviceTable",
    R.READ_FDT_ACK: "ReadForeignDeviceTableAck", R.DELETE_FDT_ENTRY: "DeleteForeignDeviceTableEntry",
    R.DISTRIBUTE_BROADCAST: "DistributeBroadcastToNetwork", R.ORIGINAL_UNICAST: "OriginalUnicastNPDU",
    R.ORIGINAL_BROADCAST: "OriginalBroadcastNPDU",
}
REFUSALS = (DecodingError, EncodingError)


# ----------------------------------------------------------------------------- bacpypes <-> canonical form

def mk_addr(ip, port, mask=None):
    a = Address((ip, port))
    if mask is not None:
        a.addrMask = mask
    return a


def canon_addr(a):
    """(ip, port) of a decoded Address; anything inconsistent inside the object shows up as a different value"""
    raw = getattr(a, "addrAddr", None)
    if not isinstance(raw, (bytes, bytearray)) or len(raw) != 6:
        return ("not-six-octets", repr(raw))
    ip, port = R.ip_text(raw[0:4]), (raw[4] << 8) | raw[5]
    tup = getattr(a, "addrTuple", None)
    if tup != (ip, port):
        return ("addrTuple-differs-from-addrAddr", ip, port, repr(tup))
    if getattr(a, "addrPort", None) != port:
        return ("addrPort-differs", ip, port, repr(getattr(a, "addrPort", None)))
    return (ip, port)


FORMS = ("octets", "pdu", "put_data")       # how the NPDU is handed to the message object


def _form(as_pdu):
    if as_pdu in FORMS:
        return as_pdu
    return "pdu" if as_pdu else "octets"


def _data(npdu, as_pdu):
    """constructor argument carrying the NPDU: octets, a PDU (the way bvllservice.py does it), or nothing when the
    octets are appended afterwards with put_data"""
    form = _form(as_pdu)
    if form == "pdu":
        return PDU(bytes(npdu))
    if form == "put_data":
        return None
    return bytes(npdu)


def _fdt(entries):
    out = []
    for ip, port, ttl, rem in entries:
        e = B.FDTEntry()
        e.fdAddress = mk_addr(ip, port)
        e.fdTTL = ttl
        e.fdRemain = rem
        out.append(e)
    return out


def build(function, p, as_pdu=False):
    """the message object, built the way bvllservice.py builds it"""
    m = _build(function, p, as_pdu)
    if "npdu" in p and _form(as_pdu) == "put_data":
        m.put_data(bytes(p["npdu"]))
    return m


def _build(function, p, as_pdu):
    if function == R.RESULT:
        return B.Result(p["code"])
    if function == R.WRITE_BDT:
        return B.WriteBroadcastDistributionTable([mk_addr(*e) for e in p["bdt"]])
    if function == R.READ_BDT:
        return B.ReadBroadcastDistributionTable()
    if function == R.READ_BDT_ACK:
        return B.ReadBroadcastDistributionTableAck([mk_addr(*e) for e in p["bdt"]])
    if function == R.FORWARDED_NPDU:
        return B.ForwardedNPDU(mk_addr(*p["addr"]), _data(p["npdu"], as_pdu))
    if function == R.REGISTER_FD:
        return B.RegisterForeignDevice(p["ttl"])
    if function == R.READ_FDT:
        return B.ReadForeignDeviceTable()
    if function == R.READ_FDT_ACK:
        return B.ReadForeignDeviceTableAck(_fdt(p["fdt"]))
    if function == R.DELETE_FDT_ENTRY:
        return B.DeleteForeignDeviceTableEntry(mk_addr(*p["addr"]))
    if function == R.DISTRIBUTE_BROADCAST:
        return B.DistributeBroadcastToNetwork(_data(p["npdu"], as_pdu))
    if function == R.ORIGINAL_UNICAST:
        return B.OriginalUnicastNPDU(_data(p["npdu"], as_pdu))
    if function == R.ORIGINAL_BROADCAST:
        return B.OriginalBroadcastNPDU(_data(p["npdu"], as_pdu))
    raise ValueError(function)


def params_of(function, m):
    if function == R.RESULT:
        return {"code": m.bvlciResultCode}
    if function in (R.WRITE_BDT, R.READ_BDT_ACK):
        return {"bdt": [canon_addr(a) + (getattr(a, "addrMask", "no-addrMask"),) for a in m.bvlciBDT]}
    if function in (R.READ_BDT, R.READ_FDT):
        return {}
    if function == R.FORWARDED_NPDU:
        return {"addr": canon_addr(m.bvlciAddress), "npdu": bytes(m.pduData)}
    if function == R.REGISTER_FD:
        return {"ttl": m.bvlciTimeToLive}
    if function == R.READ_FDT_ACK:
        return {"fdt": [canon_addr(e.fdAddress) + (e.fdTTL, e.fdRemain) for e in m.bvlciFDT]}
    if function == R.DELETE_FDT_ENTRY:
        return {"addr": canon_addr(m.bvlciAddress)}
    return {"npdu": bytes(m.pduData)}


def norm(p):
    out = {}
    for k, v in p.items():
        if k in ("bdt", "fdt"):
            out[k] = [tuple(e) for e in v]
        elif k == "addr":
            out[k] = tuple(v)
        elif k == "npdu":
            out[k] = bytes(v)
        else:
            out[k] = v
    return out


def diff_params(want, got):
    want, got = norm(want), norm(got)
    for k in sorted(want):
        if k not in got:
            return k, want[k], "absent"
        if got[k] != want[k]:
            if k in ("bdt", "fdt"):
                if len(got[k]) != len(want[k]):
                    return k + "-size", len(want[k]), len(got[k])
                for i, (w, g) in enumerate(zip(want[k], got[k])):
                    if w != g:
                        names = ("ip", "port", "mask") if k == "bdt" else ("ip", "port", "ttl", "remaining")
                        for nm, wi, gi in zip(names, w, g):
                            if wi != gi:
                                return "%s-entry-%s" % (k, nm), w, g
                        return k + "-entry", w, g
            return k, want[k], got[k]
        if isinstance(want[k], int) and type(got[k]) is not int:
            return k + "-type", want[k], repr(got[k])
    return None


def short(b, n=48):
    b = bytes(b)
    return b[:n].hex() + ("..(%d octets)" % len(b) if len(b) > n else "")


def show_p(p):
    out = {}
    for k, v in p.items():
        if isinstance(v, (bytes, bytearray)):
            out[k] = short(v, 16)
        elif k in ("bdt", "fdt") and len(v) > 3:
            out[k] = [list(e) for e in v[:3]] + ["... %d entries" % len(v)]
        else:
            out[k] = v
    return out


# ----------------------------------------------------------------------------- the codec between two recorders

class Above(Client):
    def __init__(self):
        Client.__init__(self)
        self.got = []

    def confirmation(self, pdu):
        self.got.append(pdu)


class Below(Server):
    def __init__(self):
        Server.__init__(self)
        self.got = []

    def indication(self, pdu):
        self.got.append(pdu)


_rig = []


def rig():
    """one AnnexJCodec between an upper and a lower recorder per process"""
    if not _rig:
        above, codec, below = Above(), AnnexJCodec(), Below()
        bind(above, codec, below)
        _rig.extend((above, codec, below))
    above, codec, below = _rig
    del above.got[:]
    del below.got[:]
    return above, codec, below


def segments(function, p):
    body = R.encode_body(function, p)
    return [("type", bytes([R.TYPE_BIP])), ("function", bytes([function])), ("length", R.u16(4 + len(body))), ("body", body)]


def first_difference(seg, got):
    want = b"".join(o for (_, o) in seg)
    got = bytes(got)
    n = min(len(want), len(got))
    for i in range(n):
        if want[i] != got[i]:
            break
    else:
        i = n
    pos = 0
    for name, o in seg:
        if i < pos + len(o):
            return name, i
        pos += len(o)
    return "extra-octets", i


# ----------------------------------------------------------------------------- oracles

def check_outbound(function, p, as_pdu):
    """-> (list of (signature, detail), reference octets)"""
    name = NAMES[function]
    seg = segments(function, p)
    want = b"".join(o for (_, o) in seg)
    where = {"function": name, "params": show_p(p), "payload_as": _form(as_pdu)}
    fails = []

    def compare(path, got):
        bad = R.header_ok(got)
        if bad is None and got[1] != function:
            bad = "function-octet"
        if bad is not None:
            fails.append(("%s:%s:emitted-frame-has-wrong-%s" % (path, name, bad),
                          dict(where, got=short(got), datagram_octets=len(got))))
        elif got != want:
            field, off = first_difference(seg, got)
            fails.append(("%s:%s:octets-differ-at:%s" % (path, name, field),
                          dict(where, offset=off, want=short(want), got=short(got))))

    # the class API
    try:
        m = build(function, p, as_pdu)
        x = B.BVLPDU()
        m.encode(x)
        pdu = PDU()
        x.encode(pdu)
        compare("encode", bytes(pdu.pduData))
        # the same message object sent again (one Write-BDT pushed to several BBMDs, a retransmitted ack): same octets
        for again in (2, 3):
            x = B.BVLPDU()
            m.encode(x)
            pdu2 = PDU()
            x.encode(pdu2)
            if bytes(pdu2.pduData) != bytes(pdu.pduData):
                fails.append(("encode:%s:encoding-number-%d-of-the-same-message-differs" % (name, again),
                              dict(where, first=short(bytes(pdu.pduData)), again=short(bytes(pdu2.pduData)))))
                break
    except Exception as err:
        fails.append(("encode:%s:raises-%s" % (name, type(err).__name__), dict(where, error=repr(err))))
    # through the codec
    above, codec, below = rig()
    try:
        above.request(build(function, p, as_pdu))
        if len(below.got) != 1:
            fails.append(("codec:%s:indication-emits-%d-frames" % (name, len(below.got)), where))
        else:
            compare("codec", bytes(below.got[0].pduData))
    except Exception as err:
        fails.append(("codec:%s:indication-raises-%s" % (name, type(err).__name__), dict(where, error=repr(err))))
    # inbound: the reference octets
    label, f = judge(want, expect=(function, p))
    if f is not None:
        fails.append(f)
    return fails, want


def judge(octets, expect=None):
    """any octet string as a received datagram.  -> (outcome label, None | (signature, detail))"""
    octets = bytes(octets)
    st, function, p, extra = R.decode(octets)
    if expect is not None:
        if st != R.OK or function != expect[0] or extra or diff_params(expect[1], p) is not None:
            raise AssertionError("reference does not invert its own encoding: %s" % octets.hex())
    what = {"octets": short(octets, 64), "datagram_octets": len(octets)}
    header_reason = extra if st == R.REFUSE and extra in ("shorter-than-bvlci", "type-octet", "length-field") else None

    # level 1: BVLPDU.decode
    try:
        x = B.BVLPDU()
        x.decode(PDU(octets))
        accepted = True
    except REFUSALS:
        accepted = False
    except Exception as err:
        return "bvlci:other-exception", ("bvlci:decode:raises-%s-on:%s" % (type(err).__name__, header_reason or "consistent-header"),
                                         dict(what, error=repr(err)))
    if header_reason is not None:
        if accepted:
            return "bvlci:accepted-inconsistent", ("bvlci:decode:accepts-wrong:%s" % header_reason,
                                                   dict(what, length_field=x.bvlciLength, type_octet=x.bvlciType))
        f = codec_refuses(octets, what, header_reason)
        return ("refused:%s" % header_reason), f
    if not accepted:
        if st == R.UNKNOWN:
            return "unknown-function:refused-at-bvlci", None
        return "bvlci:refused-consistent", ("bvlci:decode:refuses-frame-whose-type-and-length-agree",
                                            dict(what, function=octets[1]))
    got = (x.bvlciType, x.bvlciFunction, x.bvlciLength, bytes(x.pduData))
    exp = (R.TYPE_BIP, octets[1], len(octets), octets[4:])
    for nm, g, w in zip(("type", "function", "length", "body"), got, exp):
        if g != w:
            return "bvlci:misread", ("bvlci:decode:field-differs:%s" % nm, dict(what, want=repr(w)[:80], got=repr(g)[:80]))
    if st == R.UNKNOWN:
        return "unknown-function:not-judged-here", None

    # level 2: the message class from the registry
    name = NAMES[function]
    klass = B.bvl_pdu_types.get(function)
    if klass is None:
        return "registry:missing", ("registry:no-class-for-function-0x%02X" % function, dict(what, function=name))
    try:
        m = klass()
        m.decode(x)
        acc2 = True
    except REFUSALS:
        acc2 = False
    except Exception as err:
        return "bvll:other-exception", ("decode:%s:raises-%s" % (name, type(err).__name__), dict(what, error=repr(err)))
    if st == R.REFUSE:
        if acc2:
            return "bvll:accepted-short-body", ("decode:%s:accepts-%s" % (name, extra), what)
        f = codec_refuses(octets, what, extra)
        return "refused:0x%02X:%s" % (function, extra), f
    if not acc2:
        if extra:
            return "0x%02X:trailing-octets-refused" % function, None
        return "bvll:refused-valid", ("decode:%s:refuses-well-formed-frame" % name, what)
    f = check_decoded(m, function, p, octets, what, "decode")
    if f is not None:
        return "bvll:misread", f
    if not extra:
        # the decoded message encodes back to the datagram
        try:
            x2 = B.BVLPDU()
            m.encode(x2)
            pdu2 = PDU()
            x2.encode(pdu2)
            again = bytes(pdu2.pduData)
        except Exception as err:
            return "bvll:reencode-raises", ("reencode-of-decoded:%s:raises-%s" % (name, type(err).__name__), dict(what, error=repr(err)))
        if again != octets:
            field, off = first_difference(segments(function, p), again)
            return "bvll:reencode-differs", ("reencode-of-decoded:%s:octets-differ-at:%s" % (name, field),
                                             dict(what, got=short(again, 64), offset=off))
        # the same datagram through the codec
        above, codec, below = rig()
        try:
            below.response(PDU(octets))
        except Exception as err:
            return "codec:raises", ("codec:%s:confirmation-raises-%s" % (name, type(err).__name__), dict(what, error=repr(err)))
        if len(above.got) != 1:
            return "codec:count", ("codec:%s:confirmation-delivers-%d-messages" % (name, len(above.got)), what)
        f = check_decoded(above.got[0], function, p, octets, what, "codec")
        if f is not None:
            return "codec:misread", f
    return "0x%02X:ok%s" % (function, "+trailing" if extra else ""), None


def check_decoded(m, function, p, octets, what, path):
    name = NAMES[function]
    if type(m).__name__ != name:
        return ("registry:function-0x%02X-decoded-by-%s" % (function, type(m).__name__), dict(what, function=name))
    try:
        gp = params_of(function, m)
    except Exception as err:
        return ("%s:%s:decoded-object-lacks-parameter" % (path, name), dict(what, error=repr(err)))
    d = diff_params(p, gp)
    if d is not None:
        return ("%s:%s:param-differs:%s" % (path, name, d[0]), dict(what, want=repr(d[1])[:160], got=repr(d[2])[:160]))
    hdr = (m.bvlciType, m.bvlciFunction, m.bvlciLength)
    if hdr != (R.TYPE_BIP, function, len(octets)):
        return ("%s:%s:decoded-header-fields-differ" % (path, name), dict(what, got=list(hdr), want=[R.TYPE_BIP, function, len(octets)]))
    return None


def codec_refuses(octets, what, reason):
    """a frame that must be refused, through AnnexJCodec.confirmation: a refusal exception and nothing delivered"""
    above, codec, below = rig()
    try:
        below.response(PDU(octets))
    except REFUSALS:
        if above.got:
            return ("codec:confirmation-delivers-before-refusing:%s" % reason, what)
        return None
    except Exception as err:
        return ("codec:confirmation-raises-%s-on:%s" % (type(err).__name__, reason), dict(what, error=repr(err)))
    return ("codec:confirmation-accepts:%s" % reason, dict(what, delivered=[type(g).__name__ for g in above.got]))


def record(acc, label, f, case):
    acc.outcome(label)
    if f is not None:
        acc.fail(f[0], f[1], case)


# ----------------------------------------------------------------------------- alphabets

def payload(length, seed):
    return bytes(((i * 11 + 0x83 + seed) & 0xFF) for i in range(length))


def alphabet(tier, seed):
    q = tier == "quick"
    ips = ["0.0.0.0", "1.2.3.4", "255.255.255.255"] + ([] if q else ["127.0.0.1", "192.168.0.255", "10.20.30.40"])
    ports = [0, 1, 47808, 65535] + ([] if q else [255, 256, 47809])
    masks = [0x00000000, 0xFFFFFFFF, 0xFFFFFF00, 0xFF000000, 0x00000001, 0x80000000, 0x01020304] + \
        ([] if q else [0xFFFF0000, 0x7FFFFFFF, 0xFFFFFFFE])
    ttls = [0, 1, 30, 65535] + ([] if q else [255, 256])
    rems = [0, 1, 35, 65535] + ([] if q else [255, 256])
    return {
        "addrs": [(ip, port) for ip in ips for port in ports],
        "masks": masks, "ttls": ttls, "rems": rems,
        "codes": [0x0000, 0x0010, 0x0020, 0x0030, 0x0040, 0x0050, 0x0060, 0x0001, 0x00FF, 0x0100, 0xFFFF],
        "regttls": [0, 1, 30, 255, 256, 65535],
        "npdulens": [0, 1, 2, 1496, 1497],
    }


def rotate(lst, k):
    k %= len(lst)
    return lst[k:] + lst[:k]


def outbound_cases(tier, seed):
    """(function, params, payload handed over as PDU?)"""
    a = alphabet(tier, seed)
    out = []
    for c in a["codes"]:
        out.append((R.RESULT, {"code": c}, False))
    for t in a["regttls"]:
        out.append((R.REGISTER_FD, {"ttl": t}, False))
    out.append((R.READ_BDT, {}, False))
    out.append((R.READ_FDT, {}, False))
    for ad in a["addrs"]:
        out.append((R.DELETE_FDT_ENTRY, {"addr": ad}, False))
        for ln in a["npdulens"]:
            for as_pdu in FORMS:
                out.append((R.FORWARDED_NPDU, {"addr": ad, "npdu": payload(ln, seed)}, as_pdu))
    for fn in (R.DISTRIBUTE_BROADCAST, R.ORIGINAL_UNICAST, R.ORIGINAL_BROADCAST):
        for ln in a["npdulens"]:
            for as_pdu in FORMS:
                out.append((fn, {"npdu": payload(ln, seed)}, as_pdu))
    # every NPDU length 0..1497 once per NPDU-carrying function
    for ln in range(0, 1498):
        out.append((R.FORWARDED_NPDU, {"addr": a["addrs"][ln % len(a["addrs"])], "npdu": payload(ln, seed)}, FORMS[ln % 3]))
        for fn in (R.DISTRIBUTE_BROADCAST, R.ORIGINAL_UNICAST, R.ORIGINAL_BROADCAST):
            out.append((fn, {"npdu": payload(ln, seed)}, FORMS[(ln + fn) % 3]))
    bdt_entries = rotate([(ip, port, mask) for (ip, port) in a["addrs"] for mask in a["masks"]], seed)
    fdt_entries = rotate([(ip, port, ttl, rem) for (ip, port) in a["addrs"] for ttl in a["ttls"] for rem in a["rems"]], seed)
    # entries neighbouring in the list differ in the fastest-moving field only; stride through the list so that a table
    # mixes addresses, and let every entry appear at every position of every table size
    for n in range(0, 41):
        for fn in (R.WRITE_BDT, R.READ_BDT_ACK):
            for start in range(len(bdt_entries) if n else 1):
                out.append((fn, {"bdt": [bdt_entries[(start + i * 5) % len(bdt_entries)] for i in range(n)]}, False))
        for start in range(len(fdt_entries) if n else 1):
            out.append((R.READ_FDT_ACK, {"fdt": [fdt_entries[(start + i * 7) % len(fdt_entries)] for i in range(n)]}, False))
    return out


def trunc_cases(tier, seed):
    """frames whose every prefix is judged"""
    a = alphabet(tier, seed)
    ad = a["addrs"][5 % len(a["addrs"])]
    out = [(R.RESULT, {"code": 0x0030}), (R.REGISTER_FD, {"ttl": 300}), (R.READ_BDT, {}), (R.READ_FDT, {}),
           (R.DELETE_FDT_ENTRY, {"addr": ad})]
    for ln in a["npdulens"] + [7]:
        out.append((R.FORWARDED_NPDU, {"addr": ad, "npdu": payload(ln, seed)}))
        for fn in (R.DISTRIBUTE_BROADCAST, R.ORIGINAL_UNICAST, R.ORIGINAL_BROADCAST):
            out.append((fn, {"npdu": payload(ln, seed)}))
    for n in (0, 1, 2, 3, 7, 40):
        e = [(a["addrs"][(i + 1) % len(a["addrs"])][0], a["addrs"][(i + 1) % len(a["addrs"])][1], a["masks"][i % len(a["masks"])])
             for i in range(n)]
        out.append((R.WRITE_BDT, {"bdt": e}))
        out.append((R.READ_BDT_ACK, {"bdt": e}))
        out.append((R.READ_FDT_ACK, {"fdt": [(ip, port, 30 + i, 5 + i) for i, (ip, port, _) in enumerate(e)]}))
    return out


INBOUND_BODY_LENGTHS = [0, 1, 2, 3, 4, 5, 6, 7, 8, 9, 10, 11, 12, 16, 19, 20, 21, 26, 30, 400, 1497]
TYPE_OCTETS = [0x81, 0x80, 0x82, 0x01, 0x00, 0xFF, 0x18]


def length_values(n):
    return sorted(set([v for v in range(n - 3, n + 4) if 0 <= v <= 0xFFFF] + [0, 0xFFFF]))


# ----------------------------------------------------------------------------- shards

class Stop(Exception):
    pass


class Poller(object):
    def __init__(self, acc, deadline, what, every=500):
        self.acc, self.deadline, self.what, self.every, self.n = acc, deadline, what, every, 0

    def __call__(self, k=1):
        self.n += k
        if self.n >= self.every:
            self.n = 0
            if time.time() > self.deadline:
                self.acc.cap("%s: deadline reached inside a shard" % self.what)
                raise Stop()


def shard_enc(item, deadline):
    acc = Acc()
    poll = Poller(acc, deadline, "enc", 200)
    n = 0
    try:
        for function, p, as_pdu in item:
            fails, want = check_outbound(function, p, as_pdu)
            acc.case(h64(_form(as_pdu).encode() + want))
            acc.outcome("enc:0x%02X:%s" % (function, "ok" if not fails else "mismatch"))
            for sig, det in fails:
                acc.fail(sig, det, {"k": "out", "function": function, "p": p, "as_pdu": as_pdu})
            n += 1
            poll(1 + len(want) // 100)
    except Stop:
        pass
    acc.add_info("outbound cases", n)
    return acc


def shard_trunc(item, deadline):
    acc = Acc()
    poll = Poller(acc, deadline, "trunc")
    seen = set()
    n = 0
    try:
        for function, p in item:
            want = R.encode(function, p)
            body = want[4:]
            cands = [want[:k] for k in range(len(want))]                 # datagram cut, length field untouched
            cands += [R.frame(function, body[:k]) for k in range(len(body))]     # body cut, length field consistent
            cands += [want + payload(k, 1) for k in (1, 2, 3)]            # octets appended, length field untouched
            for s in cands:
                if s in seen:
                    continue
                seen.add(s)
                label, f = judge(s)
                acc.case(h64(b"I" + s))
                record(acc, "in:" + label, f, {"k": "in", "octets": s})
                n += 1
                poll()
    except Stop:
        pass
    acc.add_info("truncated/extended frames", n)
    return acc


def shard_in(item, deadline):
    """item = (list of (body length, function code), type octets, seed)"""
    pairs, types, seed = item
    acc = Acc()
    poll = Poller(acc, deadline, "in")
    n = 0
    try:
        for blen, function in pairs:
            body = payload(blen, seed + function)
            for lv in length_values(4 + blen):
                for t in types:
                    s = R.frame(function, body, type_octet=t, length=lv)
                    label, f = judge(s)
                    acc.case(h64(b"I" + s))
                    record(acc, "in:" + label, f, {"k": "in", "octets": s})
                    n += 1
                    poll()
    except Stop:
        pass
    acc.add_info("inbound frames", n)
    return acc


SHORT_THIRD = (0x00, 0x01, 0x02, 0x03, 0x04, 0x05, 0x06, 0x0A, 0x0B, 0x0C, 0x7F, 0x80, 0x81, 0xFD, 0xFE, 0xFF)


def short_key(s):
    """what makes a short string a distinct non-trivial case: strings refused at the type octet count once per
    (length, first octet), 4-octet strings refused at the length field once per (type, function)"""
    if s and s[0] != R.TYPE_BIP:
        return b"S" + bytes([len(s)]) + s[:1]
    if len(s) == 4 and s[2:] != b"\x00\x04":
        return b"S4" + s[:2]
    return b"I" + s


def shard_short(item, deadline):
    """item = list of (length, prefix[, last octets])"""
    acc = Acc()
    n = 0
    try:
        for ent in item:
            length, prefix = ent[0], ent[1]
            free = length - len(prefix)
            tails = [bytes([o]) for o in ent[2]] if len(ent) > 2 else (v.to_bytes(free, "big") for v in range(256 ** free))
            for tail in tails:
                s = prefix + tail
                label, f = judge(s)
                acc.evaluations += 1
                acc.keys.add(h64(short_key(s)))
                record(acc, "in:" + label, f, {"k": "in", "octets": s})
                n += 1
                if n % 4096 == 0 and time.time() > deadline:
                    acc.cap("short: deadline reached inside a shard")
                    raise Stop()
    except Stop:
        pass
    acc.add_info("short strings", n)
    return acc


def check_addr(ip, port):
    """pack_ip_addr / unpack_ip_addr against J.1.2.  -> None | (signature, detail)"""
    want = R.bip_address(ip, port)
    try:
        got = pack_ip_addr((ip, port))
    except Exception as err:
        return ("addr:pack_ip_addr-raises-%s" % type(err).__name__, {"ip": ip, "port": port, "error": repr(err)})
    if bytes(got) != want:
        return ("addr:pack_ip_addr-octets-differ", {"ip": ip, "port": port, "want": want.hex(), "got": bytes(got).hex()})
    for form in (bytes, bytearray):
        try:
            back = unpack_ip_addr(form(want))
        except Exception as err:
            return ("addr:unpack_ip_addr-raises-%s" % type(err).__name__, {"octets": want.hex(), "error": repr(err)})
        if tuple(back) != (ip, port):
            return ("addr:unpack_ip_addr-differs", {"octets": want.hex(), "want": [ip, port], "got": list(back)})
    return None


def shard_addr(item, deadline):
    acc = Acc()
    n = 0
    try:
        for ip, ports in item:
            for port in ports:
                f = check_addr(ip, port)
                acc.case(h64(b"A" + R.bip_address(ip, port)))
                record(acc, "addr:" + ("ok" if f is None else "mismatch"), f, {"k": "addr", "ip": ip, "port": port})
                n += 1
                if n % 4096 == 0 and time.time() > deadline:
                    acc.cap("addr: deadline reached inside a shard")
                    raise Stop()
    except Stop:
        pass
    acc.add_info("address conversions", n)
    return acc


# ----------------------------------------------------------------------------- entry points

# ----------------------------------------------------------------------------- part hist: decoded messages are independent

def hist_param_sets():
    a1, a2 = ("1.2.3.4", 47808), ("192.168.0.254", 1)
    return {
        R.RESULT: [{"code": 0}, {"code": 0x30}, {"code": 0x60}],
        R.WRITE_BDT: [{"bdt": []}, {"bdt": [a1 + (0xFFFFFF00,)]}, {"bdt": [a2 + (0xFFFFFFFF,), a1 + (0,)]}],
        R.READ_BDT_ACK: [{"bdt": []}, {"bdt": [a2 + (0xFFFFFFFF,)]}, {"bdt": [a1 + (0xFFFF0000,), a2 + (0xFFFFFF00,)]}],
        R.FORWARDED_NPDU: [{"addr": a1, "npdu": b""}, {"addr": a2, "npdu": b"\x01\x00\x10\x08"}, {"addr": a1, "npdu": b"\x01\x20\xff\xff\x00\xff\x10\x00"}],
        R.REGISTER_FD: [{"ttl": 0}, {"ttl": 30}, {"ttl": 65535}],
        R.READ_FDT_ACK: [{"fdt": []}, {"fdt": [a1 + (30, 5)]}, {"fdt": [a2 + (60, 65), a1 + (1, 0)]}],
        R.DELETE_FDT_ENTRY: [{"addr": a1}, {"addr": a2}, {"addr": ("255.255.255.255", 65535)}],
        R.DISTRIBUTE_BROADCAST: [{"npdu": b""}, {"npdu": b"\x01\x00\x10\x08"}, {"npdu": b"\x01\x04"}],
        R.ORIGINAL_UNICAST: [{"npdu": b""}, {"npdu": b"\x01\x00\x10\x08"}, {"npdu": b"\x01\x04"}],
        R.ORIGINAL_BROADCAST: [{"npdu": b""}, {"npdu": b"\x01\x00\x10\x08"}, {"npdu": b"\x01\x04"}],
    }


def _decode_like_the_codec(octets):
    """what AnnexJCodec.confirmation does: interpret the header, then a default-constructed message of the registered class"""
    x = B.BVLPDU()
    x.decode(PDU(bytes(octets)))
    m = B.bvl_pdu_types[x.bvlciFunction]()
    m.decode(x)
    return m


def hist_case(function, sets, order):
    """Decode the frames of `order` one after the other, keep every decoded message, then look at all of them again and
    at a message built without arguments.  -> None | (signature, detail)"""
    kept = []
    for k in order:
        try:
            m = _decode_like_the_codec(R.encode(function, sets[k]))
        except Exception as err:
            return ("history:%s:decode-raises-%s" % (NAMES[function], type(err).__name__), {"order": list(order), "error": repr(err)})
        kept.append((k, m))
    for pos, (k, m) in enumerate(kept):
        d = diff_params(sets[k], params_of(function, m))
        if d is not None:
            return ("history:%s:earlier-or-later-decode-changed-a-kept-message:%s" % (NAMES[function], d[0]),
                    {"decoded_in_order": [show_p(sets[j]) for j in order], "message_number": pos, "holds_now": show_p(params_of(function, m))})
    # a message built without arguments after all that still is the empty one
    if function in (R.WRITE_BDT, R.READ_BDT_ACK, R.READ_FDT_ACK):
        try:
            fresh = B.bvl_pdu_types[function]()
            x = B.BVLPDU()
            fresh.encode(x)
            out = PDU()
            x.encode(out)
            octets = bytes(out.pduData)
        except Exception as err:
            return ("history:%s:default-message-does-not-encode:%s" % (NAMES[function], type(err).__name__), {"order": list(order)})
        want = R.encode(function, {"bdt": []} if function != R.READ_FDT_ACK else {"fdt": []})
        if octets != want:
            return ("history:%s:default-message-carries-entries-of-an-earlier-decode" % NAMES[function],
                    {"decoded_before": [show_p(sets[j]) for j in order], "emitted": short(octets), "want": short(want)})
    return None


def reuse_decode_case(function, sets, order):
    """The frames of `order` decoded one after the other into ONE message object of the function's class (a receiver that
    keeps a scratch object): afterwards it holds the last frame's parameters and encodes to the last frame.
    -> None | (signature, detail)"""
    try:
        m = B.bvl_pdu_types[function]()
        for k in order:
            x = B.BVLPDU()
            x.decode(PDU(bytes(R.encode(function, sets[k]))))
            m.decode(x)
        got = params_of(function, m)
        y = B.BVLPDU()
        m.encode(y)
        out = PDU()
        y.encode(out)
        octets = bytes(out.pduData)
    except Exception as err:
        return ("reuse:%s:raises-%s" % (NAMES[function], type(err).__name__), {"order": list(order), "error": repr(err)})
    last = sets[order[-1]]
    d = diff_params(last, got)
    if d is not None:
        return ("reuse:%s:object-decoded-into-again-keeps-something-of-the-frame-before:%s" % (NAMES[function], d[0]),
                {"decoded_in_order": [show_p(sets[j]) for j in order], "holds_now": show_p(got)})
    want = R.encode(function, last)
    if octets != want:
        return ("reuse:%s:re-encoding-after-second-decode-differs" % NAMES[function],
                {"decoded_in_order": [show_p(sets[j]) for j in order], "emitted": short(octets), "want": short(want)})
    return None


def _set_params(function, m, p):
    """give an existing message object other parameters (an application that keeps one object and sends it repeatedly)"""
    if function == R.RESULT:
        m.bvlciResultCode = p["code"]
    elif function in (R.WRITE_BDT, R.READ_BDT_ACK):
        m.bvlciBDT = [mk_addr(*e) for e in p["bdt"]]
    elif function == R.FORWARDED_NPDU:
        m.bvlciAddress = mk_addr(*p["addr"])
        m.pduData = bytearray(p["npdu"])
    elif function == R.REGISTER_FD:
        m.bvlciTimeToLive = p["ttl"]
    elif function == R.READ_FDT_ACK:
        m.bvlciFDT = _fdt(p["fdt"])
    elif function == R.DELETE_FDT_ENTRY:
        m.bvlciAddress = mk_addr(*p["addr"])
    else:
        m.pduData = bytearray(p["npdu"])


def send_hist_case(function, sets, order):
    """ONE message object sent through ONE codec several times, its parameters changed in between: every frame carries
    what the object held when it was sent.  -> None | (signature, detail)"""
    above, codec, below = Above(), AnnexJCodec(), Below()
    bind(above, codec, below)
    m = None
    for pos, k in enumerate(order):
        try:
            if m is None:
                m = build(function, sets[k])
            else:
                _set_params(function, m, sets[k])
            m.pduDestination = ("10.0.0.%d" % (pos + 1), 47808)
            above.request(m)
        except EncodingError:
            # the table messages fix their length when they are built: a table changed afterwards is refused loudly
            # at encode ("length verified at encode"), which is fine; what may not happen is a silent stale frame
            if pos > 0 and len(below.got) == pos:
                return None
            return ("send-history:%s:raises-EncodingError-on-the-first-send" % NAMES[function], {"order": list(order)})
        except Exception as err:
            return ("send-history:%s:raises-%s" % (NAMES[function], type(err).__name__), {"order": list(order), "error": repr(err)})
        if len(below.got) != pos + 1:
            return ("send-history:%s:send-number-%d-emits-%d-frames" % (NAMES[function], pos + 1, len(below.got) - pos), {"order": list(order)})
        got = bytes(below.got[pos].pduData)
        want = R.encode(function, sets[k])
        if got != want:
            return ("send-history:%s:frame-does-not-carry-what-the-message-held-when-sent" % NAMES[function],
                    {"sent_in_order": [show_p(sets[j]) for j in order], "send_number": pos + 1, "emitted": short(got), "want": short(want)})
        if below.got[pos].pduDestination != m.pduDestination:
            return ("send-history:%s:frame-addressed-elsewhere" % NAMES[function], {"order": list(order), "send_number": pos + 1})
    return None


def shard_hist(item, deadline):
    import itertools as it
    acc = Acc()
    sets_by_fn = hist_param_sets()
    for function in item:
        sets = sets_by_fn[function]
        for n in (2, 3):
            for order in it.product(range(len(sets)), repeat=n):
                bad = reuse_decode_case(function, sets, order)
                acc.case(("reuse", function, order))
                acc.outcome("reuse:%s" % ("clean" if bad is None else "stale"))
                if bad is not None:
                    acc.fail(bad[0], bad[1], {"kind": "reuse", "function": function, "order": list(order)})
        for n in (2, 3):
            for order in it.product(range(len(sets)), repeat=n):
                bad = send_hist_case(function, sets, order)
                acc.case(("send-hist", function, order))
                acc.outcome("send-hist:%s" % ("faithful" if bad is None else "stale"))
                if bad is not None:
                    acc.fail(bad[0], bad[1], {"kind": "send-hist", "function": function, "order": list(order)})
        for n in (1, 2, 3):
            for order in it.product(range(len(sets)), repeat=n):
                bad = hist_case(function, sets, order)
                acc.case(("hist", function, order))
                acc.outcome("hist:%s" % ("independent" if bad is None else "aliased"))
                if bad is not None:
                    acc.fail(bad[0], bad[1], {"kind": "hist", "function": function, "order": list(order)})
    return acc


def timed(acc, name, t0):
    acc.info["wall_s " + name] = round(time.time() - t0, 1)


def run(tier, seed, deadline):
    acc = Acc()
    q = tier == "quick"

    # reference self-check against the worked example of the unit tests' own hex (harness sanity)
    assert R.encode(R.WRITE_BDT, {"bdt": [("192.168.0.254", 47808, 0xFFFFFF00)]}) == bytes.fromhex("8101000ec0a800febac0ffffff00")
    assert R.decode(bytes.fromhex("810700" "0e" "01020304bac0" "001e" "0005"))[2] == {"fdt": [("1.2.3.4", 47808, 30, 5)]}

    # part addr
    t0 = time.time()
    items = []
    for ip in ["0.0.0.0", "1.2.3.4", "255.255.255.255"]:
        for lo in range(0, 65536, 8192):
            items.append([(ip, list(range(lo, lo + 8192)))])
    octs = [0, 1, 127, 128, 254, 255] if q else list(range(256))
    for pos in range(4):
        ips = []
        for v in octs:
            parts = ["1", "2", "3", "4"]
            parts[pos] = str(v)
            ips.append((".".join(parts), [0, 47808, 65535]))
        items.append(ips)
    run_shards(shard_addr, items, deadline, into=acc)
    timed(acc, "addr", t0)

    # part enc
    t0 = time.time()
    cases = outbound_cases(tier, seed)
    run_shards(shard_enc, chunks(cases, 128), deadline, into=acc)
    timed(acc, "enc", t0)

    # part trunc
    t0 = time.time()
    tc = trunc_cases(tier, seed)
    run_shards(shard_trunc, chunks(tc, 32), deadline, into=acc)
    timed(acc, "trunc", t0)

    # part in
    t0 = time.time()
    pairs = [(bl, fn) for bl in INBOUND_BODY_LENGTHS for fn in range(256)]
    items = [(c, TYPE_OCTETS, seed) for c in chunks(pairs, 64)]
    if not q:
        rest = [t for t in range(256) if t not in TYPE_OCTETS]
        small = [(bl, fn) for bl in (0, 2, 6, 10, 20) for fn in range(256)]
        items += [(c, rest, seed) for c in chunks(small, 64)]
    run_shards(shard_in, items, deadline, into=acc)
    timed(acc, "in", t0)

    # part short
    t0 = time.time()
    items = [[(0, b""), (1, b""), (2, b"")]]
    for first in range(256):
        if first == R.TYPE_BIP:
            for second in range(0, 256, 16):
                items.append([(3, bytes([first, s2])) for s2 in range(second, second + 16)])
        elif not q:
            items.append([(3, bytes([first]))])
        else:
            items.append([(3, bytes([first, s2]), SHORT_THIRD) for s2 in range(256)])
    if not q:
        for second in range(256):
            items.append([(4, bytes([R.TYPE_BIP, second]))])
    run_shards(shard_short, items, deadline, into=acc)
    timed(acc, "short", t0)

    # part hist
    t0 = time.time()
    run_shards(shard_hist, [[f] for f in sorted(hist_param_sets())], deadline, into=acc)
    timed(acc, "hist", t0)

    samples(acc, cases, tc, seed)
    return acc


def samples(acc, cases, tc, seed):
    for idx in ((17 + seed) % len(cases), (len(cases) // 2 + 31 * seed) % len(cases)):
        function, p, as_pdu = cases[idx]
        fails, want = check_outbound(function, p, as_pdu)
        acc.sample({"part": "enc", "function": NAMES[function], "params": show_p(p), "payload_as": _form(as_pdu),
                    "reference_octets": short(want, 40), "failures": fails})
    function, p = tc[(4 + seed) % len(tc)]
    want = R.encode(function, p)
    for s, part in ((want[:-1], "trunc (datagram cut)"), (R.frame(function, want[4:-1]), "trunc (body cut, length consistent)"),
                    (R.frame(0x0C, want[4:]), "in (function 0x0C)"),
                    (R.frame(function, want[4:], length=len(want) + 1), "in (length field + 1)")):
        st, fn, pp, extra = R.decode(s)
        acc.sample({"part": part, "octets": short(s, 40), "reference": [st, extra], "observed": judge(s)[0]})


def replay(case):
    if case.get("kind") == "reuse":
        f = reuse_decode_case(int(case["function"]), hist_param_sets()[int(case["function"])], tuple(case["order"]))
        return f is None, "frames %r of %s decoded into one message object -> %r" % (case["order"], NAMES[int(case["function"])], f or "holds the last frame")
    if case.get("kind") == "send-hist":
        f = send_hist_case(int(case["function"]), hist_param_sets()[int(case["function"])], tuple(case["order"]))
        return f is None, "one %s object sent through one codec with parameter sets %r in turn -> %r" % (
            NAMES[int(case["function"])], case["order"], f or "every frame carries what the object held")
    if case.get("kind") == "hist":
        f = hist_case(int(case["function"]), hist_param_sets()[int(case["function"])], tuple(case["order"]))
        return f is None, "decode %s frames in order %r, then look at all kept messages and a default one -> %r" % (
            NAMES[int(case["function"])], case["order"], f or "independent")
    k = case["k"]
    if k == "in":
        label, f = judge(case["octets"])
        st, fn, p, extra = R.decode(case["octets"])
        return f is None, "datagram=%s reference=%s %s -> %s %s" % (short(case["octets"], 80), st, extra if st != R.OK else "", label, f or "")
    if k == "out":
        p = norm(case["p"])
        fails, want = check_outbound(int(case["function"]), p, case["as_pdu"])
        return not fails, "function=%s params=%r reference octets=%s -> %r" % (
            NAMES[int(case["function"])], show_p(p), short(want, 64), fails or "agrees")
    if k == "addr":
        f = check_addr(case["ip"], int(case["port"]))
        return f is None, "(%s, %s) -> %r" % (case["ip"], case["port"], f or "agrees")
    return False, "unknown case kind %r" % (k,)
