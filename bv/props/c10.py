"""C10 A device answers every well-framed request and stays healthy under garbage.

E3: every single-octet substitution (all 256 values), truncation and one-octet insertion of one valid frame per
    service, at the LAN level and at the B/IP level, each on a fresh real device; reply oracle + health oracle.
E1: all short sequences of representative garbage frames interleaved with one valid request at the same instant
    (one task per frame, or one batch of deferred calls as the UDP director hands them over).
Dialogues: every mutation of the tester's reply while the device is in the middle of a segmented response or waits for
    the acknowledgement of a confirmed notification.
"""
import itertools
import time

import bv  # noqa: F401
from bv.engine import vclock
from bv.engine.acc import Acc
from bv.engine.pool import run_shards, chunks, HarnessError
from bv.refs import ssmwire, devref
from bv.stacks.device import Device

PROPERTY = "C10"
LEVEL = "model_checking"
BUDGET = {"quick": 120.0, "thorough": 1500.0}
RULE = ("mutations: for each base frame (one per service, LAN and B/IP level) every single-octet substitution with all 256 "
        "values, every truncation and every one-octet insertion from 8 values, each delivered to a fresh real device that is "
        "then run to quiescence (all timers), followed by a valid ReadProperty probe; histories: every ordered sequence of <=2 "
        "(thorough 3) frames from the pool of representative garbage frames (one per distinct failure/handling signature of the "
        "mutation pass) together with one valid request in every position, delivered in the same instant with and without "
        "settling in between.  Distinct = distinct frame octets / frame sequence.")
ASSUMPTIONS = [
    "single thread; virtual clock; frames are injected below the device's vlan node / faux UDP multiplexer (no real sockets)",
    "well-framedness is decided by an independent header parser (devref.py); frames with a destination specifier, segmented "
    "requests, reserved header bits or a reserved max-APDU code are judged by the health oracle only",
    "the tester never answers what the device sends (confirmed COV notifications time out)",
]
BOUNDS = {
    "quick": "12 base frames x 2 levels, all substitutions/truncations/insertions; histories of <=2 garbage frames + 1 valid request",
    "thorough": "same mutations plus double substitutions in the APDU header region; histories of <=3 garbage frames",
}

H = bytes.fromhex
NP_REQ = "0104"
NP_UNC = "0100"
BASES = {
    "ReadProperty": H(NP_REQ + "0005010C" + "0C02000001" + "194D"),
    "ReadProperty-index": H(NP_REQ + "0005020C" + "0C02000001" + "194C" + "2900"),
    "WriteProperty": H(NP_REQ + "0005030F" + "0C00800001" + "1955" + "3E" + "4440000000" + "3F"),
    "ReadPropertyMultiple": H(NP_REQ + "0005040E" + "0C02000001" + "1E" + "094D" + "091C" + "1F"),
    "SubscribeCOV": H(NP_REQ + "00050505" + "0901" + "1C00800001" + "2900" + "3905"),
    "SubscribeCOV-confirmed": H(NP_REQ + "00050805" + "0902" + "1C01400001" + "2901" + "3903"),
    "AtomicReadFile": H(NP_REQ + "00050606" + "C402800001" + "0E" + "3100" + "210A" + "0F"),
    "AtomicWriteFile": H(NP_REQ + "00050C07" + "C402800001" + "0E" + "3100" + "63616263" + "0F"),
    "PrivateTransfer-acknowledged": H(NP_REQ + "00050D12" + "0903" + "1901"),
    "PrivateTransfer-application-raises-abort": H(NP_REQ + "00050E12" + "0903" + "1902"),
    "PrivateTransfer-application-sends-abort": H(NP_REQ + "00050F12" + "0903" + "1903"),
    "PrivateTransfer-application-raises-reject": H(NP_REQ + "00051012" + "0903" + "1904"),
    "PrivateTransfer-application-raises-error": H(NP_REQ + "00051112" + "0903" + "1905"),
    "unregistered-service": H(NP_REQ + "00050755" + "0901"),
    "DeviceCommunicationControl": H(NP_REQ + "00050A11" + "1900"),
    "DeviceCommunicationControl-full": H(NP_REQ + "00050B11" + "0901" + "1900" + "2A0061"),
    "ReadProperty-routed-source": H("010C" + "0007" + "01" + "21" + "0005090C" + "0C02000001" + "194D"),
    "WhoIs": H(NP_UNC + "1008" + "0900" + "1903"),
    "IAm": H(NP_UNC + "1000" + "C402000009" + "2201E0" + "9103" + "210F"),
    "IHave": H(NP_UNC + "1001" + "C402000009" + "C400800001" + "7400617631"),
    "UnconfirmedPrivateTransfer": H(NP_UNC + "1004" + "0903" + "1901"),
    "UnconfirmedTextMessage": H(NP_UNC + "1005" + "0C02000009" + "2900" + "3B006869"),
    "TimeSynchronization": H(NP_UNC + "1006" + "A47E091A06" + "B40C000000"),
    "WhoHas": H(NP_UNC + "1007" + "3C00617631"),
    "UTCTimeSynchronization": H(NP_UNC + "1009" + "A47E091A06" + "B40C000000"),
    "UnconfirmedCOVNotification": H(NP_UNC + "1002" + "0901" + "1C02000009" + "2C00800001" + "3900" + "4E" + "0955" + "2E" + "4400000000" + "2F" + "4F"),
}
# valid requests that say "segmented response accepted" (used by the pair part only): the three kinds of short reply
PAIR_EXTRA = {
    "WriteProperty-sa": H(NP_REQ + "0205120F" + "0C00800001" + "1955" + "3E" + "4440000000" + "3F"),          # SimpleAck
    "ReadProperty-unknown-object-sa": H(NP_REQ + "0205130C" + "0C00800063" + "194D"),                          # Error
    "unregistered-service-sa": H(NP_REQ + "02051455" + "0901"),                                                 # Reject
    "IAm-both": H(NP_UNC + "1000" + "C402000009" + "2201E0" + "9100" + "210F"),                                 # segmentedBoth
}
VALID = H(NP_REQ + "0005630C" + "0C02000001" + "194D")                 # the valid request of the histories, invoke 99
PROBE = H(NP_REQ + "0005C80C" + "0C02000001" + "194D")                 # ReadProperty device,1 objectName, invoke 200
# the same read arriving through a router (second station) on behalf of station 0x21 on network 7, invoke 201
PROBE_ROUTED = H("010C" + "0007" + "01" + "21" + "0005C90C" + "0C02000001" + "194D")
PROBE_ROUTED_REPLY = H("0120" + "0007" + "01" + "21" + "FF" + "30C90C" + "0C02000001" + "194D" + "3E" + "7400646576" + "3F")
PROBE_REPLY_APDU = H("30C80C" + "0C02000001" + "194D" + "3E" + "7400646576" + "3F")   # ComplexAck "dev"
DCC_ENABLE = H(NP_REQ + "0005CA11" + "1900")                          # DeviceCommunicationControl enable, invoke 202
INSERT_VALUES = (0x00, 0x01, 0x0E, 0x0F, 0x1E, 0x3E, 0x3F, 0xFF)


def wrap(level, npdu):
    if level == "lan":
        return npdu
    return bytes([0x81, 0x0A]) + (len(npdu) + 4).to_bytes(2, "big") + npdu


def mutations(frame):
    seen = {frame}
    yield ("orig", frame)
    for i in range(len(frame)):
        for v in range(256):
            m = frame[:i] + bytes([v]) + frame[i + 1:]
            if m not in seen:
                seen.add(m)
                yield ("sub", m)
    for i in range(len(frame)):
        m = frame[:i]
        if m not in seen:
            seen.add(m)
            yield ("trunc", m)
    for i in range(len(frame) + 1):
        for v in INSERT_VALUES:
            m = frame[:i] + bytes([v]) + frame[i:]
            if m not in seen:
                seen.add(m)
                yield ("ins", m)


def replies_of(dev, level, start):
    """Parsed frames the device sent after log position `start`: list of (dst, npdu dict, apdu dict or None, octets)."""
    out = []
    for (dst, data) in dev.sent()[start:]:
        npdu = data if level == "lan" else devref.strip_bvll(data)
        if npdu is None:
            out.append((dst, None, None, data))
            continue
        try:
            n, a = ssmwire.parse_frame(npdu)
        except ssmwire.WireError:
            n, a = None, None
        out.append((dst, n, a, data))
    return out


def to_tester(dst, level):
    return dst in ("9", "('192.168.1.9', 47808)") if level == "lan" else "192.168.1.9" in dst


def to_tester2(dst, level):
    return dst == "8" if level == "lan" else "192.168.1.8" in dst


def run_frames(level, frames, settle_between=True, probe=True, judge_first_reply=True):
    """Deliver frames to a fresh device; returns (device, problems, observation).  settle_between: True (each frame is
    processed before the next arrives), False (same instant, one task each), "deferred" (one batch of deferred calls)."""
    dev = Device(level)
    start = len(dev.sent())
    if settle_between == "deferred":
        dev.inject_deferred(frames)
    else:
        for f in frames:
            dev.inject(f, settle=settle_between)
    dev.settle()
    dev.lingering = bool(dev.app.smap.serverTransactions or dev.app.smap.clientTransactions)
    dev.lingering_server = bool(dev.app.smap.serverTransactions)
    dev.run_quiet()
    problems = []
    sent = replies_of(dev, level, start)
    # DeviceCommunicationControl is the one rightful cause of silence: follow what the frames do to the communication
    # state ("on", "off" until a time, "unknown"); all frames arrive at time 0
    comm, silent_ok = ("on",), []
    for f in frames:
        eff = devref.dcc_effect(f, level)
        silent_ok.append(comm[0] != "on" and devref.classify(f, level).get("service") != 17)
        if eff[0] == "disable":
            comm = ("off", float("inf") if eff[1] == 0 else 60.0 * eff[1])
        elif eff[0] == "maybe":
            comm = ("unknown",)
        elif devref.classify(f, level)["judged"] and devref.classify(f, level).get("service") == 17:
            comm = ("on",)          # a DCC request that does not disable: enable, disable-initiation or an undefined value
    # reply oracle per frame
    for fi, f in enumerate(frames):
        cls = devref.classify(f, level)
        if not cls["judged"] or (fi == 0 and not judge_first_reply) or silent_ok[fi]:
            continue
        mine = [(dst, n, a) for (dst, n, a, raw) in sent
                if a is not None and a["invoke"] == cls["invoke"] and a["type"] in (2, 3, 5, 6, 7)
                and not (a["type"] == 7 and not a["srv"]) and to_tester(dst, level)]
        same = sum(1 for g in frames if (devref.classify(g, level)["judged"] and devref.classify(g, level).get("invoke") == cls["invoke"])
                   or (not devref.classify(g, level)["judged"] and devref.possible_invoke(g, level) == cls["invoke"]))
        if len(mine) == 0:
            problems.append(("no-reply-to-well-framed-request", {"invoke": cls["invoke"], "service": cls.get("service")}))
        elif len(mine) > same:
            problems.append(("more-than-one-reply", {"invoke": cls["invoke"], "replies": [a["name"] for (_, _, a) in mine]}))
    # health oracle
    res = dev.residue()
    for k, v in res.items():
        problems.append(("residue:%s" % k, {"what": v}))
    if any(e.startswith("Livelock") for e in dev.errors):
        problems.append(("livelock", {"errors": dev.errors[:2]}))
    obs = [("%s->%s" % (a["name"], a["invoke"]) if a else "raw") for (dst, n, a, raw) in sent]
    if probe:
        if comm[0] == "unknown" or (comm[0] == "off" and comm[1] > vclock.clock.now):
            # rightfully (or possibly) silenced: a valid enable request must be acknowledged and bring it back
            before = len(dev.sent())
            dev.inject(wrap(level, DCC_ENABLE))
            dev.settle()
            got = replies_of(dev, level, before)
            ok = [1 for (dst, n, a, raw) in got if a is not None and a["type"] == 2 and a["invoke"] == 202 and to_tester(dst, level)]
            if len(ok) != 1:
                problems.append(("enable-request-to-a-disabled-device-not-acknowledged", {"got": [raw.hex() for (_, _, _, raw) in got][:3]}))
            obs.append("enabled-again")
        before = len(dev.sent())
        dev.inject(wrap(level, PROBE))
        dev.settle()
        got = replies_of(dev, level, before)
        ok = [1 for (dst, n, a, raw) in got if n is not None and n["payload"] == PROBE_REPLY_APDU and to_tester(dst, level)]
        if len(ok) != 1:
            problems.append(("later-valid-request-not-answered-correctly", {"got": [raw.hex() for (_, _, _, raw) in got][:3]}))
        # the same read through a router: the answer must go back to the station that forwarded it (newest knowledge)
        before = len(dev.sent())
        dev.inject(wrap(level, PROBE_ROUTED), other=True)
        dev.settle()
        got = replies_of(dev, level, before)
        ok = [1 for (dst, n, a, raw) in got
              if (raw if level == "lan" else devref.strip_bvll(raw)) == PROBE_ROUTED_REPLY and to_tester2(dst, level)]
        if len(ok) != 1:
            problems.append(("later-routed-request-not-answered-to-the-forwarding-station",
                             {"got": [(dst, raw.hex()) for (dst, _, _, raw) in got][:3]}))
        dev.run_quiet(horizon=vclock.clock.now + 30.0)
        res = dev.residue()
        for k, v in res.items():
            problems.append(("residue-after-probe:%s" % k, {"what": v}))
    return dev, problems, obs


def handling_signature(dev, problems):
    """How the device handled it: swallowed exception kinds (first words) - used to pick representative garbage."""
    kinds = set()
    for name, msg in vclock.swallowed:
        m = msg
        if m.startswith("an error has occurred: "):
            m = m[23:]
        kinds.add("%s:%s" % (name.split(".")[-1], m[:40]))
    for e in dev.errors:
        kinds.add("inject:%s" % e[:40])
    return tuple(sorted(kinds))


def root_cause(dev, prob):
    kinds = handling_signature(dev, None)
    return "dev:%s|%s" % (prob, ";".join(kinds)[:150] if kinds else "no-exception")


def mut_shard(item, deadline):
    acc = Acc()
    reps = {}
    for (level, base, kind, frame) in item:
        if time.time() > deadline:
            acc.cap("deadline inside the mutation sweep")
            break
        dev, problems, obs = run_frames(level, [frame])
        cls = devref.classify(frame, level)
        acc.case((level, frame))
        acc.traces += 1
        acc.transitions += 2
        hs = handling_signature(dev, problems)
        # canonical end state of the device as far as it can be observed: what it sent, what it keeps, how it handled it
        acc.state((level, tuple(obs), hs, tuple(sorted(dev.residue())), bool(problems)))
        acc.outcome("%s:%s:%s" % (level, "judged" if cls["judged"] else "health-only", ",".join(obs)[:40] or "silent"))
        for name, msg in vclock.swallowed:
            acc.swallowed["%s: %s" % (name, msg[:70])] += 1
        for e in dev.errors:
            acc.swallowed["inject: %s" % e[:70]] += 1
        # one representative per way of being handled; frames that leave a transaction waiting (e.g. the first segment
        # of a request whose rest never comes) are kept per invoke ID because they interact with later traffic
        if dev.lingering:
            apdu0 = 6 if level == "ip" else 2
            key = (level, "lingering", "serving" if dev.lingering_server else "asking",
                   frame[apdu0 + 2] if len(frame) > apdu0 + 2 else None, cls["why"])
            prio = 0 if dev.lingering_server else 3      # 0: the device is left serving, 3: left asking (its own request)
        else:
            key = (level, hs, cls["why"], bool(problems), obs[0].split("->")[0] if obs else "silent")
            prio = 1 if hs else 2
        if key not in reps:
            reps[key] = (prio, frame)
        for prob, detail in problems:
            acc.fail(root_cause(dev, prob), {"problem": prob, "detail": detail, "level": level, "base": base, "mutation": kind,
                                             "frame": frame.hex(), "classified": cls["why"], "device_sent": obs},
                     {"level": level, "frames": [frame], "settle": True})
    acc.info["representatives"] = [(k[0], pf[0], pf[1]) for k, pf in reps.items()]
    return acc


def hist_shard(item, deadline):
    acc = Acc()
    for (level, frames, settle) in item:
        if time.time() > deadline:
            acc.cap("deadline inside the history sweep")
            break
        dev, problems, obs = run_frames(level, frames, settle_between=settle)
        acc.case((level, tuple(frames), settle))
        acc.traces += 1
        acc.transitions += len(frames) + 1
        acc.state((level, "history", tuple(obs), handling_signature(dev, problems), tuple(sorted(dev.residue())), bool(problems)))
        acc.outcome("hist:%s" % ("ok" if not problems else problems[0][0]))
        for prob, detail in problems:
            acc.fail(root_cause(dev, "history:" + prob), {"problem": prob, "detail": detail, "level": level,
                                                          "frames": [f.hex() for f in frames], "settle_between": settle, "device_sent": obs},
                     {"level": level, "frames": list(frames), "settle": settle})
    return acc


# Dialogues: the device is in the middle of a transaction when the garbage arrives.  (opening frame, valid reply of the
# tester); the opening frames use invoke ID 200 so that the later probe (also 200) meets whatever was left behind.
DIALOGUES = {
    # ReadPropertyMultiple 'all' of the device, answers limited to 50 octets, segmented response accepted: the device sends
    # segment 0 of a segmented ComplexAck and waits for the tester's SegmentACK
    "segmented-response-in-progress": (H(NP_REQ + "0200C80E" + "0C02000001" + "1E" + "0908" + "1F"), H(NP_UNC + "40C80002")),
    # ReadProperty of a 60-character description, answers limited to 50 octets: a response of exactly two segments, so that
    # an ack naming sequence number 1 points past what was sent
    "two-segment-response-in-progress": (H(NP_REQ + "0200C80C" + "0C00800001" + "191C"), H(NP_UNC + "40C80002")),
    # SubscribeCOV with confirmed notifications: the device sends a ConfirmedCOVNotification (its own invoke ID 1) and
    # waits for the tester's SimpleAck
    "confirmed-notification-outstanding": (H(NP_REQ + "0005C805" + "0902" + "1C01400001" + "2901" + "3903"), H(NP_UNC + "200101")),
}


def dialogue_cases(tier):
    out = []
    for level in ("lan", "ip"):
        for name, (opening, reply) in DIALOGUES.items():
            o, r = wrap(level, opening), wrap(level, reply)
            for kind, m in mutations(r):
                out.append((level, name, kind, o, m))
    return out


def dlg_shard(item, deadline):
    acc = Acc()
    for (level, name, kind, opening, reply) in item:
        if time.time() > deadline:
            acc.cap("deadline inside the dialogue sweep")
            break
        dev, problems, obs = run_frames(level, [opening, reply], judge_first_reply=False)
        acc.case((level, name, reply))
        acc.traces += 1
        acc.transitions += 3
        acc.state((level, "dialogue", name, tuple(obs), handling_signature(dev, problems), tuple(sorted(dev.residue())), bool(problems)))
        acc.outcome("dlg:%s:%s" % (name, ",".join(obs)[:40] or "silent"))
        for nm, msg in vclock.swallowed:
            acc.swallowed["%s: %s" % (nm, msg[:70])] += 1
        for prob, detail in problems:
            acc.fail(root_cause(dev, "dialogue:%s:%s" % (name, prob)),
                     {"problem": prob, "detail": detail, "level": level, "dialogue": name, "mutation": kind,
                      "opening": opening.hex(), "reply": reply.hex(), "device_sent": obs},
                     {"level": level, "frames": [opening, reply], "settle": True, "dialogue": True})
    return acc


# Neighbours: two complete devices in one interpreter (two stations of one vlan, or one device built after another was
# abandoned).  What one of them is in the middle of must not be visible to the other.
PROBE_AV = H(NP_REQ + "0005C80C" + "0C00800001" + "194D")              # ReadProperty analogValue,1 objectName, invoke 200
PROBE_AV_REPLY_APDU = H("30C80C" + "0C00800001" + "194D" + "3E" + "7400617631" + "3F")


def neighbour_case(level, opening, busy_twin, mode):
    """-> (problems, observation).  mode 'side-by-side': device X is left in the middle of `opening`, the tester then asks
    device Y something with the same invoke ID; 'successor': X is abandoned in the middle and a new device is built."""
    problems = []
    if mode == "successor":
        old = Device(level)
        old.inject(wrap(level, opening))
        dev = Device(level)
        born = dev.residue()
        if born:
            problems.append(("a-freshly-built-device-starts-with-transactions", {"what": born}))
        before = len(dev.sent())
        dev.inject(wrap(level, PROBE_AV))
        got = replies_of(dev, level, before)
        ok = [1 for (dst, n, a, raw) in got if n is not None and n["payload"] == PROBE_AV_REPLY_APDU and to_tester(dst, level)]
        if len(ok) != 1 or len(got) != 1:
            problems.append(("request-to-a-freshly-built-device-not-answered-correctly", {"got": [raw.hex() for (_, _, _, raw) in got][:3]}))
        dev.run_quiet()
        for k, v in dev.residue().items():
            problems.append(("residue:%s" % k, {"what": v}))
        del old
        return problems, ("successor", len(got))
    # the busy device on its own: what it sends from the opening to quiescence when nobody else is spoken to
    alone = Device(level, twin=True)
    start = len(alone.wire.log)
    alone.inject(wrap(level, opening), twin=busy_twin)
    alone.run_quiet()
    want = alone.sent_by(twin=busy_twin, start=start)
    dev = Device(level, twin=True)
    if len(dev.wire.log) != start:
        raise HarnessError("C10: two identically built pairs of devices announced themselves differently")
    dev.inject(wrap(level, opening), twin=busy_twin)
    dev.inject(wrap(level, PROBE_AV), twin=not busy_twin)
    mine = []
    for (dst, data) in dev.sent_by(twin=not busy_twin, start=start):
        npdu = data if level == "lan" else devref.strip_bvll(data)
        mine.append((dst, npdu))
    ok = [1 for (dst, npdu) in mine if npdu is not None and npdu.endswith(PROBE_AV_REPLY_APDU) and to_tester(dst, level)]
    if len(ok) != 1 or len(mine) != 1:
        problems.append(("request-to-the-idle-neighbour-not-answered-correctly",
                         {"sent by the idle device": [(d, (x or b"").hex()) for d, x in mine][:3]}))
    dev.run_quiet()
    got = dev.sent_by(twin=busy_twin, start=start)
    if got != want:
        problems.append(("busy-device-behaves-differently-when-its-neighbour-is-spoken-to",
                         {"alone": [x.hex()[:40] for _, x in want][:6], "with neighbour traffic": [x.hex()[:40] for _, x in got][:6]}))
    for tw in (False, True):
        for k, v in dev.residue(twin=tw).items():
            problems.append(("residue:%s:%s" % ("second-device" if tw else "first-device", k), {"what": v}))
    if any(e.startswith("Livelock") for e in dev.errors):
        problems.append(("livelock", {"errors": dev.errors[:2]}))
    return problems, ("side-by-side", len(want), len(mine))


def nb_shard(item, deadline):
    acc = Acc()
    for (level, opening, busy_twin, mode) in item:
        if time.time() > deadline:
            acc.cap("deadline inside the neighbour sweep")
            break
        problems, obs = neighbour_case(level, opening, busy_twin, mode)
        acc.case((level, opening, busy_twin, mode))
        acc.traces += 1
        acc.transitions += 3
        acc.state((level, "neighbour", mode, obs, bool(problems)))
        acc.outcome("nb:%s:%s" % (mode, "ok" if not problems else problems[0][0]))
        for prob, detail in problems:
            acc.fail("dev:neighbour:%s:%s" % (mode, prob.split(":")[0] if prob.startswith("residue") else prob),
                     {"problem": prob, "detail": detail, "level": level, "opening": opening.hex(), "busy": "second" if busy_twin else "first",
                      "mode": mode}, {"neighbour": True, "level": level, "opening": opening, "busy_twin": busy_twin, "mode": mode})
    return acc


# Pairs: every ordered pair of valid frames (one per service, confirmed and unconfirmed) on one device.  The reply to the
# second must be the one the same frame gets on a fresh device (differential oracle: no hand-written expectation), unless
# the first is one of the few frames that rightfully change what the second reads.
def reply_apdus(sent, invoke, level):
    return [n["payload"] for (dst, n, a, raw) in sent
            if a is not None and n is not None and a["invoke"] == invoke and a["type"] in (2, 3, 5, 6, 7)
            and not (a["type"] == 7 and not a["srv"]) and to_tester(dst, level)]


def pair_case(level, name_a, name_b):
    every = dict(BASES, **PAIR_EXTRA)
    fa, fb = wrap(level, every[name_a]), wrap(level, every[name_b])
    cb = devref.classify(fb, level)
    problems = []
    alone = Device(level)
    start = len(alone.sent())
    alone.inject(fb)
    want = reply_apdus(replies_of(alone, level, start), cb.get("invoke"), level) if cb["judged"] else None
    dev, probs, obs = run_frames(level, [fa, fb])
    problems += probs
    if cb["judged"] and devref.dcc_effect(fa, level)[0] == "none":
        got = reply_apdus(replies_of(dev, level, 0), cb["invoke"], level)
        same_invoke = devref.classify(fa, level).get("invoke") == cb["invoke"]
        if same_invoke:
            got = got[-len(want):] if want else got
        # WriteProperty / AtomicWriteFile change what a later read of the same thing returns: compare the kind of reply only
        if name_a in ("WriteProperty", "AtomicWriteFile", "SubscribeCOV", "SubscribeCOV-confirmed"):
            if [x[:1] for x in got] != [x[:1] for x in want]:
                problems.append(("reply-kind-depends-on-the-valid-frame-before", {"alone": [x.hex() for x in want], "after": [x.hex() for x in got]}))
        elif got != want:
            problems.append(("reply-depends-on-the-valid-frame-before", {"alone": [x.hex() for x in want], "after": [x.hex() for x in got]}))
    return dev, problems, obs


def first_segment(invoke):
    """First segment of a segmented ReadProperty request (more follows, window 4) with the given invoke ID: the rest never
    comes, so the device is left in the middle of a reassembly."""
    return H(NP_REQ + "0C05") + bytes([invoke]) + H("0004" + "0C" + "0C02000001")


def collision_case(level, name_b, order):
    """A reassembly is open for invoke ID N from the tester; a valid unsegmented request with the same ID arrives (order
    'segment-first'), or the valid request comes first and the lone segment afterwards."""
    fb = wrap(level, BASES[name_b])
    cb = devref.classify(fb, level)
    seg = wrap(level, first_segment(cb["invoke"]))
    frames = [seg, fb] if order == "segment-first" else [fb, seg]
    return run_frames(level, frames)


def pair_shard(item, deadline):
    acc = Acc()
    for (level, a, b) in item:
        if time.time() > deadline:
            acc.cap("deadline inside the pair sweep")
            break
        if a in ("segment-first", "segment-after"):
            dev, problems, obs = collision_case(level, b, a)
            acc.case((level, "collision", a, b))
            acc.traces += 1
            acc.transitions += 3
            acc.state((level, "collision", tuple(obs), bool(problems)))
            acc.outcome("collision:%s:%s" % (a, "ok" if not problems else problems[0][0]))
            for prob, detail in problems:
                acc.fail(root_cause(dev, "collision:%s:%s" % (a, prob)), {"problem": prob, "detail": detail, "level": level, "request": b,
                                                                          "order": a, "device_sent": obs},
                         {"pair": True, "level": level, "first": a, "then": b})
            continue
        dev, problems, obs = pair_case(level, a, b)
        acc.case((level, "pair", a, b))
        acc.traces += 2
        acc.transitions += 5
        acc.state((level, "pair", tuple(obs), bool(problems)))
        acc.outcome("pair:%s" % ("ok" if not problems else problems[0][0]))
        for prob, detail in problems:
            acc.fail(root_cause(dev, "pair:" + prob), {"problem": prob, "detail": detail, "level": level, "first": a, "then": b, "device_sent": obs},
                     {"pair": True, "level": level, "first": a, "then": b})
    return acc


def long_request_case(level, nsegs, window=1):
    """A WriteProperty of a long description sent to the device in `nsegs` hand-made segments of 40 octets (the tester sends
    the next `window` segments after every SegmentACK it is owed): the device acknowledges as it goes and answers the whole
    request exactly once, also when the sequence number wraps at 256."""
    invoke = 77
    n_text = 40 * nsegs - 14
    data = H("0C00800001" + "191C" + "3E") + bytes([0x75, 0xFE, (n_text + 1) >> 8, (n_text + 1) & 0xFF, 0x00]) + b"x" * n_text + H("3F")
    chunks_ = [data[i:i + 40] for i in range(0, len(data), 40)]
    dev = Device(level)
    start = len(dev.sent())
    problems = []
    for k, chunk in enumerate(chunks_):
        mor = k < len(chunks_) - 1
        apdu = bytes([0x08 | (0x04 if mor else 0), 0x05, invoke, k % 256, window]) + (bytes([0x0F]) if True else b"") + chunk
        dev.inject(wrap(level, H(NP_REQ) + apdu))
    dev.settle()
    sent = replies_of(dev, level, start)
    acks = [a for (dst, n, a, raw) in sent if a is not None and a["type"] == 4 and a["invoke"] == invoke]
    finals = [a for (dst, n, a, raw) in sent if a is not None and a["invoke"] == invoke and a["type"] in (2, 3, 5, 6, 7)
              and to_tester(dst, level)]
    if len(finals) != 1:
        problems.append(("long-segmented-request-answered-%d-times" % len(finals),
                         {"segments": len(chunks_), "segment acks": len(acks), "replies": [a["name"] for a in finals]}))
    elif finals[0]["type"] == 7:
        problems.append(("long-segmented-request-aborted", {"segments": len(chunks_), "segment acks": len(acks)}))
    dev.run_quiet()
    for k, v in dev.residue().items():
        problems.append(("residue:%s" % k, {"what": v}))
    return dev, problems, ["%d acks" % len(acks)] + [a["name"] for a in finals]


def long_shard(item, deadline):
    acc = Acc()
    for (level, nsegs, window) in item:
        dev, problems, obs = long_request_case(level, nsegs, window)
        acc.case((level, "long-request", nsegs, window))
        acc.traces += 1
        acc.transitions += nsegs + 1
        acc.state((level, "long-request", tuple(obs), bool(problems)))
        acc.outcome("long-request:%s" % ("ok" if not problems else problems[0][0]))
        for prob, detail in problems:
            acc.fail(root_cause(dev, "long-request:" + prob), {"problem": prob, "detail": detail, "level": level, "segments": nsegs,
                                                               "window": window, "device_sent": obs},
                     {"long_request": True, "level": level, "nsegs": nsegs, "window": window})
    return acc


FOREIGN_LEVELS = ("ipf:silent", "ipf:acked", "ipf:nak")


def all_mutations(tier):
    out = []
    for level in ("lan", "ip"):
        for base, npdu in BASES.items():
            frame = wrap(level, npdu)
            for kind, m in mutations(frame):
                out.append((level, base, kind, m))
            if tier != "quick" and base in ("ReadProperty", "WriteProperty", "SubscribeCOV"):
                # double substitutions in the fixed-header region (NPCI + APCI), boundary values
                hdr0 = 0 if level == "lan" else 4
                vals = (0x00, 0x01, 0x0F, 0x80, 0xFF)
                for i, j in itertools.combinations(range(hdr0, hdr0 + 6), 2):
                    for a in vals:
                        for b in vals:
                            m = bytearray(frame)
                            m[i], m[j] = a, b
                            out.append((level, base, "sub2", bytes(m)))
    return out


def run(tier, seed, deadline):
    vclock.install()
    acc = Acc()
    # determinism probe
    a = run_frames("lan", [BASES["ReadProperty"]])
    b = run_frames("lan", [BASES["ReadProperty"]])
    if a[1:] != b[1:]:
        raise HarnessError("C10: the same frame gave two different observations")
    # the unmutated bases must be answered (sanity of the harness: reported as violation if not)
    muts = all_mutations(tier)
    t0 = time.time()
    run_shards(mut_shard, chunks(muts, 256), t0 + (deadline - t0) * 0.55, into=acc)
    acc.info["mutated frames"] = len(muts)
    reps = acc.info.pop("representatives", [])
    pool = {}
    by_prio = {}
    for level, prio, f in sorted(reps, key=lambda r: (r[0], r[1], r[2])):
        lst = by_prio.setdefault((level, prio), [])
        if f not in lst:
            lst.append(f)
    for level in ("lan", "ip"):
        # round robin over the three kinds (frames that leave a transaction waiting, frames whose handling raises, the
        # rest) so that a cut of the pool keeps all three kinds whatever their numbers
        kinds = [list(by_prio.get((level, prio), [])) for prio in (0, 1, 3, 2)]
        out = []
        while any(kinds):
            for k in kinds:
                if k:
                    out.append(k.pop(0))
        pool[level] = out
    acc.info["garbage pool"] = {k: len(v) for k, v in pool.items()}
    acc.info["garbage pool by kind (left serving / raising / left asking / rest)"] = {lv: [len(by_prio.get((lv, p), [])) for p in (0, 1, 3, 2)] for lv in ("lan", "ip")}
    # histories
    items = []
    depth = 2 if tier == "quick" else 3
    for level in ("lan", "ip"):
        garbage = pool.get(level, [])[:48 if tier == "quick" else 64]      # the three kinds in turn
        valid = wrap(level, VALID)
        for n in range(1, depth + 1):
            if n == 3:
                garbage = garbage[:24]
            for seq in itertools.product(garbage, repeat=n):
                for pos in range(n + 1):
                    frames = list(seq[:pos]) + [valid] + list(seq[pos:])
                    for settle in ((True, False, "deferred") if n <= 2 else (True, False)):
                        items.append((level, frames, settle))
    acc.info["histories"] = len(items)
    hist_items = items          # the widest part runs last: a deadline then cuts its tail, not the smaller parts
    dlg = dialogue_cases(tier)
    acc.info["dialogue replies"] = len(dlg)
    run_shards(dlg_shard, chunks(dlg, 128), deadline, into=acc)
    # neighbours: every opening that leaves a device in the middle of something (dialogue openings and the lingering
    # representatives of the mutation pass, NPDU level), busy device first/second, side by side / successor
    nb = []
    for level in ("lan", "ip"):
        openings = [o for (o, r) in DIALOGUES.values()]
        for lv, prio, f in sorted(reps, key=lambda r: (r[0], r[1], r[2])):
            if lv == level and prio == 0:
                npdu = f if level == "lan" else devref.strip_bvll(f)
                if npdu is not None and npdu not in openings:
                    openings.append(npdu)
        for o in openings[:12 if tier == "quick" else 40]:
            nb.append((level, o, False, "side-by-side"))
            nb.append((level, o, True, "side-by-side"))
            nb.append((level, o, False, "successor"))
    acc.info["neighbour cases"] = len(nb)
    run_shards(nb_shard, chunks(nb, 8), deadline, into=acc)
    # segmented requests of 2 .. 300 segments (the sequence number wraps at 256)
    longs = [(level, n, w) for level in ("lan", "ip") for n in (2, 3, 255, 256, 257, 300) for w in (1, 4)]
    acc.info["long segmented requests"] = len(longs)
    run_shards(long_shard, [[x] for x in longs], deadline, into=acc)
    # pairs of valid frames
    pairs = [(level, a, b) for level in ("lan", "ip") for a in BASES for b in BASES]
    # what the tester announced about itself (I-Am: no segmentation / both) before it asks with "segmented response accepted"
    pairs += [(level, a, b) for level in ("lan", "ip") for a in ("IAm", "IAm-both") + tuple(PAIR_EXTRA)
              for b in PAIR_EXTRA if not b.startswith("IAm")]
    # a lone first segment and a valid unsegmented request with the same invoke ID, in both orders
    pairs += [(level, order, b) for level in ("lan", "ip") for order in ("segment-first", "segment-after") for b in BASES
              if devref.classify(wrap(level, BASES[b]), level)["judged"]]
    acc.info["pairs of valid frames"] = len(pairs)
    run_shards(pair_shard, chunks(pairs, 16), deadline, into=acc)
    # the device as a foreign device (BIPForeign below the network layer) whose registration is unanswered, acknowledged
    # or refused: every valid frame alone, and the garbage representatives of the B/IP level with the valid request
    fitems = []
    for flevel in FOREIGN_LEVELS:
        for name, npdu in BASES.items():
            fitems.append((flevel, [wrap("ip", npdu)], True))
        for g in pool.get("ip", [])[:30]:
            for frames in ([g, wrap("ip", VALID)], [wrap("ip", VALID), g]):
                for settle in (True, "deferred"):
                    fitems.append((flevel, frames, settle))
    acc.info["foreign-device histories"] = len(fitems)
    run_shards(hist_shard, chunks(fitems, 32), deadline, into=acc)
    run_shards(hist_shard, chunks(hist_items, 256), deadline, into=acc)
    acc.sample({"level": "lan", "base": "ReadProperty", "frame": BASES["ReadProperty"].hex(), "device_sent": a[2]})
    if pool.get("lan"):
        g = pool["lan"][0]
        acc.sample({"history": [g.hex(), VALID.hex()], "device_sent": run_frames("lan", [g, VALID])[2]})
    return acc


def replay(case):
    vclock.install()
    if case.get("long_request"):
        dev, problems, obs = long_request_case(case["level"], case["nsegs"], case["window"])
        return not problems, "level=%s WriteProperty in %d segments, window %d\ndevice sent=%r\nproblems=%r" % (
            case["level"], case["nsegs"], case["window"], obs, problems)
    if case.get("pair") and case["first"] in ("segment-first", "segment-after"):
        dev, problems, obs = collision_case(case["level"], case["then"], case["first"])
        return not problems, "level=%s lone first segment and %s with the same invoke ID (%s)\ndevice sent=%r\nproblems=%r" % (
            case["level"], case["then"], case["first"], obs, problems)
    if case.get("pair"):
        dev, problems, obs = pair_case(case["level"], case["first"], case["then"])
        return not problems, "level=%s first=%s then=%s\ndevice sent=%r\nproblems=%r" % (case["level"], case["first"], case["then"], obs, problems)
    if case.get("neighbour"):
        o = case["opening"]
        o = o if isinstance(o, bytes) else bytes.fromhex(o["hex"])
        problems, obs = neighbour_case(case["level"], o, case["busy_twin"], case["mode"])
        return not problems, "level=%s opening=%s busy=%s mode=%s\nobservation=%r\nproblems=%r" % (
            case["level"], o.hex(), "second device" if case["busy_twin"] else "first device", case["mode"], obs, problems)
    frames = [f if isinstance(f, bytes) else bytes.fromhex(f["hex"]) for f in case["frames"]]
    dev, problems, obs = run_frames(case["level"], frames, settle_between=case.get("settle", True),
                                    judge_first_reply=not case.get("dialogue"))
    text = "level=%s frames=%r\nclassified=%r\ndevice sent=%r\nswallowed=%r\nproblems=%r" % (
        case["level"], [f.hex() for f in frames], [devref.classify(f, case["level"])["why"] for f in frames], obs,
        handling_signature(dev, None), problems)
    return not problems, text
