"""C11 Concurrent transactions never cross: replies reach only the request they answer.

E2: explicit-state BFS over histories of {submit, deliver any in-flight frame, server application answers a
    held request, inject a crafted reply (type x source x invoke ID), duplicate a request frame, fire a timer}
    on 1-2 real client stacks and 1-2 real server stacks; oracle = reference bookkeeping of live (peer, invoke ID).
E3: invoke-ID allocation over every cursor position and in-use pattern; long sequential run across two wraps.
"""
import time

import bv  # noqa: F401
from bacpypes.appservice import StateMachineAccessPoint
from bacpypes.app import DeviceInfoCache
from bacpypes.pdu import Address

from bv.engine import vclock
from bv.engine.acc import Acc, h64
from bv.engine.bfs import bfs
from bv.engine.pool import run_shards, chunks, HarnessError
from bv.stacks.multisys import MCfg, MultiSystem, INJ_TYPES
from bv.stacks import app as A

PROPERTY = "C11"
LEVEL = "model_checking"
BUDGET = {"quick": 95.0, "thorough": 1500.0}
RULE = ("E2: BFS over all event histories of the configuration list up to the stated depth, states deduplicated on a canonical "
        "snapshot of every stack's transaction lists, records, held requests, in-flight frames, timers and remaining "
        "injection/duplication budget; E3: get_next_invoke_id for every cursor 0..255 x in-use pattern x peer, and 600 "
        "sequential requests with 0..2 held open.  Distinct = canonical state (E2) / (cursor, pattern) (E3).")
ASSUMPTIONS = [
    "single thread; virtual clock; controlled vlan on which crafted frames can carry any source address",
    "requests are small (unsegmented); segmented transfers under faults are C04/C05",
    "at most two injected frames / one duplicated request / one early timer per history (thorough: 2/1/1)",
]
BOUNDS = {
    "quick": "2-3 concurrent requests, 1-2 clients, 1-2 servers, <=1 injection (all 6 reply types x 3 sources x 4 ID classes), <=1 duplicate, depth<=14 (11 with early timers)",
    "thorough": "3 requests over 2 servers with <=2 injections, depth<=18; 4 requests without injections",
}


def configs(tier):
    C = []
    one = [{"mac": 1, "next_id": 1}]
    # two requests to one server, one injection, one duplicate
    C.append(MCfg(one, [2], [(0, 2, None), (0, 2, None)], inj=1, dup=1, label="2req-1srv-inj1-dup1"))
    # wrap-around of the counter and two servers
    for start in (254, 255, 0):
        C.append(MCfg([{"mac": 1, "next_id": start}], [2, 3], [(0, 2, None), (0, 3, None), (0, 2, None)],
                      inj=1 if start == 255 else 0, dup=0, deliver_width=2, label="3req-2srv-start%d" % start))
    # two clients forced onto the same invoke ID towards one server
    C.append(MCfg([{"mac": 1, "next_id": 7}, {"mac": 4, "next_id": 7}], [2], [(0, 2, None), (1, 2, None)], inj=1, dup=1,
                  label="2clients-same-id"))
    # application-chosen invoke IDs (second submit must be refused, third goes to another peer)
    C.append(MCfg(one, [2, 3], [(0, 2, 5), (0, 2, 5), (0, 3, 5)], inj=1, dup=0, label="app-chosen-ids"))
    # the servers have announced themselves; a foreign reply may come from a station that claims the instance of the
    # station the live request went to
    C.append(MCfg(one, [2, 3], [(0, 2, None), (0, 3, None)], inj=1, dup=0, deliver_width=2, iam=True,
                  inj_types=("SimpleAck", "Abort"), label="2req-2srv-announced-inj1"))
    # chosen IDs that are no octet (one that folds onto a live ID, one negative): refused at submission, nothing left behind,
    # the live request with ID 5 undisturbed
    C.append(MCfg(one, [2], [(0, 2, 5), (0, 2, 261), (0, 2, -251), (0, 2, 256)], inj=0, dup=1, label="app-chosen-ids-out-of-range"))
    # the application re-uses its chosen invoke ID for the next request, sent from inside the confirmation of the previous
    # one, while a request to a slow second server (started later) is still outstanding
    C.append(MCfg(one, [2, 3], [(0, 2, 5), (0, 3, 9), (0, 2, 5, "cb")], inj=0, dup=1, deliver_width=2, label="app-chosen-id-reused-in-callback"))
    C.append(MCfg(one, [2, 3], [(0, 2, None), (0, 3, None), (0, 2, None, "cb"), (0, 2, None, "cb")], inj=0, dup=0, deliver_width=2,
                  label="next-request-from-callback"))
    # retransmission by timeout while the server application still holds the original
    C.append(MCfg(one, [2], [(0, 2, None), (0, 2, None)], inj=0, dup=1, timers=1, label="2req-timers"))
    if tier != "quick":
        C.append(MCfg(one, [2, 3], [(0, 2, None), (0, 3, None), (0, 2, None)], inj=2, dup=1, deliver_width=2,
                      inj_types=("SimpleAck", "ComplexAck", "Abort", "SegmentAck"), label="3req-2srv-inj2"))
        C.append(MCfg(one, [2], [(0, 2, None)] * 4, inj=0, dup=1, label="4req-1srv"))
        C.append(MCfg([{"mac": 1, "next_id": 255}, {"mac": 4, "next_id": 255}], [2, 3],
                      [(0, 2, None), (1, 2, None), (0, 3, None), (1, 3, None)], inj=1, dup=0, deliver_width=2,
                      label="2clients-2servers-wrap"))
        C.append(MCfg(one, [2], [(0, 2, None), (0, 2, None)], inj=1, dup=1, timers=3, label="2req-timers3-inj1"))
    return C


def e2_expand(item, deadline):
    cfg_json, hists = item
    cfg = MCfg.from_json(cfg_json)
    acc = Acc()
    nxt = []
    for hist in hists:
        if time.time() > deadline:
            acc.cap("E2: deadline inside frontier expansion (%s)" % cfg.label)
            break
        base = MultiSystem.replay(cfg, hist)
        menu = base.menu()
        if not menu:
            continue
        # crafted frames that match no live transaction must be no-ops: judge them all on one system
        noops = [lab for lab in menu if lab.startswith("inject:") and not base.injection_should_match(lab)]
        rest = [lab for lab in menu if lab not in set(noops)]
        if noops:
            done, bad = base.batch_noop_injections(noops)
            acc.transitions += len(done)
            acc.evaluations += len(done)
            if bad is not None:
                for prob, detail in base.problems:
                    acc.fail("xact:%s" % prob, {"problem": prob, "detail": detail, "cfg": cfg.describe(), "history": list(hist) + [bad]},
                             {"cfg": cfg_json, "history": list(hist) + [bad]})
                rest += [lab for lab in noops if lab not in done]
            else:
                rest.append(noops[0])       # one representative successor: same state, one injection less
        for lab in rest:
            s = MultiSystem.replay(cfg, hist)
            s.apply(lab)
            acc.transitions += 1
            acc.evaluations += 1
            problems = list(s.problems)
            terminal = not s.menu()
            if terminal:
                problems += s.final_problems()
                acc.traces += 1
                acc.outcome(",".join("%s%s" % (s.outcome.get(k, ("none", False))[0], "*" if s.outcome.get(k, ("", False))[1] else "")
                                     for k in range(1, len(cfg.script) + 1)))
            for prob, detail in problems:
                acc.fail("xact:%s" % prob, {"problem": prob, "detail": detail, "cfg": cfg.describe(), "history": list(s.history)},
                         {"cfg": cfg_json, "history": list(s.history)})
            for name, msg in list(vclock.swallowed) + [("wire", e) for e in s.wire.errors]:
                acc.swallowed["%s: %s" % (name, msg[:80])] += 1
            if not problems and not terminal:
                nxt.append((h64(s.canon_state()), tuple(s.history)))
            elif terminal:
                acc.state(h64(("terminal", s.canon_state())))
    acc.info["next"] = nxt
    return acc


# ----------------------------------------------------------------------------- E3: invoke ID allocation

class _FakeTr(object):
    def __init__(self, invoke, addr):
        self.invokeID = invoke
        self.pdu_address = addr


def alloc_shard(item, deadline):
    acc = Acc()
    peer = Address(2)
    other = Address(3)
    for start in item:
        patterns = {
            "none": [],
            "one-at-cursor": [start],
            "run-of-3-at-cursor": [start, (start + 1) % 256, (start + 2) % 256],
            "all-but-cursor+100": [i for i in range(256) if i != (start + 100) % 256],
            "all-but-one-before-cursor": [i for i in range(256) if i != (start - 1) % 256],
            "all": list(range(256)),
            "all-at-other-peer": None,
        }
        for pname, used in patterns.items():
            smap = StateMachineAccessPoint(None, DeviceInfoCache())
            smap.nextInvokeID = start
            if used is None:
                smap.clientTransactions = [_FakeTr(i, other) for i in range(256)]
                used_here = []
            else:
                smap.clientTransactions = [_FakeTr(i, peer) for i in used] + [_FakeTr((start + 1) % 256, other)]
                used_here = used
            acc.case(("alloc", start, pname))
            try:
                got = smap.get_next_invoke_id(peer)
            except RuntimeError as err:
                acc.outcome("alloc:%s:refused" % pname)
                if len(used_here) < 255:
                    acc.fail("alloc:refuses-although-many-ids-are-free:%s" % pname, {"start": start, "pattern": pname, "err": str(err)},
                             {"part": "alloc", "start": start, "pattern": pname})
                continue
            acc.outcome("alloc:%s:%s" % (pname, "cursor" if got == start else "later"))
            if not isinstance(got, int) or not (0 <= got <= 255):
                acc.fail("alloc:id-outside-0..255", {"start": start, "pattern": pname, "got": got}, {"part": "alloc", "start": start, "pattern": pname})
            elif got in used_here:
                acc.fail("alloc:returns-id-in-use-at-that-peer:%s" % pname, {"start": start, "pattern": pname, "got": got},
                         {"part": "alloc", "start": start, "pattern": pname})
            if not (0 <= smap.nextInvokeID <= 255):
                acc.fail("alloc:cursor-outside-0..255", {"start": start, "cursor": smap.nextInvokeID}, {"part": "alloc", "start": start, "pattern": pname})
    return acc


def sequential_shard(item, deadline):
    """600 sequential requests to one peer with `held_open` others never answered: ids of live requests distinct,
    every answered request gets its own reply."""
    held_open, start = item
    acc = Acc()
    n = 600
    cfg = MCfg([{"mac": 1, "next_id": start}], [2, 3], [(0, 3, None)] * held_open + [(0, 2, None)] * n, label="seq%d" % held_open)
    s = MultiSystem(cfg)
    for _ in range(held_open):
        s.apply("submit")
        s.apply("deliver0")
    for k in range(n):
        s.apply("submit")
        s.apply("deliver0")             # request reaches server 2
        s.apply("answer2.0")
        s.apply("deliver0")             # reply reaches the client
        acc.transitions += 4
        if s.problems:
            break
    acc.case(("seq", held_open, start))
    acc.traces += 1
    acc.outcome("seq:%d-answered" % sum(1 for k, v in s.outcome.items() if v[0] == "ack"))
    answered = sum(1 for k, v in s.outcome.items() if v[0] == "ack")
    probs = list(s.problems)
    if not probs and answered != n:
        probs.append(("sequential-run-lost-replies", {"answered": answered, "of": n}))
    for prob, detail in probs[:3]:
        acc.fail("xact:%s" % prob, {"problem": prob, "detail": detail, "held_open": held_open, "start": start},
                 {"part": "seq", "held_open": held_open, "start": start})
    return acc


# ----------------------------------------------------------------------------- entry points

def run(tier, seed, deadline):
    vclock.install()
    acc = Acc()
    # determinism probe
    c0 = configs(tier)[0]
    h = ("submit", "submit", "deliver0", "deliver0", "answer2.1")
    a = MultiSystem.replay(c0, h).canon_state()
    b = MultiSystem.replay(c0, h).canon_state()
    if a != b:
        raise HarnessError("C11: replay of one history gave two different states")

    run_shards(alloc_shard, chunks(range(256), 16), deadline, into=acc)
    run_shards(sequential_shard, [(k, st) for k in (0, 1, 2) for st in ((1,) if tier == "quick" else (1, 200))], deadline, into=acc)

    cfgs = configs(tier)
    depth = 14 if tier == "quick" else 18
    t0 = time.time()
    for i, cfg in enumerate(cfgs):
        if time.time() > deadline:
            acc.cap("E2: deadline before %s" % cfg.label)
            break
        sub_deadline = min(deadline, time.time() + (deadline - time.time()) / (len(cfgs) - i) * 1.5)
        s0 = MultiSystem(cfg)
        d = depth - 3 if "timers" in (cfg.label or "") else depth      # timer branches multiply the late levels
        bfs(e2_expand, cfg.to_json(), (), h64(s0.canon_state()), d, sub_deadline, acc,
            max_states=400000 if tier != "quick" else 120000, label="E2 %s" % cfg.label)
    s = MultiSystem.replay(c0, ("submit", "submit", "deliver1", "answer2.0", "inject:0:2:Abort:1", "deliver0"))
    acc.sample({"cfg": c0.describe(), "history": s.history, "outcome": {str(k): v for k, v in s.outcome.items()},
                "confirmations": [(c[1], c[2], c[3], c[6]) for c in s.clients[0].confirmations]})
    return acc


def replay(case):
    vclock.install()
    if case.get("part") == "alloc":
        a = alloc_shard([case["start"]], time.time() + 60)
        bad = {k: v for k, v in a.fails.items() if case["pattern"] in k}
        return not bad, "alloc start=%d pattern=%s -> %r" % (case["start"], case["pattern"], list(bad) or "ok")
    if case.get("part") == "seq":
        a = sequential_shard((case["held_open"], case["start"]), time.time() + 120)
        return not a.fails, "sequential run -> %r" % (list(a.fails) or "ok")
    cfg = MCfg.from_json(case["cfg"])
    s = MultiSystem(cfg)
    for lab in case["history"]:
        s.apply(lab)
    problems = list(s.problems) + (s.final_problems() if not s.menu() else [])
    text = "cfg=%r\nhistory=%r\noutcomes=%r\nconfirmations=%r\nindications=%r\nproblems=%r" % (
        cfg.describe(), s.history, s.outcome,
        [[(c[1], c[2], c[3], c[6]) for c in app.confirmations] for app in s.clients],
        {m: [(i[1], i[2], i[3]) for i in app.indications] for m, app in s.servers.items()}, problems)
    return not problems, text
