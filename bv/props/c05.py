"""C05 Segmented transfers deliver the exact payload and survive any single fault.

Part A (fault-free sweep, E3 style): every payload length / window pair / long transfer, exact payload
        at both applications + clause 5.2/5.4 wire rules (segmon).
Part B (single fault, E1 with bound 1): drop | duplicate | overtake | late arrival at every frame of every
        transfer of 2..9 segments: the transaction must still succeed with the exact payload.
Part C (multi fault, E1 bound 2/3): success with exact payload or abort, never a corrupted payload.
"""
import time

import bv  # noqa: F401
from bv.engine import vclock, explorer
from bv.engine.acc import Acc
from bv.engine.pool import run_shards, chunks, HarnessError
from bv.refs import segmon
from bv.stacks import app as A
from bv.stacks import apporacle as O
from bv.stacks.appsys import Cfg, run_execution, frame_label

PROPERTY = "C05"
LEVEL = "model_checking"
BUDGET = {"quick": 95.0, "thorough": 1500.0}
RULE = ("A: every (max-APDU, request length, response length) of the sweep and every window pair, fault free, on two real "
        "stacks; B: for each transfer shape every execution with exactly one deviation (drop/duplicate/overtake/late) at every "
        "decision point; C: every execution with <=2 (thorough 3) deviations.  Distinct = (configuration, choice sequence).")
ASSUMPTIONS = [
    "single thread; virtual clock; controlled vlan; payloads are position-dependent octets so any offset error changes bytes",
    "late arrival is modelled as the earliest timer firing while frames are still in flight",
    "both sides use the same max-APDU size (capability mismatches are judged under C12)",
]
BOUNDS = {
    "quick": "A: max-APDU 50 all lengths 0..202 x {request,response,both}, other sizes at segment boundaries, window pairs {1,2,3,8}^2 + diagonal, 257 segments; B: 2..9 segments, windows {1,2,3,4,8}^2, single faults at the wrap of 260-segment transfers, library default timers; C: d<=2 on 3- and 5-segment transfers, windows 1..4",
    "thorough": "A: all six sizes all lengths 0..4*seg+2, all 64 window pairs at 2..9 segments, 255/256/257/300 segments; B: all 64 window pairs at 2..9 segments; C: d<=3",
}

OVERHEAD = 9
SIZES = (50, 128, 206, 480, 1024, 1476)


def _payload_for_service_data(total):
    """payload length whose ConfirmedPrivateTransfer service data is `total` octets (vendor 999, one-octet service number)"""
    from bv.refs.segmon import private_transfer_data
    best = None
    for n in range(max(0, total - 16), total):
        got = len(private_transfer_data(1, b"\0" * n))
        if got == total:
            return n
        if got < total:
            best = n
    # the octet-string header grows from 2 to 4 octets at 254 octets of content: two totals cannot be produced at all;
    # the nearest length below is used (the last segment is then two octets short of full)
    if best is None:
        raise ValueError(total)
    return best


def rq(k, seg=50):
    """request payload length that yields exactly k full segments (6-octet segment header)"""
    return _payload_for_service_data(k * (seg - 6))


def rs(k, seg=50):
    """response payload length that yields exactly k full segments (5-octet segment header)"""
    return _payload_for_service_data(k * (seg - 5))


# ----------------------------------------------------------------------------- judging

def transfers_of(sysm):
    cfg = sysm.cfg
    out = []
    cm, sm = str(sysm.client.address), str(sysm.server.address)
    for sn, req in sysm.submitted:
        inv = req.apduInvokeID
        rq, rs = cfg.reqs[sn - 1]
        out.append(segmon.Transfer(cm, sm, 0, inv, segmon.private_transfer_data(sn, A.stream("req%d" % sn, rq))))
        out.append(segmon.Transfer(sm, cm, 3, inv, segmon.private_transfer_data(sn, A.stream("resp%d" % sn, rs))))
    return out


def judge(sysm, mode):
    """mode: 'clean' (must succeed, wire rules), 'single' (must succeed), 'multi' (success or abort)"""
    problems = []
    got = O.judge_outcomes(sysm, problems)
    O.judge_payloads(sysm, got, problems)
    if getattr(sysm, "horizon_hit", False):
        problems.append(("no-quiescence-within-step-horizon%s" % (":livelock-in-one-instant" if getattr(sysm, "livelock", False) else ""),
                         {"steps": sysm.steps}))
    for p, d in segmon.monitor(sysm.events, transfers_of(sysm)):
        problems.append(("wire:" + p, d))
    for sn, _ in sysm.submitted:
        c = got.get(sn)
        if c is None:
            continue
        if mode in ("clean", "single") and c[1] != "ack":
            problems.append(("transfer-not-completed:%s:reason=%s" % (c[1], c[4]), {"request": sn}))
        if mode == "multi" and c[1] not in ("ack", "abort"):
            problems.append(("unexpected-outcome:%s" % c[1], {"request": sn}))
    if mode != "multi":
        # the server application must see each request exactly once when nothing or one frame went wrong
        for sn, _ in sysm.submitted:
            k = sum(1 for i in sysm.server.indications if i[3] == sn)
            if k != 1 and mode == "clean":
                problems.append(("request-indicated-%d-times" % k, {"request": sn}))
    return got, problems


def signature(sysm, prob, mode):
    faults = ";".join("%s@%s" % (f[0], "+".join(f[1:])) for f in sysm.faults) or "none"
    kinds = O.swallowed_kinds(sysm)
    sig = "seg:%s:%s:faults=%s" % (mode, prob, faults if mode != "multi" else "%d" % len(sysm.faults))
    if kinds:
        sig += "|swallowed=" + ";".join(kinds)[:120]
    return sig


def record(acc, cfg_json, sysm, points, mode):
    got, problems = judge(sysm, mode)
    choices = [idx for (m, idx) in points]
    acc.case((mode, sysm.cfg.key(), tuple(choices)))
    acc.traces += 1
    acc.transitions += len(points)
    acc.max_depth = max(acc.max_depth, len(points))
    acc.outcome("%s:%s" % (mode, ",".join(got[sn][1] if sn in got else "none" for sn, _ in sysm.submitted)))
    for name, msg in sysm.swallowed():
        acc.swallowed["%s: %s" % (name, msg[:80])] += 1
    for prob, detail in problems:
        acc.fail(signature(sysm, prob, mode),
                 {"problem": prob, "detail": detail, "cfg": sysm.cfg.describe(), "faults": sysm.faults,
                  "schedule": explorer.labels(points)[:80], "wire": [frame_label(f[4]) for f in sysm.wire.log][:60]},
                 {"mode": mode, "cfg": cfg_json, "choices": choices})
    return problems


# ----------------------------------------------------------------------------- part A

def sweep_cases(tier):
    out = []

    def add(**kw):
        out.append(Cfg(**kw).to_json())

    full_sizes = SIZES if tier != "quick" else (50,)
    for size in SIZES:
        if size in full_sizes:
            lens = list(range(0, 4 * size + 3))
        else:
            lens = sorted(set(max(0, k * size - OVERHEAD + d) for k in (1, 2, 3, 4) for d in (-1, 0, 1)) | {0, 4 * size + 2})
        for n in lens:
            side = {"maxapdu": size, "window": 4}
            add(c=side, s=side, reqs=[(n, 0)])
            add(c=side, s=side, reqs=[(0, n)])
            if size == 50 or n % 7 == 0 or size not in full_sizes:
                add(c=side, s=side, reqs=[(n, n)])
    # window pairs
    if tier == "quick":
        pairs = [(a, b) for a in (1, 2, 3, 8) for b in (1, 2, 3, 8)] + [(w, w) for w in (4, 5, 6, 7)]
        ks = (2, 3, 5, 9)
    else:
        pairs = [(a, b) for a in range(1, 9) for b in range(1, 9)]
        ks = range(2, 10)
    for (wc, ws) in pairs:
        for k in ks:
            for reqs in ([(rq(k), 0)], [(0, rs(k))], [(rq(k) + 1, rs(k) + 1)]):
                add(c={"window": wc}, s={"window": ws}, reqs=reqs)
    # windows at the protocol limit
    for w in (16, 127):
        add(c={"window": w}, s={"window": w}, reqs=[(rq(20), rs(20))])
    return out


def long_cases(tier):
    """Fault-free transfers around and beyond 256 segments: exact segment counts x windows (a sender that mistakes an
    early ack for the final one shows only when (count - 1) mod 256 is a multiple of the window)."""
    out = []
    if tier == "quick":
        plan = [(257, (1, 2, 4)), (258, (1, 4)), (260, (1, 3))]
    else:
        plan = [(n, (1, 2, 3, 4, 8)) for n in (255, 256, 257, 258, 259, 260, 261, 300, 301, 513)] + [(300, (127,))]
    for n, ws in plan:
        for w in ws:
            for reqs in ([(rq(n), 0)], [(0, rs(n))]):
                out.append(Cfg(c={"window": w, "maxsegs": 65}, s={"window": w, "maxsegs": 65}, reqs=reqs, label="long%d" % n).to_json())
    return out


def a_shard(item, deadline):
    acc = Acc()
    for cfg_json in item:
        if time.time() > deadline:
            acc.cap("A: deadline inside the fault-free sweep")
            break
        cfg = Cfg.from_json(cfg_json)
        steps = 400 if (cfg.label or "").startswith("long") is False else 8000
        sysm, points = run_execution(cfg, (), max_steps=steps, want_states=acc.states if steps == 400 else None)
        record(acc, cfg_json, sysm, points, "clean")
    return acc


# ----------------------------------------------------------------------------- part B / C

def fault_cfgs(tier):
    single, multi = [], []
    if tier == "quick":
        wins = [(a, b) for a in (1, 2, 3, 4, 8) for b in (1, 2, 3, 4, 8)]
        ks = (2, 3, 4, 5, 9)
    else:
        wins = [(a, b) for a in range(1, 9) for b in range(1, 9)]
        ks = range(2, 10)
    for (wc, ws) in wins:
        for k in ks:
            for reqs in ([(rq(k), 0)], [(0, rs(k))]):
                single.append(Cfg(c={"window": wc, "retries": 3}, s={"window": ws, "retries": 3}, reqs=reqs, reorder=1, dupcap=1))
            if wc == ws and k in (2, 3, 5):
                single.append(Cfg(c={"window": wc, "retries": 3}, s={"window": ws, "retries": 3}, reqs=[(rq(k) + 1, rs(k))], reorder=1, dupcap=1))
    # the library's own default timers: the segment timeout (5 s) is longer than the APDU timeout (3 s)
    slow = {"seg_timeout": 5000, "apdu_timeout": 3000, "retries": 3}
    for w in (1, 2, 4):
        for reqs in ([(rq(3), 0)], [(0, rs(3))], [(rq(3), rs(3))]):
            single.append(Cfg(c=dict(slow, window=w), s=dict(slow, window=w), reqs=reqs, reorder=1, dupcap=1, label="default-timers"))
    # two transfers one after the other between the same two devices; one frame of the first arrives once more at any
    # point of the second (the application's payloads differ, so a segment that joins the wrong transfer shows)
    for w in (1, 2, 4):
        for reqs in ([(0, rs(3)), (0, rs(3))], [(rq(3), 0), (rq(3), 0)], [(rq(2), rs(2)), (rq(2), rs(2))]):
            single.append(Cfg(c={"window": w, "retries": 3}, s={"window": w, "retries": 3}, reqs=reqs, via="iocb", straggler=True,
                              reorder=0, dupcap=0, label="straggler"))
    single.append(Cfg(c={"retries": 3}, s={"retries": 3}, reqs=[(0, 0)]))
    single.append(Cfg(c={"retries": 1}, s={"retries": 1}, reqs=[(rq(3), rs(3))]))
    # two segment sizes above 50 for single faults
    single.append(Cfg(c={"maxapdu": 128, "retries": 3}, s={"maxapdu": 128, "retries": 3}, reqs=[(300, 300)]))
    d = 2 if tier == "quick" else 3
    for w in ((1, 2, 3, 4) if tier == "quick" else (1, 2, 3, 4, 8)):
        for k in (3, 5):
            for reqs in ([(rq(k), 0)], [(0, rs(k))]):
                multi.append((Cfg(c={"window": w, "retries": 2}, s={"window": w, "retries": 2}, reqs=reqs, reorder=2, dupcap=1), d))
    multi.append((Cfg(c={"window": 2, "retries": 1}, s={"window": 2, "retries": 1}, reqs=[(rq(3), rs(3))], reorder=2), 2))
    return single, multi


def wrap_plan(item, deadline):
    """Long transfer (> 256 segments): single faults at every decision point whose oldest in-flight frame carries a
    sequence number next to the modulo-256 wrap (254, 255, 0, 1, 2 of the second lap)."""
    from bv.stacks.appsys import AppSystem
    from bv.refs import ssmwire
    cfg_json = item
    cfg = Cfg.from_json(cfg_json)
    acc = Acc()
    sysm = AppSystem(cfg)
    sysm.start()
    kids = []
    i = 0
    while True:
        m = sysm.menu()
        if not m or i > 6000:
            break
        fr = sysm.wire.inflight[0] if sysm.wire.inflight else None
        near = False
        if fr is not None and i > 40:
            try:
                n, a = ssmwire.parse_frame(fr.data)
                near = a is not None and a["seq"] is not None and a["seq"] in (254, 255, 0, 1, 2) and a["type"] in (0, 3, 4)
            except ssmwire.WireError:
                near = False
        if near:
            for alt in range(1, len(m)):
                if m[alt][1] <= 1:
                    kids.append((cfg_json, 1, "single", [0] * i + [alt]))
        sysm.apply(m[0][0])
        i += 1
    acc.info["kids"] = kids
    return acc


def bc_plan(item, deadline):
    cfg_json, bound, mode = item
    cfg = Cfg.from_json(cfg_json)
    acc = Acc()
    sysm, points = run_execution(cfg, ())
    kids = explorer.children(points, 0, bound)
    acc.info["kids"] = [(cfg_json, bound, mode, list(k)) for k in kids]
    return acc


def bc_subtree(item, deadline):
    cfg_json, bound, mode, root = item
    cfg = Cfg.from_json(cfg_json)
    acc = Acc()

    long_ = (cfg.label or "").startswith("long")

    def run(prefix):
        return run_execution(cfg, prefix, max_steps=8000 if long_ else 400, want_states=None if long_ else acc.states)

    def on_exec(sysm, points, prefix):
        record(acc, cfg_json, sysm, points, mode)

    if long_:
        # exactly the one fault of the root prefix, no further deviations
        sysm, points = run(tuple(root))
        on_exec(sysm, points, tuple(root))
        return acc
    n, capped = explorer.explore(run, bound, on_exec, deadline, roots=(tuple(root),))
    if capped:
        acc.cap("%s: deadline inside a subtree" % mode)
    return acc


def bc_batch(items, deadline):
    acc = Acc()
    for it in items:
        acc.merge(bc_subtree(it, deadline))
    return acc


# ----------------------------------------------------------------------------- entry points

def run(tier, seed, deadline):
    vclock.install()
    acc = Acc()
    # determinism probe
    probe = Cfg(reqs=[(rq(3), rs(3))])
    a, pa = run_execution(probe, (0, 1))
    oa = (a.client.confirmations, a.wire.log, a.trace)
    b, pb = run_execution(probe, (0, 1))
    if oa != (b.client.confirmations, b.wire.log, b.trace):
        raise HarnessError("C05: the same schedule gave two different observations")

    t0 = time.time()
    span = deadline - t0
    sweep = sweep_cases(tier)
    run_shards(a_shard, chunks(sweep, 64), t0 + span * 0.35, into=acc)
    acc.info["A sweep cases"] = len(sweep)
    longs = long_cases(tier)
    run_shards(a_shard, [[c] for c in longs], t0 + span * 0.5, into=acc)
    acc.info["A long transfers"] = len(longs)

    single, multi = fault_cfgs(tier)
    items = [(c.to_json(), 1, "single") for c in single] + [(c.to_json(), d, "multi") for (c, d) in multi]
    plan = run_shards(bc_plan, items, deadline)
    kids = plan.info.pop("kids", [])
    kids.sort(key=lambda k: -k[1])
    singles = [k for k in kids if k[2] == "single"]
    multis = [k for k in kids if k[2] == "multi"]
    acc.info["B single-fault placements"] = len(singles)
    acc.info["C first-level deviations"] = len(multis)
    run_shards(bc_subtree, multis, deadline, into=acc)
    run_shards(bc_batch, chunks(singles, 64), deadline, into=acc)
    # single faults next to the sequence-number wrap of a transfer of more than 256 segments
    wraps = []
    for w in ((1, 2, 8) if tier == "quick" else (1, 2, 3, 4, 8)):
        for reqs in ([(rq(260), 0)], [(0, rs(260))]):
            wraps.append(Cfg(c={"window": w, "maxsegs": 65, "retries": 3}, s={"window": w, "maxsegs": 65, "retries": 3}, reqs=reqs,
                             label="long260-w%d" % w).to_json())
    wplan = run_shards(wrap_plan, wraps, deadline)
    wkids = wplan.info.pop("kids", [])
    acc.info["B single-fault placements at the wrap of 260-segment transfers"] = len(wkids)
    run_shards(bc_batch, chunks(wkids, 64), deadline, into=acc)
    s = run_execution(single[3], (0, 0, 1))[0]
    acc.sample({"cfg": single[3].describe(), "schedule": s.trace, "faults": s.faults,
                "outcome": [(c[1], len(c[4]) if isinstance(c[4], bytes) else c[4]) for c in s.client.confirmations]})
    return acc


def replay(case):
    vclock.install()
    cfg = Cfg.from_json(case["cfg"])
    steps = 8000 if (cfg.label or "").startswith("long") else 400
    sysm, points = run_execution(cfg, tuple(case["choices"]), max_steps=steps)
    got, problems = judge(sysm, case["mode"])
    text = "cfg=%r\nschedule=%r\nfaults=%r\noutcomes=%r\nwire=%r\nswallowed=%r\nproblems=%r" % (
        cfg.describe(), sysm.trace[:100], sysm.faults,
        [(c[1], len(c[4]) if isinstance(c[4], bytes) else c[4]) for c in sysm.client.confirmations],
        [frame_label(f[4]) for f in sysm.wire.log][:100], O.swallowed_kinds(sysm), problems[:10])
    return not problems, text
