"""C03 Every service PDU and constructed type round-trips and matches the standard.

E3: bounded-exhaustive enumeration of value *shapes* of every registered service PDU and every constructed
class reachable from apdu/basetypes (bv.refs.asn1gen), judged by

  (1) self-consistency on the real classes: encode -> decode -> equal (own comparer + dict_contents),
      re-encode byte-identical, service PDUs through the real registries, trailing tag => TooManyArguments,
      the same value through Any.cast_in / cast_out, ArrayOf item access (length element and items);
  (2) independence: the live tables are diffed against the committed transcription asn1_schema.json and a
      naive encoder that knows only that transcription and clause 20.2 (bv.refs.asn1ref) must produce the
      same octets as bacpypes for every generated value;
  (3) annexf.json: worked examples of Annex F, octets -> parameters and parameters -> octets.
"""
import re
import time

import bv  # noqa: F401
from bacpypes import apdu as A
from bacpypes import constructeddata as CD
from bacpypes import primitivedata as PD
from bacpypes.errors import TooManyArguments
from bacpypes.pdu import PDU, PDUData

from bv.engine.acc import Acc
from bv.engine.pool import run_shards, HarnessError
from bv.refs import asn1gen as G
from bv.refs import asn1ref as R

PROPERTY = "C03"
LEVEL = "exploration"
BUDGET = {"quick": 95.0, "thorough": 1200.0}
RULE = ("for every registry entry (service choice -> class) and every Sequence/Choice/SequenceOf/ListOf/ArrayOf/Any class "
        "reachable from apdu and basetypes: all shapes inside the bound, graded by size (optional pattern: distance from the "
        "nearer of none/all present; +1 per list item; +1 for a non-empty Any) and taken smallest first = "
        "every subset of optional elements (all 2^k for k<=8, else none/all/single-present/single-absent) x every choice "
        "alternative x list lengths 0..L x nesting depth<=4 (deeper levels: the one minimal shape) x Any "
        "{empty, one atomic, one constructed}; each shape is run under R rotations of the leaf boundary sets (leaf values "
        "are rotated, never cross-multiplied; the seed offsets the rotation); a case is distinct by "
        "(type or registry entry, size, index within size, rotation); a type whose shape count exceeds the budget is cut "
        "after the complete size levels that fit plus an evenly spaced selection of the next level (reported as cap). "
        "Plus: the exhaustive diff of all live tables against the committed transcription, and all Annex F vectors.")
ASSUMPTIONS = [
    "trusted base of oracle 2: bv/refs/asn1_schema.json (first draft extracted from the unchanged tree at 4a46b7a, then "
    "checked by hand against Clause 21 for all service PDUs and the base types they use; deviations from the standard "
    "are listed in its clause21_review section) and the clause 20.2 encoder in asn1ref.py",
    "leaf values come from boundary sets by rotation: a defect that needs one particular interior leaf value, or a "
    "particular combination of two leaf values, is out of reach (C01 covers the primitives themselves)",
    "values are given to the constructors the way Sequence.decode returns them (raw python values for atomic elements, "
    "python lists for SequenceOf/ListOf elements); Enumerated/ObjectType names are fed in canonical form (the name "
    "when the number is in the table); NaN is not fed (it is unequal to itself)",
    "nesting deeper than 4 constructed levels takes one minimal shape; list lengths above L and Any contents beyond "
    "one value are not covered",
    "annexf.json was written from memory of the standard; every vector records the confidence of the transcription",
    "segmentation, the fixed APDU header fields (C07) and the primitive encodings themselves (C01/C02) are only "
    "touched as far as the generated values need them",
]
BOUNDS = {
    "quick": "list lengths 0..2, depth<=4, <=400 shapes per type, each under up to 10 rotations of the leaf values "
             "(<=1200 cases per type), all 58 registry entries, all Annex F vectors, full schema diff",
    "thorough": "list lengths 0..3, depth<=4, <=20000 shapes per type, each under up to 24 rotations of the leaf values "
                "(<=40000 cases per type), all 58 registry entries, all Annex F vectors, full schema diff",
}
TIERS = {"quick": {"max_list": 2, "budget": 400, "rotations": 10, "case_cap": 1200},
         "thorough": {"max_list": 3, "budget": 20000, "rotations": 24, "case_cap": 40000}}

PDU_CLASS = {"confirmed": A.ConfirmedRequestPDU, "complexack": A.ComplexAckPDU,
             "unconfirmed": A.UnconfirmedRequestPDU, "error": A.ErrorPDU}
TRAILERS = [("ctx254", bytes.fromhex("f9fe00")), ("null", bytes.fromhex("00"))]
MAX_LOCALIZE_PER_SHARD = 150


# ----------------------------------------------------------------------------- per-process context

class Ctx(object):
    _inst = None
    _tier = {}

    def __init__(self):
        self.types = G.Types()
        self.schema = R.load_schema()
        self.ref = R.Ref(self.schema)
        self.bd = G.Boundaries(self.types, self.schema)
        self.builder = G.Builder(self.types)
        self.registry_of = {}           # type name -> [(registry, choice)]
        for reg, table in self.types.registries.items():
            for choice, name in table.items():
                self.registry_of.setdefault(name, []).append((reg, choice))
        self.loc_cache = {}
        self.loc_count = 0

    @classmethod
    def get(cls):
        if cls._inst is None:
            cls._inst = Ctx()
        return cls._inst

    def tier(self, max_list, seed):
        key = (max_list, seed)
        t = self._tier.get(key)
        if t is None:
            b = G.Bounds(max_list)
            t = self._tier[key] = (G.SpaceManager(self.types, b), G.Filler(self.types, b, self.bd, seed))
        return t


def targets(ctx):
    """what is enumerated: (type name, registry or None, choice or None), sorted"""
    out = []
    for name in ctx.types.constructed():
        regs = list(ctx.registry_of.get(name, ()))
        # entries the transcription lists for this class are exercised even if the tree no longer registers them
        for reg, table in ctx.schema["registries"].items():
            for choice, cls in table.items():
                if cls == name and (reg, int(choice)) not in regs and ctx.types[name].pdu is not None:
                    regs.append((reg, int(choice)))
        if regs:
            for reg, choice in sorted(regs):
                out.append((name, reg, choice))
        else:
            out.append((name, None, None))
    return out


# ----------------------------------------------------------------------------- failure record

class Fail(Exception):
    """One oracle failed for one value."""

    def __init__(self, oracle, kind, message="", path="", extra=None):
        Exception.__init__(self, "%s:%s %s" % (oracle, kind, message))
        self.oracle = oracle
        self.kind = kind
        self.message = message
        self.path = path
        self.extra = extra or {}


def _exc_kind(prefix, err):
    return "%s-%s" % (prefix, type(err).__name__)


def _msg(err):
    s = str(err)
    s = re.sub(r"0x[0-9a-fA-F]+", "0x", s)
    return s[:160]


def sanitize(s):
    return re.sub(r"[^A-Za-z0-9_.()~+-]+", "-", s).strip("-")


# ----------------------------------------------------------------------------- comparer (own structural equality)

def tags_octets(taglist):
    pd = PDUData()
    taglist.encode(pd)
    return bytes(pd.pduData)


def _carrier(number):
    return type("AnyCarrier%d" % number, (CD.Sequence,),
                {"sequenceElements": [CD.Element("value", CD.Any, number), CD.Element("tail", PD.Unsigned, 7),
                                      CD.Element("label", PD.CharacterString, 20)]})


# a property value on the wire: the value inside an Any inside context N, followed by something else (WriteProperty,
# ReadPropertyACK, PropertyValue ... all have this form; N = 0..3 are the numbers the standard uses for it)
CARRIERS = [(n, _carrier(n)) for n in (0, 1, 2, 3)]
# ... [7] 5, [20] "pump-12" (a vendor structure: extended tag number and extended length in one tag)
CARRIER_TAIL = bytes([0x79, 0x05, 0xFD, 0x14, 0x08, 0x00]) + b"pump-12"


class Comparer(object):
    def __init__(self, ctx):
        self.ctx = ctx
        self.types = ctx.types
        self.ref = ctx.ref

    def prim(self, cls, exp, got, path, out):
        a = self.ref.canon_prim(cls, exp)
        b = self.ref.canon_prim(cls, got)
        if a != b:
            if a[0] == "enum" and b[0] in ("enum", "raw") and isinstance(got, (str, int)) and not isinstance(got, bool):
                out.append((path, "expected %s %r, decoded %r" % (cls, exp, got), ("enum", cls, exp, got)))
            else:
                out.append((path, "expected %s %r, decoded %r" % (cls, exp, got)))
        elif a[0] == "enum" and isinstance(exp, str) and isinstance(got, str) and exp != got:
            # same number, other name: the value that comes back is not the value that went in
            out.append((path, "expected %s %r, decoded under the name %r" % (cls, exp, got), ("alias", cls, exp, got)))

    def atomic_instance(self, v, got, path, out):
        # v = ('X', app class, value): got must be an instance of exactly that application class
        if not isinstance(got, PD.Atomic):
            out.append((path, "expected an instance of %s, decoded %r" % (v[1], type(got).__name__)))
            return
        if type(got).__name__ != v[1]:
            out.append((path, "expected an instance of %s, decoded an instance of %s" % (v[1], type(got).__name__)))
            return
        self.prim(v[1], v[2], got.value, path, out)

    def compare(self, v, got, path, out, as_element_of=None):
        """v neutral value, got the decoded thing standing at that position"""
        if len(out) > 4:
            return
        k = v[0]
        if k == "P":
            self.prim(v[1], v[2], got, path, out)
        elif k == "X":
            self.atomic_instance(v, got, path, out)
        elif k == "S":
            ti = self.types[v[1]]
            if not isinstance(got, ti.cls):
                out.append((path, "expected a %s, decoded %r" % (v[1], type(got).__name__)))
                return
            for name, x in v[2]:
                g = getattr(got, name, None)
                if x is None:
                    if g is not None:
                        out.append(("%s.%s" % (path, name), "absent element decoded as %s" % _short(g)))
                    continue
                if g is None:
                    out.append(("%s.%s" % (path, name), "present element decoded as None"))
                    continue
                self.compare(x, g, "%s.%s" % (path, name), out, as_element_of="sequence")
        elif k == "C":
            ti = self.types[v[1]]
            if not isinstance(got, ti.cls):
                out.append((path, "expected a %s, decoded %r" % (v[1], type(got).__name__)))
                return
            for e in ti.elements:
                g = getattr(got, e.name, None)
                if e.name == v[2]:
                    if g is None:
                        out.append(("%s.%s" % (path, e.name), "chosen alternative decoded as None"))
                    else:
                        self.compare(v[3], g, "%s.%s" % (path, e.name), out, as_element_of="choice")
                elif g is not None:
                    out.append(("%s.%s" % (path, e.name), "alternative not chosen decoded as %s" % _short(g)))
        elif k == "L":
            ti = self.types[v[1]]
            if as_element_of is not None and ti.kind in ("sequenceof", "listof"):
                items = got                      # Sequence/Choice hand out a plain list
                if not isinstance(items, list):
                    out.append((path, "expected a python list, decoded %r" % type(got).__name__))
                    return
            else:
                if not isinstance(got, ti.cls):
                    out.append((path, "expected a %s, decoded %r" % (v[1], type(got).__name__)))
                    return
                items = got.value
                if ti.kind == "arrayof":
                    if not items or items[0] != len(items) - 1:
                        out.append((path, "array length element %r does not match %d items" % (items[:1], len(items) - 1)))
                        return
                    items = items[1:]
            self.items(v, items, path, out)
        elif k == "A":
            ti = self.types[v[1]]
            if not isinstance(got, ti.cls):
                out.append((path, "expected a %s, decoded %r" % (v[1], type(got).__name__)))
                return
            try:
                exp = self.ref.encode(v[1], v)
            except R.RefError:
                exp = None
            if exp is not None:
                have = tags_octets(got.tagList)
                if have != exp:
                    out.append((path, "Any holds %s, expected %s" % (have.hex(), exp.hex())))
                    return
            if len(v[2]) == 1:
                x = v[2][0]
                try:
                    if x[0] == "X":
                        back = got.cast_out(self.types[x[1]].cls if x[1] in self.types else G.app_class(x[1]))
                        self.prim(x[1], x[2], back, path + ".cast_out", out)
                    elif x[0] == "L":
                        back = got.cast_out(self.types[x[1]].cls)
                        if not isinstance(back, list):
                            out.append((path + ".cast_out", "expected a list, got %r" % type(back).__name__))
                        else:
                            self.items(x, back, path + ".cast_out", out)
                    else:
                        back = got.cast_out(self.types[x[1]].cls)
                        self.compare(x, back, path + ".cast_out", out)
                except Exception as err:
                    out.append((path + ".cast_out", "cast_out raises %s: %s" % (type(err).__name__, _msg(err))))

    def items(self, v, items, path, out):
        ti = self.types[v[1]]
        sub = self.types[ti.subtype]
        if len(items) != len(v[2]):
            out.append((path, "expected %d items, decoded %d" % (len(v[2]), len(items))))
            return
        for i, (x, g) in enumerate(zip(v[2], items)):
            if sub.kind == "atomic":
                self.prim(x[1], x[2], g, "%s[%d]" % (path, i), out)
            else:
                self.compare(x, g, "%s[%d]" % (path, i), out)


def _short(x):
    s = repr(x)
    s = re.sub(r" (instance|object) at 0x[0-9a-fA-F]+", "", s)
    return s[:80]


# ----------------------------------------------------------------------------- one value through all oracles

def _encode_plain(obj):
    tl = PD.TagList()
    obj.encode(tl)
    return tags_octets(tl)


def _decode_plain(ti, data):
    tl = PD.TagList()
    tl.decode(PDUData(data))
    obj = ti.cls()
    obj.decode(tl)
    return obj, len(tl)


class NotPlain(Exception):
    pass


def _plain(x, depth=0):
    """dict_contents hands out python values, Atomic instances (AnyAtomic positions) and, where a class table does not
    describe what its hand-written codec stores (NameValue.value holding a DateTime), arbitrary objects without
    equality: the first two are normalised, the last makes the dictionaries incomparable (oracle skipped)."""
    if depth > 40:
        raise NotPlain()
    if x is None or isinstance(x, (bool, int, str, bytes, bytearray)):
        return x
    if isinstance(x, float):
        return ("float", repr(x))
    if isinstance(x, PD.Atomic):
        return ("atomic", type(x).__name__, _plain(x.value, depth + 1))
    if isinstance(x, dict):
        return dict((k, _plain(v, depth + 1)) for k, v in x.items())
    if isinstance(x, (list, tuple)):
        return [_plain(v, depth + 1) for v in x]
    raise NotPlain()


def _dict(obj, service):
    if service:
        return _plain(obj.apdu_contents())
    return _plain(obj.dict_contents())


def service_octets(obj, pdu_kind):
    """the stack's own path: service object -> xPDU -> APDU -> octets"""
    xpdu = PDU_CLASS[pdu_kind]()
    obj.encode(xpdu)
    apdu = A.APDU()
    xpdu.encode(apdu)
    pdu = PDU()
    apdu.encode(pdu)
    return bytes(xpdu.pduData), bytes(pdu.pduData)


def service_decode(octets, expect_cls=None, error_fallback=False):
    """octets -> APDU -> xPDU -> class found in the live registry -> decoded object"""
    apdu = A.APDU()
    apdu.decode(PDU(octets))
    xcls = A.apdu_types.get(apdu.apduType)
    if xcls is None:
        raise Fail("registry", "unknown-pdu-type", str(apdu.apduType))
    xpdu = xcls()
    xpdu.decode(apdu)
    reg = {A.ConfirmedRequestPDU: A.confirmed_request_types, A.UnconfirmedRequestPDU: A.unconfirmed_request_types,
           A.ComplexAckPDU: A.complex_ack_types, A.ErrorPDU: A.error_types}.get(xcls)
    if reg is None:
        return xpdu, xpdu
    atype = reg.get(xpdu.apduService)
    if atype is None and error_fallback and xcls is A.ErrorPDU:
        atype = A.Error             # what ApplicationServiceAccessPoint.confirmation does for unlisted services
    if atype is None:
        raise Fail("registry", "no-decoder-registered", "service choice %r" % (xpdu.apduService,))
    if expect_cls is not None and atype is not expect_cls:
        raise Fail("registry", "decodes-as-other-class", "service choice %r decodes as %s" % (xpdu.apduService, atype.__name__))
    obj = atype()
    obj.decode(xpdu)
    return xpdu, obj


def check_value(ctx, tname, v, reg=None, choice=None, variant="list", observe=None):
    """Runs every oracle on one value; raises Fail on the first contradiction.  Returns the parameter octets."""
    ti = ctx.types[tname]
    service = ti.pdu is not None
    cmp_ = Comparer(ctx)
    # -- build
    try:
        obj = ctx.builder.instance(v, variant)
    except Exception as err:
        raise Fail("roundtrip", _exc_kind("construct-raises", err), _msg(err))
    invoke = 1
    full = None
    # -- encode
    try:
        if service:
            if ti.pdu in ("confirmed", "complexack", "error"):
                obj.apduInvokeID = invoke
            if ti.pdu == "confirmed":
                obj.apduMaxSegs = 0
                obj.apduMaxResp = 5
            if reg is not None and (ti.pdu == "error" or obj.apduService is None):
                obj.apduService = choice
            if reg is not None:
                data, full = service_octets(obj, ti.pdu)
            else:
                xpdu = PDU_CLASS[ti.pdu]()
                obj.encode(xpdu)
                data = bytes(xpdu.pduData)
        else:
            data = _encode_plain(obj)
    except Exception as err:
        raise Fail("roundtrip", _exc_kind("encode-raises", err), _msg(err))
    if observe is not None:
        observe["octets"] = data
    # -- decode
    try:
        if service and reg is not None:
            xpdu, got = service_decode(full, ti.cls)
            left = 0
            if xpdu.apduService != choice or (ti.pdu != "unconfirmed" and xpdu.apduInvokeID != invoke):
                raise Fail("roundtrip", "header-differs", "service %r invoke %r" % (xpdu.apduService, xpdu.apduInvokeID))
        elif service:
            xpdu = PDU_CLASS[ti.pdu]()
            xpdu.put_data(data)
            got = ti.cls()
            got.decode(xpdu)
            left = 0
        else:
            got, left = _decode_plain(ti, data)
    except Fail:
        raise
    except Exception as err:
        raise Fail("roundtrip", _exc_kind("decode-raises", err), _msg(err))
    if left:
        raise Fail("roundtrip", "decode-leaves-tags", "%d tags not consumed" % left)
    # -- equality, own comparer
    out = []
    cmp_.compare(v, got, "", out)
    if out:
        path, text = out[0][0], out[0][1]
        if len(out[0]) > 2 and out[0][2][0] == "alias":
            raise Fail("roundtrip", "name-decodes-as-other-name", "%s: %s" % (path or ".", text), extra={"alias": out[0][2]})
        if len(out[0]) > 2 and out[0][2][0] == "enum":
            raise Fail("roundtrip", "decoded-value-differs", "%s: %s" % (path or ".", text), extra={"alias": out[0][2]})
        raise Fail("roundtrip", "decoded-value-differs", "%s: %s" % (path or ".", text), path=re.sub(r"\[\d+\]", "[]", path))
    # -- equality, dict_contents
    try:
        d1 = _dict(obj, service)
        d2 = _dict(got, service)
    except NotPlain:
        if observe is not None:
            observe["dict_contents_not_plain"] = True
    except Exception as err:
        if observe is not None:
            observe["dict_contents_raises"] = type(err).__name__
    else:
        try:
            same = (d1 == d2)
        except Exception as err:
            same = False
        if not same:
            raise Fail("roundtrip", "dict-contents-differ", "%s / %s" % (_short(d1), _short(d2)))
    # -- re-encode
    try:
        if service:
            x2 = PDU_CLASS[ti.pdu]()
            got.encode(x2)
            again = bytes(x2.pduData)
        else:
            again = _encode_plain(got)
    except Exception as err:
        raise Fail("roundtrip", _exc_kind("reencode-raises", err), _msg(err))
    if again != data:
        raise Fail("roundtrip", "reencode-differs", "first %s / second %s" % (data.hex(), again.hex()))
    # -- the same objects encoded once more (an application may send one request object several times; a gateway may
    #    re-encode what it decoded): same octets every time
    try:
        for who, o in (("original", obj), ("decoded", got)):
            if service:
                x3 = PDU_CLASS[ti.pdu]()
                o.encode(x3)
                third = bytes(x3.pduData)
            else:
                third = _encode_plain(o)
            if third != data:
                raise Fail("roundtrip", "second-encoding-of-the-same-object-differs:%s" % who,
                           "first %s / again %s" % (data.hex(), third.hex()))
    except Fail:
        raise
    except Exception as err:
        raise Fail("roundtrip", _exc_kind("second-encoding-raises", err), _msg(err))
    # -- oracle 2: the transcription-driven encoder
    if ctx.ref.knows(tname):
        try:
            exp = ctx.ref.encode(tname, v)
        except R.RefError as err:
            raise Fail("reference", "value-not-encodable-under-transcription", _msg(err))
        if exp != data:
            raise Fail("reference", "octets-differ", "bacpypes %s / transcription %s" % (data.hex(), exp.hex()),
                       extra={"bacpypes": data, "reference": exp})
        if full is not None:
            head = R.apci(ti.pdu, service=choice, invoke=invoke, max_segs=0, max_resp=5)
            if full != head + exp:
                raise Fail("reference", "apdu-octets-differ", "bacpypes %s / transcription %s" % (full.hex(), (head + exp).hex()))
    elif observe is not None:
        observe["no_reference"] = True
    # -- the same value carried in an Any (how property values travel): cast_in gives the same octets, cast_out the value
    if not service and ti.kind in ("sequence", "choice", "sequenceof", "listof", "arrayof"):
        try:
            carrier = CD.Any(obj)
            held = tags_octets(carrier.tagList)
            back = carrier.cast_out(ti.cls)
        except Exception as err:
            raise Fail("any-cast", _exc_kind("raises", err), _msg(err))
        if held != data:
            raise Fail("any-cast", "cast_in-octets-differ", "Any holds %s, encode gave %s" % (held.hex(), data.hex()))
        out = []
        if ti.is_list() and not isinstance(back, ti.cls):
            # list classes built by the factories come back as plain lists, named subclasses (PriorityArray) as instances
            if not isinstance(back, list):
                out.append(("", "cast_out returned %r, a list was expected" % type(back).__name__))
            else:
                cmp_.items(v, back, "", out)
        else:
            cmp_.compare(v, back, "", out)
        if out:
            raise Fail("any-cast", "cast_out-value-differs", "%s: %s" % (out[0][0] or ".", out[0][1]),
                       path=re.sub(r"\[\d+\]", "[]", out[0][0]))
        # the Any itself on the wire, inside each of the enclosing context numbers and followed by another element:
        # Any.decode has to find the end of the value whatever numbers the value opens and closes inside
        for number, carrier_cls in CARRIERS:
            exp = bytes([(number << 4) | 0x0E]) + data + bytes([(number << 4) | 0x0F]) + CARRIER_TAIL
            try:
                wire = _encode_plain(carrier_cls(value=carrier, tail=5, label="pump-12"))
            except Exception as err:
                raise Fail("any-on-the-wire", _exc_kind("encode-raises", err), _msg(err))
            if wire != exp:
                raise Fail("any-on-the-wire", "octets-differ", "context %d: %s, expected %s" % (number, wire.hex(), exp.hex()))
            try:
                tl = PD.TagList()
                tl.decode(PDUData(wire))
                back2 = carrier_cls()
                back2.decode(tl)
                left = len(tl.tagList)
                held2 = tags_octets(back2.value.tagList)
                tail = back2.tail if back2.label == "pump-12" else (back2.tail, back2.label)
            except Exception as err:
                raise Fail("any-on-the-wire", _exc_kind("decode-raises", err), "context %d: %s" % (number, _msg(err)))
            if held2 != data or tail != 5 or left:
                raise Fail("any-on-the-wire", "decoded-differs", "context %d: Any holds %s, expected %s; tail %r; %d tags left"
                           % (number, held2.hex(), data.hex(), tail, left))
    # -- a Choice object that is decoded into again (a receiver with a scratch object): the object left by the previous
    #    case of this type (usually another alternative) takes this case's octets; it must then hold this value only
    if ti.kind == "choice" and not service:
        prev = getattr(ctx, "_scratch_choice", {}).get(tname)
        if prev is not None:
            try:
                tl = PD.TagList()
                tl.decode(PDUData(data))
                prev.decode(tl)
                again2 = _encode_plain(prev)
            except Exception as err:
                raise Fail("reused-choice", _exc_kind("raises", err), _msg(err))
            out2 = []
            cmp_.compare(v, prev, "", out2)
            if out2:
                raise Fail("reused-choice", "object-decoded-into-again-keeps-the-alternative-of-the-value-before",
                           "%s: %s" % (out2[0][0] or ".", out2[0][1]))
            if again2 != data:
                raise Fail("reused-choice", "re-encoding-after-second-decode-differs", "second %s / expected %s" % (again2.hex(), data.hex()))
        if not hasattr(ctx, "_scratch_choice"):
            ctx._scratch_choice = {}
        ctx._scratch_choice[tname] = got
    # -- ArrayOf item access
    if ti.kind == "arrayof":
        check_array_items(ctx, ti, v, obj, cmp_)
    # -- trailing tag
    if service and reg is not None:
        absorbs = ctx.ref.tail_absorbs(tname) if ctx.ref.knows(tname) else None
        last_optional_untagged = False
        if ti.elements:
            le = ti.elements[-1]
            last_optional_untagged = le.context is None and le.optional and ctx.types[le.type].is_constructed()
        for label, extra in TRAILERS:
            try:
                service_decode(full + extra, ti.cls)
            except TooManyArguments:
                if observe is not None:
                    observe.setdefault("trailing", []).append("TooManyArguments")
                continue
            except Fail:
                raise
            except Exception as err:
                if observe is not None:
                    observe.setdefault("trailing", []).append(type(err).__name__)
                if absorbs or absorbs is None or last_optional_untagged:
                    continue        # the tag was met inside the open-ended last element and refused there
                raise Fail("trailing-tag", _exc_kind("raises", err) + "-instead-of-TooManyArguments", "%s: %s" % (label, _msg(err)))
            raise Fail("trailing-tag", "accepted-silently", "trailing %s tag was ignored" % label)
    return data


def check_array_items(ctx, ti, v, obj, cmp_):
    n = len(v[2])
    sub = ctx.types[ti.subtype]
    for idx in range(0, n + 1):
        try:
            tl = PD.TagList()
            obj.encode_item(idx, tl)
            data = tags_octets(tl)
            if idx == 0:
                exp = ctx.ref.primitive("Unsigned", n)
            elif ctx.ref.knows(ti.subtype):
                exp = ctx.ref._item(ti.subtype, v[2][idx - 1])
            else:
                exp = data
            if data != exp:
                raise Fail("array-item", "item-octets-differ", "index %d: bacpypes %s / transcription %s" % (idx, data.hex(), exp.hex()),
                           path="[len]" if idx == 0 else "[]")
            back = ti.cls()
            tl2 = PD.TagList()
            tl2.decode(PDUData(data))
            back.decode_item(idx, tl2)
            got = back.value
            out = []
            if idx == 0:
                if got != n or isinstance(got, bool):
                    out.append(("[len]", "length element decoded as %r, expected %d" % (got, n)))
            elif sub.kind == "atomic":
                cmp_.prim(ti.subtype, v[2][idx - 1][2], got, "[%d]" % idx, out)
            else:
                cmp_.compare(v[2][idx - 1], got, "[%d]" % idx, out)
            if out:
                raise Fail("array-item", "item-value-differs", "%s: %s" % out[0][:2], path="[len]" if idx == 0 else "[]")
            if len(tl2):
                raise Fail("array-item", "item-decode-leaves-tags", "index %d" % idx, path="[len]" if idx == 0 else "[]")
        except Fail:
            raise
        except Exception as err:
            raise Fail("array-item", _exc_kind("item-access-raises", err), "index %d: %s" % (idx, _msg(err)),
                       path="[len]" if idx == 0 else "[]")


# ----------------------------------------------------------------------------- localisation of a failure

def _fails(ctx, tname, v, variant):
    try:
        check_value(ctx, tname, v, None, None, variant)
    except Fail as f:
        return f
    return None


def _children(v):
    k = v[0]
    if k == "S":
        return [x for n, x in v[2] if x is not None and x[0] in "SCLA"]
    if k == "C":
        return [v[3]] if v[3][0] in "SCLA" else []
    if k in ("L", "A"):
        return [x for x in v[2] if x[0] in "SCLA"]
    return []


def _shape_class(x):
    if x is None:
        return "absent"
    k = x[0]
    if k == "L":
        n = len(x[2])
        return "list-len%s" % (n if n < 2 else "2+")
    if k == "A":
        if not x[2]:
            return "any-empty"
        return "any-atomic" if x[2][0][0] == "X" else "any-constructed"
    if k == "C":
        return "choice"
    if k == "S":
        return "sequence"
    return "atomic"


def _candidates(ctx, filler, v, out, setter, depth=0):
    """deepest first: (owner type, element, original sub value, [replacement values], rebuild function)"""
    k = v[0]
    if depth > 8:
        return
    if k == "S":
        ti = ctx.types[v[1]]
        for idx, ((name, x), el) in enumerate(zip(v[2], ti.elements)):
            def put(new, idx=idx, name=name):
                items = list(v[2])
                items[idx] = (name, new)
                return setter(("S", v[1], tuple(items)))
            if x is not None and x[0] in "SCLA":
                _candidates(ctx, filler, x, out, put, depth + 1)
            reps = []
            if x is not None and el.optional:
                reps.append(None)
            reps.extend(_neutral(ctx, filler, el.type, x))
            if reps:
                out.append((v[1], name, x, reps, put))
    elif k == "C":
        ti = ctx.types[v[1]]

        def put_inner(new):
            return setter(("C", v[1], v[2], new))
        if v[3][0] in "SCLA":
            _candidates(ctx, filler, v[3], out, put_inner, depth + 1)
        reps = []
        for e in ti.elements:
            if e.name != v[2]:
                try:
                    reps.append(("C", v[1], e.name, filler.fill(filler._spaces.minimal(e.type), 0)))
                except Exception:
                    continue
                if len(reps) >= 2:
                    break
        if reps:
            out.append((v[1], v[2], v, reps, setter))
    elif k in ("L", "A"):
        for idx, x in enumerate(v[2]):
            if x[0] in "SCLA":
                def put(new, idx=idx):
                    items = list(v[2])
                    items[idx] = new
                    return setter((k, v[1], tuple(items)))
                _candidates(ctx, filler, x, out, put, depth + 1)


def _neutral(ctx, filler, tname, x):
    """alternative values for a list / Any position"""
    if x is None:
        return []
    if x[0] == "L":
        ti = ctx.types[x[1]]
        if ti.fixed_length is not None:
            return []
        if len(x[2]) == 0:
            try:
                return [("L", x[1], (filler.fill(filler._spaces.minimal(ti.subtype), 0),))]
            except Exception:
                return []
        return [("L", x[1], ())]
    if x[0] == "A":
        if x[2]:
            return [("A", x[1], ())]
        if ctx.types[x[1]].kind == "any":
            return [("A", x[1], (("X", "Unsigned", 1),))]
    return []


def localize(ctx, filler, tname, v, fail, variant):
    """-> (blamed type, blamed element, shape class)"""
    node_t, node_v = tname, v
    same = lambda f: f is not None and f.oracle == fail.oracle and f.kind == fail.kind
    for _ in range(12):
        moved = False
        for c in _children(node_v):
            if c[1] not in ctx.types:
                continue
            if same(_fails(ctx, c[1], c, variant)):
                node_t, node_v = c[1], c
                moved = True
                break
        if not moved:
            break
    if fail.oracle == "reference" and fail.kind == "octets-differ":
        # name the element in which the two encodings start to differ
        f2 = _fails(ctx, node_t, node_v, variant)
        if f2 is not None and f2.extra.get("reference") is not None:
            a, b = f2.extra["bacpypes"], f2.extra["reference"]
            d = 0
            while d < min(len(a), len(b)) and a[d] == b[d]:
                d += 1
            for name, lo, hi in ctx.ref.spans(node_t, node_v):
                if lo <= d < hi or (d >= hi and hi == len(b)):
                    return node_t, name, "first-difference-at-this-element"
    cands = []
    _candidates(ctx, filler, node_v, cands, lambda new: new)
    for owner, element, orig, reps, put in cands:
        for rep in reps:
            try:
                nv = put(rep)
            except Exception:
                continue
            if _fails(ctx, node_t, nv, variant) is None:
                sc = _shape_class(orig) if orig is not None and orig[0] != "C" else "alternative"
                if orig is not None and rep is None:
                    sc = "present-" + _shape_class(orig)
                return owner, element, sc
    if fail.path and node_v is v:
        # the comparer's path (relative to the value that was run) names the element
        first = [x for x in fail.path.split(".") if x]
        return node_t, sanitize(first[0]) if first else "*", "any-shape"
    return node_t, "*", "any-shape"


def signature_for(ctx, filler, tname, v, fail, variant, service_level):
    if fail.oracle == "array-item":
        # the length element does not depend on the item type: one signature for the mechanism
        if fail.path == "[len]":
            return "array-item:ArrayOf.length-element:%s" % fail.kind
        return "array-item:%s.item:%s" % (tname, fail.kind)
    if fail.extra.get("alias"):
        _, cls, exp, got = fail.extra["alias"]
        return "roundtrip:%s.%s:enumeration:%s" % (cls, sanitize(str(exp)), fail.kind)
    if service_level:
        return "%s:%s:%s" % (fail.oracle, tname, fail.kind)
    key = (tname, fail.oracle, fail.kind, fail.path if (fail.path or fail.kind == "octets-differ")
           else re.sub(r"\d+", "#", fail.message)[:80])
    sig = ctx.loc_cache.get(key)
    if sig is None:
        if ctx.loc_count >= MAX_LOCALIZE_PER_SHARD:
            return "%s:%s.*:unlocalized:%s" % (fail.oracle, tname, fail.kind)
        ctx.loc_count += 1
        try:
            bt, be, sc = localize(ctx, filler, tname, v, fail, variant)
        except Exception as err:       # localisation is a convenience, never a verdict
            bt, be, sc = tname, "*", "unlocalized-%s" % type(err).__name__
        sig = ctx.loc_cache[key] = "%s:%s.%s:%s:%s" % (fail.oracle, bt, sanitize(be) or "*", sc, fail.kind)
    return sig


# ----------------------------------------------------------------------------- running cases

def has_list_alternative(ctx, v):
    k = v[0]
    if k == "C":
        if v[3][0] == "L":
            return True
        return has_list_alternative(ctx, v[3])
    if k == "S":
        return any(x is not None and has_list_alternative(ctx, x) for n, x in v[2])
    if k in ("L", "A"):
        return any(has_list_alternative(ctx, x) for x in v[2])
    return False


def case_value(ctx, max_list, seed, tname, budget, size, index, rot, ordinal):
    mgr, filler = ctx.tier(max_list, seed)
    ts = mgr.type_space(tname, budget)
    shape = ts.shape(size, index)
    return shape, filler.fill(shape, ordinal + rot), filler


def run_one(ctx, acc, cfg, target, size, index, rot, ordinal, seed):
    tname, reg, choice = target
    shape, v, filler = case_value(ctx, cfg["max_list"], seed, tname, cfg["budget"], size, index, rot, ordinal)
    variants = ["list"]
    if has_list_alternative(ctx, v):
        variants.append("helper")
    for variant in variants:
        acc.case((tname, reg, choice, size, index, rot, variant))
        obs = {}
        try:
            check_value(ctx, tname, v, reg, choice, variant, obs)
        except Fail as f:
            # the same value twice more: same oracle and kind.  All inputs are the harness's own, so a contradiction
            # that does not repeat the same way means the codec's answer depends on what it did before (itself a
            # violation: reported under its own signature, without localisation)
            unstable = None
            for _ in range(2):
                try:
                    check_value(ctx, tname, v, reg, choice, variant)
                    again = None
                except Fail as f2:
                    again = (f2.oracle, f2.kind)
                if again != (f.oracle, f.kind):
                    unstable = again
                    break
            if unstable is not None or getattr(acc, "_unstable", False):
                acc._unstable = True
                acc.outcome("history-dependent")
                acc.fail("history:%s:failure-does-not-repeat-the-same-way" % sanitize(tname),
                         {"type": tname, "value": G.render(v), "first": "%s:%s" % (f.oracle, f.kind), "then": repr(unstable),
                          "message": f.message},
                         {"kind": "shape", "type": tname, "registry": reg, "choice": choice, "size": size, "index": index,
                          "rot": rot, "ordinal": ordinal, "seed": seed, "max_list": cfg["max_list"], "budget": cfg["budget"],
                          "variant": variant})
                continue
            service_level = f.oracle in ("registry", "trailing-tag") or f.kind in ("apdu-octets-differ", "header-differs")
            sig = signature_for(ctx, filler, tname, v, f, variant, service_level)
            acc.outcome("%s:%s" % (f.oracle, f.kind))
            acc.fail(sig,
                     {"type": tname, "registry": reg, "choice": choice, "value": G.render(v), "shape": G.shape_label(shape),
                      "oracle": f.oracle, "failure": f.kind, "message": f.message, "octets": obs.get("octets", b""),
                      "given_as": variant},
                     {"kind": "shape", "type": tname, "registry": reg, "choice": choice, "size": size, "index": index,
                      "rot": rot, "ordinal": ordinal, "seed": seed, "max_list": cfg["max_list"], "budget": cfg["budget"],
                      "variant": variant})
            continue
        acc.outcome("ok")
        for t in obs.get("trailing", ()):
            acc.outcome("trailing:" + t)
        if obs.get("dict_contents_raises"):
            acc.outcome("dict_contents-raises:" + obs["dict_contents_raises"])
            acc.add_info("dict_contents raised (oracle skipped)")
        if obs.get("dict_contents_not_plain"):
            acc.outcome("dict_contents-holds-objects")
            acc.add_info("dict_contents holds objects without equality (oracle skipped)")
        if obs.get("no_reference"):
            acc.add_info("cases without reference (type not in transcription)")
    return v


class Plan(object):
    """the deterministic case list of one target, held as arithmetic: case k = (rotation k // shapes, shape k % shapes)"""

    def __init__(self, ctx, cfg, seed, target):
        mgr, filler = ctx.tier(cfg["max_list"], seed)
        ts = mgr.type_space(target[0], cfg["budget"])
        self.levels, self.complete, self.partial = ts.levels(cfg["budget"])
        self.total = ts.total
        self.shapes = sum(t for _, t, _ in self.levels)
        n = max(1, self.shapes)
        self.rots = max(1, min(cfg["rotations"], cfg["case_cap"] // n))
        self.cases = self.shapes * self.rots

    def case(self, k):
        r, o = divmod(k, self.shapes)
        s, i = G.TypeSpace.nth(self.levels, o)
        return s, i, r, o


def plan_for(ctx, cfg, seed, target):
    return Plan(ctx, cfg, seed, target)


_PLANS = {}


def _plan_of(ctx, cfg, seed, target):
    key = (cfg["budget"], cfg["max_list"], seed, target)
    p = _PLANS.get(key)
    if p is None:
        p = _PLANS[key] = Plan(ctx, cfg, seed, target)
    return p


def shard(item, deadline):
    tier, seed, work = item
    cfg = TIERS[tier]
    ctx = Ctx.get()
    ctx.loc_cache = {}          # signatures must not depend on which shards happened to share a worker process
    ctx.loc_count = 0
    acc = Acc()
    done = 0
    todo = sum(hi - lo for _, lo, hi in work)
    for target, lo, hi in work:
        plan = _plan_of(ctx, cfg, seed, target)
        for k in range(lo, hi):
            if (done & 63) == 0 and time.time() > deadline:
                acc.add_info("planned cases not run (deadline)", todo - done)
                acc.cap("deadline reached before all planned cases were run: the work packages are ordered by rank inside "
                        "their type, so what is missing are the last rotations / largest shapes of the big types; count "
                        "under parts['planned cases not run (deadline)']")
                return acc
            s, i, r, o = plan.case(k)
            v = run_one(ctx, acc, cfg, target, s, i, r, o, seed)
            done += 1
            if done == 1:
                acc.sample({"type": target[0], "registry": target[1], "choice": target[2], "value": G.render(v, 300)})
    return acc


# ----------------------------------------------------------------------------- schema diff and Annex F

INFORMATIONAL = ("not-in-transcription",)


def part_schema(ctx, acc):
    live = G.live_schema(ctx.types)
    diffs = R.diff(ctx.schema, live)
    n_facts = 0
    for name, ent in ctx.schema["types"].items():
        n_facts += 1 + 4 * len(ent.get("elements", []))
        acc.case(("schema-diff", "type", name))
    for reg, table in ctx.schema["registries"].items():
        n_facts += len(table)
        for choice in table:
            acc.case(("schema-diff", reg, choice))
    for name, ent in ctx.schema["primitives"].items():
        n_facts += 1 + len(ent.get("enumerations") or {}) + len(ent.get("bits") or {})
        acc.case(("schema-diff", "primitive", name))
    acc.info["transcribed facts compared with the live tables"] = n_facts
    extra = []
    for scope, tname, element, what, detail in diffs:
        if what in INFORMATIONAL:
            extra.append(detail)
            continue
        acc.outcome("schema-diff:" + what)
        sig = "schema-diff:%s.%s:%s" % (sanitize(tname), sanitize(str(element)), what)
        if scope == "registry":
            sig = "registry-diff:%s.%s:%s" % (tname, element, what)
        acc.fail(sig, {"what": what, "detail": detail}, {"kind": "schema-diff", "scope": scope, "type": tname, "element": element})
    if not diffs:
        acc.outcome("schema-diff:identical")
    if extra:
        acc.info["in the tree but not in the transcription (not judged by oracle 2)"] = extra[:40]
    rev = ctx.schema.get("clause21_review", {})
    acc.info["clause 21 deviations noted in the transcription (kept as the tree has them, not judged)"] = [
        "%s.%s" % (d["type"], d["element"]) for d in rev.get("deviations", [])]
    acc.info["transcription carries the standard's value, not the unchanged tree's"] = [
        "%s.%s %s: %r -> %r" % (d["type"], d["element"], d["field"], d["tree"], d["standard"]) for d in rev.get("corrected", [])]


def annex_vector(ctx, vec):
    """-> None or Fail"""
    ref = ctx.ref
    octets = bytes.fromhex(vec["octets"].replace(" ", ""))
    pdu = vec["pdu"]
    hdr = vec.get("header", {})
    try:
        if pdu in ("simpleack", "reject", "abort"):
            head = R.apci(pdu, service=hdr.get("service"), invoke=hdr.get("invoke"), reason=hdr.get("reason"),
                          srv=hdr.get("srv", False))
            if head != octets:
                raise HarnessError("annexf %s: header notation and octets disagree" % vec["id"])
            # decode
            apdu = A.APDU()
            apdu.decode(PDU(octets))
            xcls = A.apdu_types.get(apdu.apduType)
            x = xcls()
            x.decode(apdu)
            want = {"simpleack": A.SimpleAckPDU, "reject": A.RejectPDU, "abort": A.AbortPDU}[pdu]
            if xcls is not want:
                raise Fail("annexf", "decodes-as-other-pdu", xcls.__name__)
            if x.apduInvokeID != hdr.get("invoke"):
                raise Fail("annexf", "decoded-value-differs", "invoke id %r" % x.apduInvokeID)
            if pdu == "simpleack" and x.apduService != hdr["service"]:
                raise Fail("annexf", "decoded-value-differs", "service %r" % x.apduService)
            if pdu in ("reject", "abort") and x.apduAbortRejectReason != hdr["reason"]:
                raise Fail("annexf", "decoded-value-differs", "reason %r" % x.apduAbortRejectReason)
            if pdu == "abort" and bool(x.apduSrv) != bool(hdr.get("srv", False)):
                raise Fail("annexf", "decoded-value-differs", "srv %r" % x.apduSrv)
            # encode
            if pdu == "simpleack":
                y = A.SimpleAckPDU(hdr["service"], hdr["invoke"])
            elif pdu == "reject":
                y = A.RejectPDU(hdr["invoke"], hdr["reason"])
            else:
                y = A.AbortPDU(hdr.get("srv", False), hdr["invoke"], hdr["reason"])
            a2 = A.APDU()
            y.encode(a2)
            p2 = PDU()
            a2.encode(p2)
            if bytes(p2.pduData) != octets:
                raise Fail("annexf", "octets-differ", "bacpypes %s / published %s" % (bytes(p2.pduData).hex(), octets.hex()))
            return None
        tname = vec["class"]
        v = ref.from_json(tname, vec["parameters"])
        head = R.apci(pdu, service=hdr.get("service"), invoke=hdr.get("invoke"), max_segs=hdr.get("max_segs", 0),
                      max_resp=hdr.get("max_resp", 0), sa=hdr.get("sa", False))
        if head + ref.encode(tname, v) != octets:
            raise HarnessError("annexf %s: the reference encoding of the transcribed parameters is %s, the transcribed octets are %s"
                               % (vec["id"], (head + ref.encode(tname, v)).hex(), octets.hex()))
        regname = R.REGISTRY_OF[pdu]
        listed = ctx.schema["registries"][regname].get(str(hdr["service"]))
        if listed != tname and not (pdu == "error" and listed is None and tname == "Error"):
            raise HarnessError("annexf %s: class %s is not service %s of %s in the transcription" % (vec["id"], tname, hdr["service"], regname))
        if tname not in ctx.types:
            raise Fail("annexf", "class-missing", tname)
        ti = ctx.types[tname]
        # octets -> parameters
        try:
            xpdu, got = service_decode(octets, ti.cls, error_fallback=True)
        except Fail as f:
            raise Fail("annexf", "published-octets-" + f.kind, f.message)
        except Exception as err:
            raise Fail("annexf", _exc_kind("published-octets-decode-raises", err), _msg(err))
        out = []
        Comparer(ctx).compare(v, got, "", out)
        if out:
            raise Fail("annexf", "published-octets-decode-to-other-values", "%s: %s" % out[0][:2])
        if xpdu.apduService != hdr["service"] or (pdu != "unconfirmed" and xpdu.apduInvokeID != hdr["invoke"]):
            raise Fail("annexf", "published-octets-decode-to-other-values", "header service %r invoke %r" % (xpdu.apduService, xpdu.apduInvokeID))
        # parameters -> octets
        try:
            obj = ctx.builder.instance(v, "list")
            if pdu != "unconfirmed":
                obj.apduInvokeID = hdr["invoke"]
            if pdu == "confirmed":
                obj.apduMaxSegs = hdr.get("max_segs", 0)
                obj.apduMaxResp = hdr.get("max_resp", 0)
                obj.apduSA = hdr.get("sa", False)
            if pdu == "error" or obj.apduService is None:
                obj.apduService = hdr["service"]
            data, full = service_octets(obj, pdu)
        except Exception as err:
            raise Fail("annexf", _exc_kind("published-parameters-encode-raises", err), _msg(err))
        if full != octets:
            raise Fail("annexf", "octets-differ", "bacpypes %s / published %s" % (full.hex(), octets.hex()))
        return None
    except Fail as f:
        return f


def part_annexf(ctx, acc):
    data = R.load_annexf()
    n = 0
    for vec in data["vectors"]:
        n += 1
        acc.case(("annexf", vec["id"]))
        f = annex_vector(ctx, vec)
        if f is None:
            acc.outcome("annexf:ok")
            continue
        acc.outcome("annexf:" + f.kind)
        acc.fail("annexf:%s:%s" % (sanitize(vec["id"]), f.kind),
                 {"vector": vec["id"], "source": vec.get("source"), "failure": f.kind, "message": f.message, "octets": vec["octets"]},
                 {"kind": "annexf", "id": vec["id"]})
    acc.info["annex F vectors"] = n
    if data["vectors"]:
        v0 = data["vectors"][0]
        acc.sample({"annexf": v0["id"], "octets": v0["octets"], "parameters": v0.get("parameters", v0.get("header"))})


# ----------------------------------------------------------------------------- entry points

def _determinism_probe(ctx, cfg, seed, tgts):
    """the same cases twice: octets and verdicts must coincide"""
    def once():
        out = []
        for target in tgts:
            plan = plan_for(ctx, cfg, seed, target)
            for (s, i, r, o) in [plan.case(k) for k in range(min(4, plan.cases))]:
                shape, v, filler = case_value(ctx, cfg["max_list"], seed, target[0], cfg["budget"], s, i, r, o)
                obs = {}
                try:
                    check_value(ctx, target[0], v, target[1], target[2], "list", obs)
                    res = "ok"
                except Fail as f:
                    res = "%s:%s:%s" % (f.oracle, f.kind, f.message)
                out.append((target, s, i, r, G.render(v), obs.get("octets"), res))
        return out
    a = once()
    b = once()
    if len(a) != len(b):
        raise HarnessError("C03: two passes over the same cases differ in length")
    # every input is the harness's own and the codec has no clock or randomness: if the same value gives another
    # verdict or other octets the second time, what a decode or encode returns depends on what was done before
    return [(x, y) for x, y in zip(a, b) if x != y]


def run(tier, seed, deadline):
    acc = Acc()
    cfg = TIERS[tier]
    ctx = Ctx.get()
    tgts = targets(ctx)
    part_schema(ctx, acc)
    part_annexf(ctx, acc)
    for x, y in _determinism_probe(ctx, cfg, seed, tgts[::7])[:20]:
        acc.fail("history:%s:same-value-gives-another-result-the-second-time" % sanitize(x[0][0]),
                 {"type": x[0][0], "value": x[4], "first": x[6], "second": y[6]},
                 {"kind": "twice", "target": list(x[0])})

    # plan all targets, cut into work packages of 250 cases; packages are taken rank by rank (first package of every
    # type, then the second of every type, ...) so that a deadline cuts tails, never whole types
    packages = []
    capped = []
    n_shapes = n_cases = 0
    for t_index, target in enumerate(tgts):
        plan = plan_for(ctx, cfg, seed, target)
        n_shapes += plan.shapes
        n_cases += plan.cases
        if plan.partial is not None:
            s, taken, card = plan.partial
            capped.append("%s: %s shapes in the bound; %s, size %d: %d of %d (evenly spaced)"
                          % (target[0], plan.total,
                             ("sizes 0..%d complete" % plan.complete) if plan.complete >= 0 else "no size level complete",
                             s, taken, card))
        for rank, k in enumerate(range(0, plan.cases, 250)):
            packages.append((rank, t_index, target, k, min(k + 250, plan.cases)))
    packages.sort(key=lambda p: (p[0], p[1]))
    acc.info["types enumerated (registry entries counted separately)"] = len(tgts)
    acc.info["service registry entries"] = sum(1 for t in tgts if t[1])
    acc.info["shapes planned"] = n_shapes
    acc.info["cases planned (shapes x rotations)"] = n_cases
    acc.info["types with every shape of the bound covered"] = len(tgts) - len(capped)
    if capped:
        acc.info["types cut by the per-type budget"] = capped
        acc.cap("%d of %d types have more shapes inside the bound than the per-type budget of %d shapes; covered prefix per "
                "type under parts['types cut by the per-type budget']" % (len(capped), len(tgts), cfg["budget"]))
    # consecutive chunks of the rank-ordered package list: the pool hands them out in order, so low ranks run first
    # whatever the number of workers, and a deadline leaves only the highest ranks undone
    nsh = max(16, min(256, len(packages) // 6))
    per = (len(packages) + nsh - 1) // nsh
    items = []
    for k in range(0, len(packages), max(1, per)):
        work = [(t, lo, hi) for (rank, ti_, t, lo, hi) in packages[k:k + per]]
        if work:
            items.append((tier, seed, work))
    run_shards(shard, items, deadline, into=acc)
    return acc


def replay(case):
    ctx = Ctx.get()
    kind = case.get("kind")
    if kind == "schema-diff":
        live = G.live_schema(ctx.types)
        hits = [d for d in R.diff(ctx.schema, live)
                if d[1] == case["type"] and str(d[2]) == str(case["element"]) and d[3] not in INFORMATIONAL]
        if hits:
            return False, "\n".join(h[4] for h in hits)
        return True, "live table of %s.%s agrees with the transcription" % (case["type"], case["element"])
    if kind == "annexf":
        for vec in R.load_annexf()["vectors"]:
            if vec["id"] == case["id"]:
                f = annex_vector(ctx, vec)
                if f is None:
                    return True, "vector %s: octets %s decode to the published parameters and back" % (vec["id"], vec["octets"])
                return False, "vector %s (%s): %s %s" % (vec["id"], vec["octets"], f.kind, f.message)
        return False, "vector %s is not in annexf.json" % case["id"]
    if kind == "twice":
        cfg = TIERS["quick"]
        diffs = _determinism_probe(ctx, cfg, 0, [tuple(case["target"])])
        if diffs:
            x, y = diffs[0]
            return False, "%s %s\nfirst pass: %s\nsecond pass: %s" % (x[0][0], x[4], x[6], y[6])
        return True, "%s: the first cases give the same result twice" % case["target"][0]
    if kind == "shape":
        tname = case["type"]
        if tname not in ctx.types:
            return False, "type %s does not exist in this tree" % tname
        shape, v, filler = case_value(ctx, case["max_list"], case["seed"], tname, case["budget"], case["size"],
                                      case["index"], case["rot"], case["ordinal"])
        obs = {}
        try:
            check_value(ctx, tname, v, case.get("registry"), case.get("choice"), case.get("variant", "list"), obs)
        except Fail as f:
            return False, "%s\n-> %s:%s %s\noctets so far: %s" % (G.render(v, 2000), f.oracle, f.kind, f.message,
                                                                  (obs.get("octets") or b"").hex())
        return True, "%s\n-> %s : all oracles hold" % (G.render(v, 2000), (obs.get("octets") or b"").hex())
    return False, "unknown case kind %r" % (kind,)
