"""C20 A schedule shows the value its calendar dictates at every instant, never stale.

Part 1 (E3): the date matchers (match_date, match_date_range, match_weeknday, date_in_calendar_entry)
        over every calendar date of the selected years x every pattern of every pattern class,
        against bv.refs.schedref (stdlib datetime/calendar, written from clauses 20.2.12 / 21).
Part 2 (E3): LocalScheduleInterpreter.eval over all small schedules of the stated shape: the value is
        compared with the reference interpreter (clause 12.24.4) and the reference state must be
        constant on [evaluated instant, reported next transition).
Part 3 (E3 over configurations, one virtual-time execution each): a LocalScheduleObject inside an
        Application under the virtual clock, several virtual days across entry into and exit from its
        effective period; present value probed and compared; the interpreter task must stay armed.
Part 4 (as part 3, in local time zones with daylight saving): the worker sets TZ to a POSIX rule (tzset, restored
        afterwards), the run covers the days around a clock change (the 23-hour and the 25-hour day) with entries placed
        before, at the start of, inside, at the end of and after the changed interval; at every probed instant the present
        value must be the one the reference interpreter gives for the civil date and time the local clock shows at that
        instant (bv.refs.schedref.TzRule, an own implementation of the POSIX rule, cross-checked against time.localtime).
Part 5 (history): one long-lived schedule object is evaluated, reconfigured (the dateList of a referenced Calendar gains /
        loses the date; exceptionSchedule, weeklySchedule, effectivePeriod, scheduleDefault written), evaluated again, the
        change undone, evaluated again - in pure eval() and on the object's own timer; the result must be the one the
        reference prescribes for the CURRENT configuration, whatever was evaluated before.
Part 6 (E3, value domains): eval() with the schedule's datatype crossed with the place the type's zero / empty / false value
        stands in (Boolean False, BinaryPV inactive, Enumerated 0, Unsigned 0, Integer 0, Real / Double 0.0, empty character,
        octet and bit string): every slot in turn - each entry of each exception of rank 1..3, each entry of the weekday's
        list, the default; entry times with hundredths of a second (08:00:00.50, 23:59:59.99), evaluated one hundredth
        before, at and after them.
Part 7 (as part 3): timer-driven runs (a) in every value domain with the zero in every slot, whole-second entry times, and
        (b) with Integer values and entry times that carry hundredths of a second, probed in the hundredth before, the
        hundredth of and the hundredth after every such entry.
Part 8 (E3, equal priorities): eval() on schedules with two and three exceptions of EQUAL priority in force on the evaluated day.
        The standard does not say which prevails, so only membership is judged: the value must be one the reference gives when
        the tie is resolved in some order of precedence (every permutation of the tied exceptions); an exception without an
        entry in effect yet (all entries later in the day, or an empty list) hides nobody in any order.
"""
import calendar as _cal
import datetime
import itertools
import os
import time

import bv  # noqa: F401
from bacpypes import core
from bacpypes.primitivedata import (Null, Integer, Boolean, Unsigned, Real, Double, CharacterString, OctetString, BitString,
                                    Enumerated)
from bacpypes.constructeddata import ArrayOf, ListOf
from bacpypes.basetypes import (DailySchedule, DateRange, TimeValue, SpecialEvent, SpecialEventPeriod,
                                CalendarEntry, BinaryPV)
from bacpypes.object import CalendarObject
from bacpypes.app import Application
from bacpypes.local.device import LocalDeviceObject
from bacpypes.local import schedule as _sch
from bacpypes.local.schedule import LocalScheduleObject

from bv.engine import vclock
from bv.engine.acc import Acc, h64
from bv.engine.pool import run_shards, chunks, HarnessError
from bv.refs import schedref as ref

PROPERTY = "C20"
LEVEL = "exploration"
BUDGET = {"quick": 75.0, "thorough": 1200.0}
RULE = ("part1: every (calendar date of the listed years) x (pattern): Date patterns year{any,same,previous,next} x "
        "month{1..12,odd,even,any} x day{1..31,last,odd,even,any} x dow{1..7,any}; date ranges with both ends from "
        "{open, year/month/leap boundary dates, the date itself, the day before/after}; WeekNDay month{1..12,odd,even,any} x "
        "week{1..9,any} x dow{1..7,any}; CalendarEntry of the three kinds over a reduced grid; evaluations count every "
        "(date, pattern) pair, distinct counts (matcher, date) and (matcher, pattern) keys separately because the pairs "
        "do not fit in memory.  part2: every schedule = ordered list of <=2 (T: 3, of which at most one not in force) exceptions, each "
        "{in force, not in force} x priority{1,2,16} x time-value list (every ascending subset of "
        "{00:00,08:00,17:00}, each value a schedule-wide unique integer or Null: 27 lists, 19 of them with <=2 entries), equal "
        "priorities only where at most one of the two is in force, x weekly list of the evaluated weekday (same lists, or "
        "property absent), other weekdays filled with marker values, evaluated at 10 instants {00:00,00:01,07:59,08:00,08:01,16:59,17:00,17:01,23:59,"
        "23:59:59.99}; plus every exception-period pattern (date/range/WeekNDay/calendar reference) x dates, every weekday, "
        "and every effective-period class {specific,open}^2 x dates around both edges; evaluations count "
        "(schedule, date, instant) triples, distinct counts (schedule, date set) keys, at the three-exception level exception "
        "triples.  part3: every (body, effective-period class, anchor date, start instant) runs "
        "6 virtual days, 10 probes per day.  part4: every (zone, clock change of the year, effective-period class relative to "
        "the change day {open, enters on it, ends on it, that day only, starts the day after}, body, start instant {two days "
        "before 00:00, the day before 13:27:41.50}); body = {weekly only, exception dated on the change day over a weekly list, "
        "every-day exception without weekly list, two-day exception over a second weekly list} x time-value list over the five "
        "times {30 min before, start of, middle of, end of, 30 min after the skipped/repeated civil interval}: every ascending "
        "list of <=2 (T: <=3) of them x value/Null per entry, plus all five; run to the end of the second day after the change; "
        "probed at every instant at which the local clock shows 00:00, 00:01, 12:00, 23:59:59, one of the five times or an "
        "entry time, one minute before / after each (no instant for a skipped reading, two for a repeated one), at the "
        "instant of the change and one second before / after it.  part5: every (date, configuration that refers to one or two "
        "Calendar objects, listing the date or not, change, when); change = the Calendar's dateList gains the date (as date / "
        "range / WeekNDay entry) or loses it, written as a list / assigned / mutated in place / the Calendar deleted and "
        "re-created; an exception removed / added / its values written (whole array and single element) / referred to another "
        "Calendar / priorities swapped; the weekday's list written (whole array and element); effectivePeriod written so that it "
        "excludes the date; scheduleDefault written; each followed by its undoing.  pure: when = 6 sequences of evaluations "
        "before the change (none; the date; the date and the next day in both orders; the date twice; three days) x the "
        "clock's date {the date, the next day}; after each change the date, the next day and the date again are evaluated "
        "at the 10 instants of part 2 with the oracle of part 2.  timer: the object runs from the day before, the change is "
        "made on the date at {07:00, 09:00:01, 17:30, 23:59:30}, undone the next day at 12:00:30, run to the end of the "
        "following day, probed as in part 3 and at both writes.  part6: every (shape configuration, datatype, slot holding the "
        "zero): shape configuration = 0..3 exceptions in force (list shapes over the times {00:00, 08:00:00.50, 17:00, "
        "23:59:59.99}: value all day / value from 08:00:00.50 / value relinquished at 17:00 / value and a second value in the last "
        "hundredth / Null then value / value from 17:00; every pair, every triple of the first three (T: of all six), listed in "
        "priority order, reversed and rotated; one exception also with a second one that is not in force) x weekly list of the "
        "weekday {absent, empty, the six shapes} (two exceptions: 2 (T: 4), three: 2 alternatives; three exceptions in quick: "
        "reversed and rotated order only); datatype = the 10 of DOMAINS; "
        "large domains: no slot or exactly one slot (each non-Null entry of each exception and of the weekday's list, the "
        "default) holds the type's zero and all other slots pairwise different other values; two-valued domains (Boolean, "
        "BinaryPV): one slot holds one value and all others the other one, both polarities; priorities, period kinds and the "
        "evaluated date rotate; evaluated at 12 instants {00:00, 00:01, 08:00, 08:00:00.49, .50, .51, 08:01, 16:59:59.99, 17:00, "
        "17:01, 23:59:59.98, 23:59:59.99} with the oracle of part 2.  part7: (a) 2 anchor dates x 5 bodies (weekly only; dated "
        "exception over weekly; two exceptions, the higher one relinquishing at 17:00; calendar-reference exception without "
        "weekly list; three exceptions listed out of priority order) x datatype x slot holding the zero as in part 6, 3 virtual "
        "days, probed as in part 3; (b) 2 anchor dates x 8 bodies with entry times {08:00:00.50, 00:00:00.01, 23:59:59.99, "
        "12:30:15.25/.75, 08:00:00.07, 08:00:00.50/.51, 16:59:59.99} in weekly lists and in exceptions of each period kind x "
        "effective period {open, entered on day 1, day 1 only} x start instant {00:00, 13:27:41.50}, probed as in part 3 and "
        "in the hundredth before / of / after every entry time that carries hundredths; a reading with hundredths is probed in "
        "the middle of that hundredth (x.xx5 s).  part8: every (ordered pair of the 19 lists of <=2 entries | ordered triple of the "
        "lists {empty, value all day, value from 08:00, value from 17:00, value all day relinquished at 17:00, Null then value "
        "from 08:00} (T: 12 lists)) as exceptions of one priority {1,2,16} in force on the evaluated day with different period "
        "kinds x another exception in force {none, one of lower priority with a value all day, (pairs only) one of higher priority "
        "with a value from 08:00 relinquished at 17:00}, its place in the array rotating x weekly list {absent, value all day, "
        "(pairs only) value from 08:00}, evaluated at the 10 instants of part 2; the value must be a member of the set the "
        "reference gives over all orders of precedence among the tied exceptions; distinct counts configurations.")
ASSUMPTIONS = [
    "schedule objects are built the way tests/test_local builds them (time values hold atomics of the schedule's datatype or "
    "Null, times and dates are 4-tuples, WeekNDay is the 3-octet string a decoded CalendarEntry holds); values that arrive as AnyAtomic "
    "wrappers through WriteProperty are not covered",
    "time-value lists are in ascending time order with distinct times (the interpreter scans in list order; the statement "
    "does not say what an unsorted list means), all times are specific",
    "two or more exceptions of equal priority in force on the same day (BACnet resolves it by array index in recent revisions, "
    "not at all in older ones; the statement is silent): parts 2-7 do not enumerate them; part 8 does and judges ONLY membership "
    "of the evaluated value in the set of tie resolutions: the tied exceptions are treated as strictly ordered in every "
    "permutation (distinct adjacent priorities in the reference's input) and clause 12.24.4 is applied (reading 'per "
    "exception': an exception whose current value is NULL lets the next one speak); also admitted, and counted separately "
    "(outcomes p8:...per-level-only..., a number in coverage.parts), is the reading 'per level': of the tied exceptions that "
    "have an entry on or before the current time the one that takes precedence speaks for the priority level, and if that "
    "entry is Null the level is relinquished (this is what the unchanged tree does with the later array element taking "
    "precedence: a Null entry in effect in a later element hides the value of an earlier element of equal priority).  In both "
    "readings an exception with no entry in effect yet (all entries in the future, or an empty list) hides nobody.  The next "
    "transition reported for such a configuration is only required to be a specific time after the evaluated instant; whether "
    "the value stays admissible until then is counted (outcomes p8:...not-judged...), not judged, and such configurations are "
    "not run on the timer: on the unchanged tree the first future entry of a later array element replaces the earlier future "
    "entry of an earlier element of equal priority in the transition slot (P8_JUDGE_NEXT turns the count into a failure)",
    "the ends of a date range are either a specific date (day of week consistent or unspecified) or fully unspecified; "
    "partially wildcarded range ends are not enumerated (not allowed by the standard)",
    "outside the effective period no value is prescribed: only the next-transition report and the liveness of the timer "
    "are judged there",
    "parts 1-3 run with TZ=UTC; timer-driven runs use dates after 1970; single thread; the only clock is bacpypes.task._time",
    "part 4, rule applied around a clock change: the prescribed value at an instant is the clause-12.24.4 value for the civil "
    "date and time the local clock shows at that instant.  Readings inside a skipped interval do not exist and are not judged; "
    "an entry whose time lies inside it is due at the instant of the jump (the clock then shows a later time).  In a repeated "
    "interval the first pass is judged by its civil time; in the second pass two readings are admitted and counted separately "
    "(outcomes p4:second-pass:...): 'civil' (the value for the civil time shown) and 'monotonic' (an entry executed once that "
    "day stays executed: the value for the latest civil time shown so far on that date); they differ only between the start "
    "of the second pass and the last entry inside the interval, and BACnet does not choose between them",
    "part 4: local time is the platform's (TZ as a POSIX rule + tzset); a run never starts inside a skipped or repeated "
    "interval; glibc's mktime resolves a repeated local time by the offset of its previous result, every run starts with the "
    "history of a process that has been running since the start instant",
    "part 5, what is demanded after a reconfiguration: eval() gives the value of the current configuration immediately, "
    "for every kind of write.  The timer-driven presentValue must be current immediately after a write the interpreter "
    "monitors (weeklySchedule, exceptionSchedule, whole or element); after a write it is not told about (a Calendar's "
    "dateList, effectivePeriod, scheduleDefault) it is judged from the interpreter's next wake-up (the time its task was "
    "armed for when the write happened) on - the statement's 'cannot change before the reported next transition' is about "
    "a fixed configuration; probes before that wake-up are counted (outcomes p5:timer:write-not-monitored:...), not judged",
    "part 5: objects are reconfigured through the local API (attribute assignment / WriteProperty(direct=True) / the list "
    "object held by the Calendar), not through BACnet services",
    "parts 2-5 use one value type (Integer, default 0), parts 6-7 the primitive datatypes Boolean, BinaryPV (an enumeration "
    "with names), Enumerated, Unsigned, Integer, Real, Double, CharacterString, OctetString, BitString; Date, Time and "
    "ObjectIdentifier schedules are not enumerated; schedules with neither weeklySchedule nor exceptionSchedule are a "
    "configuration error by the standard and are not enumerated",
    "entry times with hundredths of a second (parts 6-7): the clock of the device is read in whole hundredths (truncated); the "
    "value of an entry at hh:mm:ss.xx is demanded from the middle of that hundredth on (5 ms after its nominal start) and not "
    "before the middle of the hundredth before it; binary floating point cannot hold most hundredths exactly, nothing is "
    "demanded inside that half hundredth; parts 3-5 use whole-second entry times (probed at the exact second), part 4 "
    "(clock changes) too",
]
BOUNDS = {
    "quick": "part1 years 1900,1999,2000,2023,2024,2100,2154 (2 557 dates); part2 <=1 exception over all 27 lists, 2 exceptions over "
             "the 19 lists of <=2 entries with 10 of the 20 weekly alternatives; part3 4 anchor dates x 8 effective periods x 39 bodies x 2 start instants, 6 virtual days; "
             "part4 zones CET-1CEST,M3.5.0,M10.5.0/3 and EST5EDT,M3.2.0,M11.1.0, both clock changes of 2024, 5 effective periods x "
             "212 bodies (53 lists) x 2 start instants, 4-5 virtual days; "
             "part5 3 dates x 10 configurations x 13-21 changes x 12 pure histories, 2 dates x 10 configurations x changes x 4 "
             "change times timer-driven (4 virtual days); part6 354 shape configurations (<=3 exceptions in force) x 10 datatypes x "
             "every slot holding the zero, 12 instants; part7 2 anchor dates x (5 bodies x 10 datatypes x every slot + 8 bodies "
             "with hundredths x 3 effective periods x 2 start instants), 3 virtual days; part8 7 581 schedules with two and 2 592 "
             "with three exceptions of equal priority in force (triples over 6 lists), 10 instants",
    "thorough": "part1 every date 1900..2154 (93 137 dates); part2 <=2 exceptions over all 27 lists, 3 exceptions (at most one of them not in force) over the "
                "19 lists of <=2 entries with 5 of the 20 weekly alternatives; part3 10 anchor dates x 8 effective periods x larger body set; "
                "part4 the two zones of quick + <-03>3<-02>,M10.3.0/0,M2.3.0/0 (changes at midnight, southern hemisphere) + "
                "<+1030>-10:30<+11>-11,M10.1.0,M4.1.0 (half-hour shift), both clock changes of 2024 and 2038, 5 effective periods x "
                "532 bodies (133 lists) x 2 start instants; part5 as quick; part6 1 686 shape configurations (triples over all six "
                "list shapes) x 10 datatypes x every slot; part7 as quick; part8 7 581 schedules with two and 20 736 with three "
                "exceptions of equal priority in force (triples over 12 lists), 10 instants",
}

ANY = 255
OPEN = (ANY, ANY, ANY, ANY)
Q_YEARS = (1900, 1999, 2000, 2023, 2024, 2100, 2154)

ArrayOfDaily = ArrayOf(DailySchedule)
ArrayOfSpecial = ArrayOf(SpecialEvent)
ListOfCalendarEntry = ListOf(CalendarEntry)


# ----------------------------------------------------------------------------- small helpers

def dtuple(d):
    """The 4-tuple bacpypes' Date.now() yields for calendar date d."""
    return (d.year - 1900, d.month, d.day, d.isoweekday())


def dpat(d, dow=True):
    return (d.year - 1900, d.month, d.day, d.isoweekday() if dow else ANY)


def epoch(d, t):
    return float(_cal.timegm((d.year, d.month, d.day, t[0], t[1], t[2]))) + t[3] / 100.0


def in_years(d):
    return 1900 <= d.year <= 2154


def tup(x):
    """lists -> tuples, deeply (replay files come back as lists)."""
    if isinstance(x, (list, tuple)):
        return tuple(tup(i) for i in x)
    if isinstance(x, dict):
        return {k: tup(v) for k, v in x.items()}
    return x


def range_class(rng):
    s, e = rng
    return "date-range[start=%s,end=%s]" % ("open" if tuple(s) == OPEN else "specific",
                                            "open" if tuple(e) == OPEN else "specific")


def octet_class(field, v):
    if v == ANY:
        return "any"
    if field == "month" and v in (13, 14):
        return "odd" if v == 13 else "even"
    if field == "day" and v in (32, 33, 34):
        return {32: "last", 33: "odd", 34: "even"}[v]
    if field == "week":
        return "week%d" % v
    return "specific"


# ----------------------------------------------------------------------------- part 1: matchers

def p1_date_patterns(year):
    ys = [ANY, year - 1900]
    if year - 1901 >= 0:
        ys.append(year - 1901)
    if year - 1899 <= 254:
        ys.append(year - 1899)
    months = list(range(1, 13)) + [13, 14, ANY]
    days = list(range(1, 32)) + [32, 33, 34, ANY]
    dows = list(range(1, 8)) + [ANY]
    return [(y, m, dd, w) for y in ys for m in months for dd in days for w in dows]


def p1_wnd_patterns():
    months = list(range(1, 13)) + [13, 14, ANY]
    weeks = list(range(1, 10)) + [ANY]
    dows = list(range(1, 8)) + [ANY]
    return [(m, wk, w) for m in months for wk in weeks for w in dows]


def p1_range_ends(year):
    """Boundary dates of the year (specific, consistent day of week) and the open end."""
    ds = [datetime.date(year, 1, 1), datetime.date(year, 2, 28), datetime.date(year, 3, 1),
          datetime.date(year, 6, 15), datetime.date(year, 6, 30), datetime.date(year, 7, 1),
          datetime.date(year, 12, 31)]
    if _cal.isleap(year):
        ds.append(datetime.date(year, 2, 29))
    if year > 1900:
        ds.append(datetime.date(year - 1, 12, 31))
        ds.append(datetime.date(year - 1, 2, 28))
    if year < 2154:
        ds.append(datetime.date(year + 1, 1, 1))
        ds.append(datetime.date(year + 1, 12, 31))
    return [OPEN] + [dpat(d) for d in sorted(ds)]


def p1_entry_grid(year):
    """Reduced pattern grid for date_in_calendar_entry (the dispatch is what is tested here)."""
    out = []
    for y in (ANY, year - 1900):
        for m in (1, 2, 6, 12, 13, 14, ANY):
            for dd in (1, 15, 28, 29, 30, 31, 32, 33, 34, ANY):
                for w in (1, 7, ANY):
                    out.append(("date", (y, m, dd, w)))
    ends = [OPEN, dpat(datetime.date(year, 1, 1)), dpat(datetime.date(year, 2, 28), dow=False),
            dpat(datetime.date(year, 3, 1)), dpat(datetime.date(year, 7, 1)), dpat(datetime.date(year, 12, 31), dow=False)]
    for s in ends:
        for e in ends:
            out.append(("range", (s, e)))
    for m in list(range(1, 13)) + [13, 14, ANY]:
        for wk in list(range(1, 10)) + [ANY]:
            for w in (1, 7, ANY):
                out.append(("wnd", (m, wk, w)))
    return out


def mk_entry(entry):
    kind, what = entry
    if kind == "date":
        return CalendarEntry(date=tuple(what))
    if kind == "range":
        return CalendarEntry(dateRange=DateRange(startDate=tuple(what[0]), endDate=tuple(what[1])))
    if kind == "wnd":
        return CalendarEntry(weekNDay=bytes(what))
    raise ValueError(kind)


def date_culprit(dt, d, p):
    """Which single field of a Date pattern disagrees with the reference on its own (root cause tag)."""
    names = ("year", "month", "day", "dow")
    bad = []
    for i, nme in enumerate(names):
        q = [ANY] * 4
        q[i] = p[i]
        q = tuple(q)
        try:
            got = bool(_sch.match_date(dt, q))
        except Exception as err:
            got = "raises %s" % type(err).__name__
        if got != ref.date_matches(q, d):
            bad.append("%s=%s" % (nme, octet_class(nme, p[i])))
    return "+".join(bad) if bad else "combination[y=%s,m=%s,d=%s,w=%s]" % tuple(octet_class(n, v) for n, v in zip(names, p))


def wnd_culprit(dt, d, p):
    names = ("month", "week", "dow")
    bad = []
    for i, nme in enumerate(names):
        q = [ANY] * 3
        q[i] = p[i]
        try:
            got = bool(_sch.match_weeknday(dt, bytes(q)))
        except Exception as err:
            got = "raises %s" % type(err).__name__
        if got != ref.weeknday_matches(tuple(q), d):
            bad.append("%s=%s" % (nme, octet_class(nme, p[i])))
    return "+".join(bad) if bad else "combination[m=%s,wk=%s,w=%s]" % tuple(octet_class(n, v) for n, v in zip(names, p))


def p1_one(fn, dlist, pattern):
    """One matcher call + reference; returns (ok, got, expected).  Used by the sweep's failure path and by replay."""
    d = datetime.date(*dlist)
    dt = dtuple(d)
    pattern = tup(pattern)
    try:
        if fn == "date":
            got, exp = _sch.match_date(dt, pattern), ref.date_matches(pattern, d)
        elif fn == "range":
            got = _sch.match_date_range(dt, DateRange(startDate=pattern[0], endDate=pattern[1]))
            exp = ref.range_matches(pattern, d)
        elif fn == "wnd":
            got, exp = _sch.match_weeknday(dt, bytes(pattern)), ref.weeknday_matches(pattern, d)
        elif fn == "entry":
            got, exp = _sch.date_in_calendar_entry(dt, mk_entry(pattern)), ref.entry_matches(pattern, d)
        else:
            raise ValueError(fn)
    except ref.Undecided:
        raise
    except Exception as err:
        return False, "raises %s: %s" % (type(err).__name__, err), None
    return bool(got) == exp, bool(got), exp


def p1_signature(fn, d, pattern):
    dt = dtuple(d)
    if fn == "date":
        return "matcher:date:%s" % date_culprit(dt, d, pattern)
    if fn == "range":
        return "matcher:%s" % range_class(pattern)
    if fn == "wnd":
        return "matcher:weeknday:%s" % wnd_culprit(dt, d, pattern)
    kind, what = pattern
    if kind == "date":
        return "matcher:calendar-entry:date:%s" % date_culprit(dt, d, what)
    if kind == "range":
        return "matcher:calendar-entry:%s" % range_class(what)
    return "matcher:calendar-entry:weeknday:%s" % wnd_culprit(dt, d, what)


def p1_shard(item, deadline):
    """item = list of (year, month)."""
    acc = Acc()
    match_date, match_range, match_wnd, in_entry = (_sch.match_date, _sch.match_date_range, _sch.match_weeknday,
                                                    _sch.date_in_calendar_entry)
    r_date, r_range, r_wnd, r_entry = ref.date_matches, ref.range_matches, ref.weeknday_matches, ref.entry_matches
    wnd_pats = p1_wnd_patterns()
    wnd_bytes = [bytes(p) for p in wnd_pats]
    the_range = DateRange(startDate=OPEN, endDate=OPEN)
    cache_year = None
    seen_pat = set()
    n_match = n_nomatch = 0
    for (year, month) in item:
        if time.time() > deadline:
            acc.cap("part1: deadline, months from %d-%02d of this shard not enumerated" % (year, month))
            break
        if year != cache_year:
            cache_year = year
            date_pats = p1_date_patterns(year)
            ends = p1_range_ends(year)
            grid = p1_entry_grid(year)
            grid_objs = [mk_entry(e) for e in grid]
            if year not in seen_pat:
                seen_pat.add(year)
                for p in date_pats:
                    acc.keys.add(h64(("p1", "date", p)))
                for e in grid:
                    acc.keys.add(h64(("p1", "entry", e)))
                for p in wnd_pats:
                    acc.keys.add(h64(("p1", "wnd", p)))
        for day in range(1, _cal.monthrange(year, month)[1] + 1):
            d = datetime.date(year, month, day)
            dt = dtuple(d)
            for fn in ("date", "range", "wnd", "entry"):
                acc.keys.add(h64(("p1", fn, year, month, day)))
            # -- match_date
            n = 0
            for p in date_pats:
                try:
                    got = match_date(dt, p)
                except Exception:
                    got = None
                if got is not r_date(p, d):
                    ok, g, e = p1_one("date", (year, month, day), p)
                    if not ok:
                        acc.fail(p1_signature("date", d, p), {"fn": "match_date", "date": str(d), "pattern": p, "got": g, "expected": e},
                                 {"part": 1, "fn": "date", "date": (year, month, day), "pattern": p})
                if got:
                    n += 1
            n_match += n
            n_nomatch += len(date_pats) - n
            acc.evaluations += len(date_pats)
            # -- match_date_range
            near = [dpat(x) for x in (d - datetime.timedelta(days=1), d, d + datetime.timedelta(days=1)) if in_years(x)]
            near.append(dpat(d, dow=False))
            all_ends = ends + near
            n = 0
            for s in all_ends:
                the_range.startDate = s
                for e in all_ends:
                    the_range.endDate = e
                    try:
                        got = match_range(dt, the_range)
                    except Exception:
                        got = None
                    if got is not r_range((s, e), d):
                        ok, g, x = p1_one("range", (year, month, day), (s, e))
                        if not ok:
                            acc.fail(p1_signature("range", d, (s, e)),
                                     {"fn": "match_date_range", "date": str(d), "range": (s, e), "got": g, "expected": x},
                                     {"part": 1, "fn": "range", "date": (year, month, day), "pattern": (s, e)})
                    if got:
                        n += 1
            k = len(all_ends) ** 2
            n_match += n
            n_nomatch += k - n
            acc.evaluations += k
            acc.add_info("part1 range evaluations", k)
            # -- match_weeknday
            n = 0
            for p, b in zip(wnd_pats, wnd_bytes):
                try:
                    got = match_wnd(dt, b)
                except Exception:
                    got = None
                if got is not r_wnd(p, d):
                    ok, g, x = p1_one("wnd", (year, month, day), p)
                    if not ok:
                        acc.fail(p1_signature("wnd", d, p), {"fn": "match_weeknday", "date": str(d), "pattern": p, "got": g, "expected": x},
                                 {"part": 1, "fn": "wnd", "date": (year, month, day), "pattern": p})
                if got:
                    n += 1
            n_match += n
            n_nomatch += len(wnd_pats) - n
            acc.evaluations += len(wnd_pats)
            # -- date_in_calendar_entry
            n = 0
            for e, obj in zip(grid, grid_objs):
                try:
                    got = in_entry(dt, obj)
                except Exception:
                    got = None
                if got is not r_entry(e, d):
                    ok, g, x = p1_one("entry", (year, month, day), e)
                    if not ok:
                        acc.fail(p1_signature("entry", d, e), {"fn": "date_in_calendar_entry", "date": str(d), "entry": e, "got": g, "expected": x},
                                 {"part": 1, "fn": "entry", "date": (year, month, day), "pattern": e})
                if got:
                    n += 1
            n_match += n
            n_nomatch += len(grid) - n
            acc.evaluations += len(grid)
            acc.add_info("part1 dates", 1)
    acc.outcome("p1:match", n_match)
    acc.outcome("p1:no-match", n_nomatch)
    if item:
        y, m = item[0]
        d = datetime.date(y, m, _cal.monthrange(y, m)[1])
        ok, got, exp = p1_one("date", (d.year, d.month, d.day), (ANY, 14 if m % 2 == 0 else 13, 32, ANY))
        acc.sample({"part": 1, "date": str(d), "pattern": (ANY, 14 if m % 2 == 0 else 13, 32, ANY), "match_date": got, "reference": exp})
    return acc


# ----------------------------------------------------------------------------- building real objects

# Value domains (parts 6 and 7).  A description may carry "vtype": the datatype of the schedule; its values are then
# NUMBERS OF VALUES in that type's palette (plain integers for the reference), 0 being the type's zero / empty / false value.
# Without "vtype" a value is the Integer itself (parts 2-5).

def _bits(k):
    return [int(c) for c in bin(k)[2:]] if k else []


DOMAINS = {
    # name: (class, number of values or None for "as many as needed", palette number -> raw value)
    "boolean": (Boolean, 2, lambda k: bool(k)),
    "binary-pv": (BinaryPV, 2, lambda k: ("inactive", "active")[k]),
    "enumerated": (Enumerated, None, lambda k: k),
    "unsigned": (Unsigned, None, lambda k: k),
    "integer": (Integer, None, lambda k: k if k % 2 == 0 else -k),
    "real": (Real, None, lambda k: k * 0.5),
    "double": (Double, None, lambda k: k * 0.25),
    "character-string": (CharacterString, None, lambda k: ("v%d" % k) if k else ""),
    "octet-string": (OctetString, None, lambda k: k.to_bytes(2, "big") if k else b""),
    "bit-string": (BitString, None, lambda k: _bits(k)),
}
VTYPES = tuple(DOMAINS)
_PALETTE = {}
INITIAL = 999                     # palette number of the present value an object of a large domain is created with


def two_valued(vtype):
    return vtype is not None and DOMAINS[vtype][1] == 2


def _hashable(raw):
    return tuple(raw) if isinstance(raw, list) else raw


def mk_value(vtype, v):
    if v is None:
        return Null()
    if vtype is None:
        return Integer(v)
    cls, n, make = DOMAINS[vtype]
    return cls(make(v))


def plain_of(vtype, value):
    """Atomic -> what the description calls it (None for Null, the integer, the palette number)."""
    if isinstance(value, Null):
        return None
    raw = getattr(value, "value", value)
    if vtype is None:
        return raw
    cls, n, make = DOMAINS[vtype]
    if vtype not in _PALETTE:
        _PALETTE[vtype] = dict(((type(make(k)).__name__, _hashable(make(k))), k) for k in range(n or 1000))
    if not isinstance(value, cls):
        return ("value of another type", type(value).__name__, repr(raw))
    return _PALETTE[vtype].get((type(raw).__name__, _hashable(raw)), ("value outside the palette", repr(raw)))


def initial_of(desc):
    vt = desc.get("vtype")
    return -1 if vt is None else (1 if two_valued(vt) else INITIAL)


def mk_tvs(tvs, vtype=None):
    return [TimeValue(time=tuple(t), value=mk_value(vtype, v)) for (t, v) in tvs]


def build(desc, with_app=True):
    """Real objects for a plain schedule description.  Returns (app or None, schedule object, calendar objects)."""
    cals = []
    vt = desc.get("vtype")
    kwargs = dict(objectIdentifier=("schedule", 1), objectName="sched", presentValue=mk_value(vt, initial_of(desc)),
                  effectivePeriod=DateRange(startDate=tuple(desc["period"][0]), endDate=tuple(desc["period"][1])),
                  scheduleDefault=mk_value(vt, desc["default"]))
    if desc.get("weekly") is not None:
        kwargs["weeklySchedule"] = ArrayOfDaily([DailySchedule(daySchedule=mk_tvs(day, vt)) for day in desc["weekly"]])
    if desc.get("exceptions") is not None:
        specials = []
        for k, e in enumerate(desc["exceptions"]):
            kind, what = e["period"]
            if kind == "cal":
                cid = ("calendar", k + 1)
                cals.append(CalendarObject(objectIdentifier=cid, objectName="cal%d" % (k + 1),
                                           dateList=ListOfCalendarEntry([mk_entry(x) for x in what])))
                period = SpecialEventPeriod(calendarReference=cid)
            else:
                period = SpecialEventPeriod(calendarEntry=mk_entry(e["period"]))
            specials.append(SpecialEvent(period=period, listOfTimeValues=mk_tvs(e["tv"], vt), eventPriority=e["prio"]))
        kwargs["exceptionSchedule"] = ArrayOfSpecial(specials)
    so = LocalScheduleObject(**kwargs)
    if so.reliability != "noFaultDetected":
        raise HarnessError("enumerated schedule is rejected by _check_reliability: %r" % (desc,))
    app = None
    if with_app:
        app = get_app()
        for c in cals:
            app.add_object(c)
        app.add_object(so)
    return app, so, cals


_APP = [None]


def get_app(fresh=False):
    """One floating application (no network) per worker, as in tests/test_local; fresh for timer-driven runs."""
    if fresh or _APP[0] is None:
        dev = LocalDeviceObject(objectName="device 1", objectIdentifier=("device", 1), maxApduLengthAccepted=1024,
                                segmentationSupported="segmentedBoth", vendorIdentifier=999)
        app = Application(dev)
        if fresh:
            return app
        _APP[0] = app
    return _APP[0]


def unbuild(app, so, cals):
    if app is not None:
        app.delete_object(so)
        for c in cals:
            app.delete_object(c)
    # the interpreter's constructor queued process_task; part 2 never runs the loop
    core.deferredFns = []


# ----------------------------------------------------------------------------- part 2: the evaluator

TIMES = ((0, 0, 0, 0), (8, 0, 0, 0), (17, 0, 0, 0))
INSTANTS = ((0, 0, 0, 0), (0, 1, 0, 0), (7, 59, 0, 0), (8, 0, 0, 0), (8, 1, 0, 0), (16, 59, 0, 0), (17, 0, 0, 0),
            (17, 1, 0, 0), (23, 59, 0, 0), (23, 59, 59, 99))
PRIOS = (1, 2, 16)
WIDE = ((0, 1, 1, ANY), (254, 12, 31, ANY))


def tv_shapes():
    """All time-value list shapes: () | (time, null?) | two ascending times x null flags.  19 shapes."""
    out = [()]
    for t in TIMES:
        for z in (False, True):
            out.append(((t, z),))
    for a, b in itertools.combinations(TIMES, 2):
        for za in (False, True):
            for zb in (False, True):
                out.append(((a, za), (b, zb)))
    return out


SHAPES = tv_shapes()
N2 = len(SHAPES)                 # 19 shapes of <=2 entries
for _flags in itertools.product((False, True), repeat=3):
    SHAPES.append(tuple(zip(TIMES, _flags)))     # + 8 shapes with all three times
N3 = len(SHAPES)                 # 27


def fill(shape, base):
    """Shape -> time-value list with unique values base+1, base+2, base+3 (None for Null)."""
    return tuple((t, None if z else base + j + 1) for j, (t, z) in enumerate(shape))


def periods_for(d, inforce, rot):
    """A special-event period that is / is not in force on date d; `rot` rotates through the kinds
    (the kinds are crossed exhaustively in part 2b, here only in-force/not matters)."""
    y, m, dd, w = dtuple(d)
    before = d - datetime.timedelta(days=1)
    after = d + datetime.timedelta(days=1)
    last = ref.month_length(d.year, d.month)
    if inforce:
        opts = [
            ("date", (y, m, dd, w)),
            ("range", (dpat(before), dpat(after))),
            ("wnd", (m, (dd - 1) // 7 + 1, w)),
            ("cal", (("date", (ANY, m, 1 if dd != 1 else 2, ANY)), ("date", (ANY, ANY, dd, ANY)))),
            ("date", (ANY, 13 if m % 2 else 14, 33 if dd % 2 else 34, ANY)),
            ("range", (dpat(d), OPEN)),
            ("wnd", (ANY, ANY, w)),
            ("cal", (("wnd", (ANY, 6 if dd > last - 7 else ((dd - 1) // 7 + 1), ANY)),)),
        ]
    else:
        opts = [
            ("date", dpat(after)),
            ("range", (dpat(after), dpat(after + datetime.timedelta(days=30)))),
            ("wnd", (m, ANY, w % 7 + 1)),
            ("cal", ()),
            ("date", (ANY, 14 if m % 2 else 13, ANY, ANY)),
            ("range", (dpat(d - datetime.timedelta(days=40)), dpat(before))),
            ("wnd", (m % 12 + 1, ANY, ANY)),
            ("cal", (("date", (y, m, dd, w % 7 + 1)), ("range", (dpat(after), OPEN)))),
        ]
    return opts[rot % len(opts)]


# evaluated dates of part 2a: one per weekday, different positions in the month, leap day included
P2A_DATES = (datetime.date(2024, 2, 29), datetime.date(2023, 12, 31), datetime.date(2024, 1, 1), datetime.date(2100, 2, 28),
             datetime.date(1999, 6, 16), datetime.date(2024, 11, 9), datetime.date(2000, 2, 1))


def p2a_desc(excs, wk, d, rot):
    """excs: tuple of (inforce, prio, shape index); wk: shape index or None (property absent)."""
    exceptions = []
    for k, (inf, prio, si) in enumerate(excs):
        exceptions.append({"period": periods_for(d, inf, rot + 3 * k), "tv": fill(SHAPES[si], 100 * (k + 1)), "prio": prio})
    weekly = None
    if wk is not None:
        weekly = tuple(fill(SHAPES[wk], 10) if i == d.weekday() else (((0, 0, 0, 0), 900 + i),) for i in range(7))
    win = (WIDE, (dpat(d), dpat(d)), (dpat(d - datetime.timedelta(days=1), dow=False), dpat(d + datetime.timedelta(days=1), dow=False)))
    return {"period": win[rot % 3], "weekly": weekly, "exceptions": tuple(exceptions), "default": 0}


def exc_alternatives(nshapes):
    return [(inf, prio, si) for inf in (True, False) for prio in PRIOS for si in range(nshapes)]


def compatible(excs):
    """No two in-force exceptions with equal priority (undecided by the statement)."""
    pr = [p for (inf, p, si) in excs if inf]
    return len(pr) == len(set(pr))


def source_of(desc, d, t, value):
    """Where does this (unique) value come from?  Used only to name root causes."""
    if value is None:
        return "none"
    if not isinstance(value, int):
        return "unknown-value"
    if value == desc["default"]:
        return "default"
    if 900 <= value < 910:
        return "weekly-of-another-weekday"
    inforce = [e for e in desc.get("exceptions") or [] if ref.period_matches(e["period"], d)]
    order = sorted(inforce, key=lambda e: e["prio"])
    for e in desc.get("exceptions") or []:
        for (tt, v) in e["tv"]:
            if v == value:
                when = "future-entry" if tuple(tt) > tuple(t) else ("latest-entry" if ref.list_value(e["tv"], t) == v else "superseded-entry")
                if e not in inforce:
                    return "exception-not-in-force.%s" % when
                return "exception-rank%d.%s" % (order.index(e) + 1, when)
    wk = desc.get("weekly")
    if wk:
        for (tt, v) in wk[d.weekday()]:
            if v == value:
                when = "future-entry" if tuple(tt) > tuple(t) else ("latest-entry" if ref.list_value(wk[d.weekday()], t) == v else "superseded-entry")
                return "weekly.%s" % when
    return "unknown-value"


def want_source(desc, d, t, want):
    """Name of the place the prescribed value stands in.  Schedule-wide unique integers name themselves (parts 2-5); in a
    value domain (two-valued types!) the reference says where it took the value from."""
    if desc.get("vtype") is None:
        return source_of(desc, d, t, want)
    src = ref.present_source(desc, d, t)
    if src is None:
        return "none"
    if src[0] == "exception":
        return "exception-rank%d.latest-entry" % src[1]
    return "weekly.latest-entry" if src[0] == "weekly" else "default"


def entry_kind(entry):
    k, what = entry
    if k == "range":
        return range_class(what)
    return {"date": "date", "wnd": "weeknday"}[k]


def matcher_disagreement(desc, d):
    """Root-cause naming only (failure path): the pattern class of the first exception period (or entry of a referenced
    calendar) on which the tree's own date matcher and the reference disagree for this date, else None."""
    for e in desc.get("exceptions") or []:
        k, what = e["period"]
        for x in (what if k == "cal" else (e["period"],)):
            try:
                got = bool(_sch.date_in_calendar_entry(dtuple(d), mk_entry(x)))
            except Exception:
                got = None
            if got != ref.entry_matches(x, d):
                return ("calendar-reference>" if k == "cal" else "") + entry_kind(x)
    return None


def period_kind(e):
    return "calendar-reference" if e["period"][0] == "cal" else entry_kind(e["period"])


def next_instant(d, nt):
    """(date, time) of a reported next-transition time of day; hour 24 is the start of the next day."""
    nt = tuple(nt)
    if nt[0] >= 24:
        return (d + datetime.timedelta(days=1), (nt[0] - 24,) + nt[1:])
    return (d, nt)


def judge_eval(desc, d, t, so, tag=None):
    """Call the real eval and judge it.  Returns (outcome label, failure or None) where failure = (signature, detail).
    tag "p2b" marks the sweep in which only the exception period varies (used to name the root cause)."""
    edate = dtuple(d)
    try:
        res = so._task.eval(edate, tuple(t))
    except Exception as err:
        act, _ = ref.present_value(desc, d, t)
        return "raises", ("eval:raises:%s:%s" % (type(err).__name__, "in-period" if act else "outside-period"),
                          {"error": "%s: %s" % (type(err).__name__, err)})
    act, want = ref.present_value(desc, d, t)
    if not act:
        # nothing is prescribed about the value; a reported next transition must not sleep past the entry
        if res is None:
            return "outside-period:eval-returns-None", None
        try:
            value, nt = res
        except Exception:
            return "outside-period:odd", ("eval:outside-period:result-neither-None-nor-pair", {"result": repr(res)})
        stop = next_instant(d, nt)
        if stop <= (d, tuple(t)):
            return "outside-period:pair", ("eval:next-transition:not-after-evaluated-instant:outside-period", {"next": nt})
        for x in ref.instants_between(desc, (d, tuple(t)), stop)[1:]:
            if ref.present_value(desc, x[0], x[1])[0]:
                return "outside-period:pair", ("eval:next-transition:late:sleeps-past-period-entry",
                                               {"next": nt, "period_entered_at": (str(x[0]), x[1])})
        return "outside-period:pair", None
    if res is None:
        return "in-period:eval-returns-None", ("eval:effective-period:%s:active-day-evaluated-as-inactive" % range_class(desc["period"]),
                                               {"result": None, "expected_value": want})
    try:
        value, nt = res
    except Exception:
        return "in-period:odd", ("eval:result-not-a-pair", {"result": repr(res)})
    if value is None:
        return "in-period:eval-returns-no-value", ("eval:effective-period:%s:active-day-evaluated-as-inactive" % range_class(desc["period"]),
                                                   {"result": (None, nt), "expected_value": want})
    vt = desc.get("vtype")
    got = plain_of(vt, value)
    want_src = want_source(desc, d, t, want)
    if got != want:
        got_src = source_of(desc, d, t, got)
        dis = matcher_disagreement(desc, d)
        if dis is not None:
            sig = "eval:exception-period:%s:matcher-disagrees-with-calendar" % dis
        elif vt is not None:
            # value domains: the root cause is named by the datatype, where the prescribed value stands and whether it is
            # the type's zero (what is shown instead goes into the detail)
            sig = "eval:value-domain:%s:want=%s[%s]" % (vt, want_src, "zero-of-the-type" if want == 0 else "other-value")
        elif tag == "p2b":
            sig = "eval:exception-period:%s:in-force-status-wrong" % period_kind(desc["exceptions"][0])
        else:
            sig = "eval:value:want=%s:got=%s" % (want_src, got_src)
        return "value-differs", (sig, {"got": got, "expected": want, "next": nt, "expected_from": want_src, "got_from": got_src})
    if nt is None or len(tuple(nt)) != 4 or ANY in tuple(nt):
        return "next-odd", ("eval:next-transition:not-a-specific-time", {"next": repr(nt)})
    stop = next_instant(d, nt)
    if stop <= (d, tuple(t)):
        return "next-not-later", ("eval:next-transition:not-after-evaluated-instant:from=%s" % want_src, {"value": got, "next": nt})
    for x in ref.instants_between(desc, (d, tuple(t)), stop)[1:]:
        st = ref.present_value(desc, x[0], x[1])
        if st != (True, want):
            missed = "period-exit" if not st[0] else want_source(desc, x[0], x[1], st[1])
            if x[0] != d:
                missed = "next-day:" + missed
            dis = matcher_disagreement(desc, d)
            if dis is not None:
                return "next-late", ("eval:exception-period:%s:matcher-disagrees-with-calendar" % dis,
                                     {"value": got, "next": nt, "value_changes_at": (str(x[0]), x[1]), "to": st})
            return "next-late", ("eval:next-transition:late:from=%s:missed=%s" % (want_src, missed),
                                 {"value": got, "next": nt, "value_changes_at": (str(x[0]), x[1]), "to": st})
    lab = "%s|next=%s" % (want_src, "midnight" if tuple(nt)[0] >= 24 else "%02d:%02d" % (nt[0], nt[1]))
    return lab, None


def p2_eval_desc(acc, desc, dates, instants, tag, key=None, part="2"):
    """Build once, evaluate at dates x instants, record (under part 2, or part 6 for the value domains)."""
    try:
        app, so, cals = build(desc)
    except HarnessError:
        raise
    except Exception as err:
        acc.case((tag, repr(desc)))
        acc.fail("build:raises:%s" % type(err).__name__, {"error": str(err), "schedule": desc}, {"part": 2, "desc": desc, "date": None, "time": None})
        return
    try:
        for d in dates:
            for t in instants:
                lab, bad = judge_eval(desc, d, t, so, tag)
                acc.outcome("p%s:%s" % (part, lab))
                if bad is not None:
                    sig, detail = bad
                    detail = dict(detail)
                    detail.update({"schedule": desc, "date": str(d), "weekday": d.isoweekday(), "time": t})
                    acc.fail(sig, detail, {"part": 2, "tag": tag, "desc": desc, "date": (d.year, d.month, d.day), "time": t})
        acc.evaluations += len(dates) * len(instants)
        acc.keys.add(h64(key if key is not None else (tag, repr(desc), [str(d) for d in dates])))
        acc.add_info("part%s schedules" % part, 1)
        acc.add_info("part%s (schedule,date,instant) evaluations" % part, len(dates) * len(instants))
    finally:
        unbuild(app, so, cals)


def p2a_shard(item, deadline):
    """item = (seed, n_exc, list of first-level prefixes, weekly indices, number of shapes): enumerate everything
    below the prefixes."""
    seed, n_exc, prefixes, weeklies, nshapes = item
    acc = Acc()
    alts = exc_alternatives(nshapes)
    count = 0
    for prefix in prefixes:
        rest = n_exc - len(prefix)
        for tail in itertools.product(alts, repeat=rest):
            excs = tuple(prefix) + tail
            if n_exc >= 3 and sum(1 for e in excs if not e[0]) > 1:
                continue              # bound of the third level: at most one of the three is not in force
            if not compatible(excs):
                acc.add_info("part2a equal-priority combinations left out", 1)
                continue
            if time.time() > deadline:
                acc.cap("part2a: deadline inside the %d-exception level" % n_exc)
                return acc
            for wk in weeklies:
                if not excs and wk is None:
                    continue          # neither schedule present: configuration error by the standard
                count += 1
                # leaf rotation (evaluated date, period kind, effective-period window): a fixed integer mix of the
                # position in the enumeration so that it is not periodic in any enumeration index
                rot = (((count * 2654435761) & 0xFFFFFFFF) >> 9) + seed
                d = P2A_DATES[rot % len(P2A_DATES)]
                desc = p2a_desc(excs, wk, d, rot)
                # three-exception level: one key per exception triple (7 million schedule keys would not fit in memory)
                p2_eval_desc(acc, desc, (d,), INSTANTS, "p2a", key=("p2a3", excs) if n_exc >= 3 else None)
                if count == 1 and excs:
                    acc.sample({"part": "2a", "schedule": desc, "date": str(d),
                                "reference": [(t, ref.present_value(desc, d, t)[1]) for t in INSTANTS]})
    return acc


def p2b_periods(d0):
    """Every exception-period pattern class for the month around d0 (reduced Date grid, full WeekNDay grid, ranges, calendars)."""
    year = d0.year
    grid = p1_entry_grid(year)
    out = [g for g in grid]
    some = [("date", dpat(d0)), ("date", (ANY, 13, 32, ANY)), ("range", (dpat(d0), OPEN)), ("range", (OPEN, dpat(d0))),
            ("wnd", (ANY, 6, ANY)), ("wnd", (14, 2, 3)), ("date", (ANY, ANY, 34, 5))]
    out.append(("cal", ()))
    for a in some:
        out.append(("cal", (a,)))
    for a, b in itertools.permutations(some, 2):
        out.append(("cal", (a, b)))
    out.append(("cal", tuple(some)))
    return out


def p2b_shard(item, deadline):
    acc = Acc()
    for (period, dates) in item:
        if time.time() > deadline:
            acc.cap("part2b: deadline")
            break
        dates = [datetime.date(*x) for x in dates]
        desc = {"period": WIDE, "weekly": tuple((((0, 0, 0, 0), 3),) for _ in range(7)),
                "exceptions": ({"period": period, "tv": (((0, 0, 0, 0), 7),), "prio": 5},), "default": 0}
        p2_eval_desc(acc, desc, dates, ((12, 0, 0, 0),), "p2b")
    return acc


def p2c_cases():
    """Weekday indexing: every weekday has its own list; 3 weeks of consecutive dates in 4 places."""
    for start in (datetime.date(2024, 2, 19), datetime.date(2023, 12, 25), datetime.date(1900, 1, 1), datetime.date(2154, 12, 11)):
        dates = [start + datetime.timedelta(days=i) for i in range(21) if in_years(start + datetime.timedelta(days=i))]
        for si in range(N3):
            for exc in (None, ()):
                weekly = tuple(fill(SHAPES[si], 10 * (i + 1)) for i in range(7))
                yield ({"period": WIDE, "weekly": weekly, "exceptions": exc, "default": 0}, dates)


def p2d_cases(tier):
    """Effective-period classes x dates around both edges x bodies."""
    windows = [(datetime.date(2024, 2, 28), datetime.date(2024, 3, 1)), (datetime.date(2023, 12, 30), datetime.date(2024, 1, 2)),
               (datetime.date(2100, 2, 27), datetime.date(2100, 3, 1)), (datetime.date(2024, 6, 15), datetime.date(2024, 6, 15)),
               (datetime.date(1999, 12, 31), datetime.date(2000, 1, 1)), (datetime.date(1900, 1, 1), datetime.date(2154, 12, 31)),
               (datetime.date(2024, 1, 31), datetime.date(2024, 2, 1))]
    bodies = []
    for si in (0, 1, 7, 9, 12, 18, 23) if tier == "quick" else range(N3):
        bodies.append({"weekly": tuple(fill(SHAPES[si], 10 * (i + 1)) for i in range(7)), "exceptions": None, "default": 0})
        bodies.append({"weekly": tuple(fill(SHAPES[si], 10 * (i + 1)) for i in range(7)),
                       "exceptions": ({"period": ("wnd", (ANY, ANY, ANY)), "tv": fill(SHAPES[(si + 5) % N3], 100), "prio": 3},), "default": 0})
        bodies.append({"weekly": None,
                       "exceptions": ({"period": ("date", (ANY, ANY, ANY, ANY)), "tv": fill(SHAPES[si], 100), "prio": 16},), "default": 0})
    for (s, e) in windows:
        for dow in (True, False):
            for (so, eo) in ((False, False), (True, False), (False, True), (True, True)):
                period = (OPEN if so else dpat(s, dow), OPEN if eo else dpat(e, dow))
                cand = set()
                for edge in (s, e):
                    for off in (-400, -31, -2, -1, 0, 1, 2, 31, 400):
                        x = edge + datetime.timedelta(days=off)
                        if in_years(x):
                            cand.add(x)
                for b in bodies:
                    desc = dict(b)
                    desc["period"] = period
                    yield (desc, sorted(cand))


def p2cd_shard(item, deadline):
    acc = Acc()
    for (tag, desc, dates) in item:
        if time.time() > deadline:
            acc.cap("part2c/d: deadline")
            break
        dates = [datetime.date(*x) for x in dates]
        p2_eval_desc(acc, desc, dates, INSTANTS, tag)
    return acc


# ----------------------------------------------------------------------------- part 3: timer-driven

RUN_DAYS = 6
MAX_TIMER_STEPS = 2000


def hundredths_times(desc):
    """Entry times of the description that are not on a whole second."""
    return [t for t in ref.all_times(desc) if t[3]]


def p3_probes(day0, desc=None, days=RUN_DAYS):
    """The probed civil readings.  For every entry time with hundredths also that reading, the hundredth before and the
    hundredth after it (part 7)."""
    ts = set(INSTANTS[:-1] + ((23, 59, 59, 0),))
    for t in (hundredths_times(desc) if desc is not None else ()):
        cs = ((t[0] * 60 + t[1]) * 60 + t[2]) * 100 + t[3]
        for c in (cs - 1, cs, cs + 1):
            if 0 <= c < 8640000:
                ts.add((c // 360000, c // 6000 % 60, c // 100 % 60, c % 100))
    out = []
    for i in range(days):
        d = day0 + datetime.timedelta(days=i)
        for t in sorted(ts):
            out.append((d, t))
    return out


def probe_epoch(d, t):
    """The instant a reading is probed at: a whole second exactly; a reading with hundredths in the middle of that hundredth
    (the clock's reading truncates to hundredths, and a binary float cannot hold most of them exactly)."""
    return epoch(d, t) + (0.005 if t[3] else 0.0)


def p3_run(desc, day0, start_t, days=RUN_DAYS):
    """One execution.  Returns (observations, verdict, swallowed) where verdict = None or (signature, detail)."""
    desc = tup(desc)
    vt = desc.get("vtype")
    start = (day0, tuple(start_t))
    vclock.reset(epoch(day0, start_t))
    app = get_app(fresh=True)
    _, so, cals = build(desc, with_app=False)
    for c in cals:
        app.add_object(c)
    app.add_object(so)
    obs = []
    first_bad = None
    entered = False
    started_active = ref.present_value(desc, day0, start_t)[0]
    livelock = None
    try:
        vclock.settle()
        for (d, t) in p3_probes(day0, desc, days):
            if (d, t) < start:
                continue
            vclock.run_until(probe_epoch(d, t), max_steps=MAX_TIMER_STEPS)
            pv = plain_of(vt, so.presentValue)
            armed = bool(so._task.isScheduled)
            act, want = ref.present_value(desc, d, t)
            if act and not started_active:
                entered = True
            obs.append((str(d), t, pv, armed, act, want))
            if act and pv != want and first_bad is None:
                if started_active and not entered:
                    phase = "in-period-since-start"
                else:
                    phase = "after-period-entry"
                first_bad = ("value", phase, {"at": (str(d), t), "present_value": pv, "expected": want,
                                               "source_expected": want_source(desc, d, t, want),
                                               "source_shown": "initial-value" if (pv == initial_of(desc) and not two_valued(vt))
                                                               else source_of(desc, d, t, pv),
                                               "armed": armed})
    except vclock.Livelock as err:
        livelock = str(err)
    swallowed = sorted(set(m for (_, m) in vclock.swallowed))
    sw = "no-exception"
    if swallowed:
        sw = swallowed[0].replace("an error has occurred: ", "").replace(" ", "-")[:60]
    pclass = range_class(desc["period"])
    end_d = day0 + datetime.timedelta(days=days)
    armed_end = bool(so._task.isScheduled)
    when_end = so._task.taskTime if armed_end else None
    verdict = None
    if livelock is not None:
        verdict = ("timer:livelock:%s:%s" % (pclass, sw), {"livelock": livelock})
    elif first_bad is not None:
        kind, phase, detail = first_bad
        if not detail["armed"] or detail["source_shown"] == "initial-value":
            # the interpreter is not running / never wrote: an effective-period or liveness problem
            verdict = ("timer:present-value-not-updated:%s:%s:%s" % (phase, pclass, sw), detail)
        else:
            verdict = ("timer:present-value-wrong:want=%s:shown=%s:%s" % (detail["source_expected"], detail["source_shown"], sw), detail)
    elif not armed_end:
        act_end = ref.present_value(desc, end_d - datetime.timedelta(days=1), (23, 59, 59, 0))[0]
        if act_end:
            phase = "in-period"
        elif any(o[4] for o in obs):
            phase = "after-period-exit"
        else:
            phase = "outside-period-throughout"
        verdict = ("timer:interpreter-not-armed-at-end:%s:%s:%s" % (phase, pclass, sw), {"armed": False})
    else:
        # armed: it must not sleep past the next change the calendar dictates (after the last probed reading)
        last = max((end_d - datetime.timedelta(days=1), (23, 59, 59, 0)), p3_probes(day0, desc, days)[-1])
        nxt = ref.first_change(desc, last, horizon_days=3)
        # (a change at a reading with hundredths: any instant at which the clock shows that hundredth, as for the probes)
        if nxt is not None and when_end is not None and when_end > epoch(nxt[0], nxt[1]) + (0.005 if nxt[1][3] else 1e-6):
            verdict = ("timer:armed-later-than-next-change:%s:%s" % (pclass, sw),
                       {"armed_for": when_end, "next_change": (str(nxt[0]), nxt[1]), "next_change_epoch": epoch(nxt[0], nxt[1])})
    if verdict is not None:
        verdict[1].update({"swallowed": swallowed, "armed_at_end": armed_end,
                           "trace_tail": [o for o in obs if o[4]][:6]})
    return obs, verdict, swallowed


def p3_bodies(tier, day0):
    """Schedule bodies (without effective period); exception periods are placed on run days 2..4."""
    d2, d3, d4 = (day0 + datetime.timedelta(days=i) for i in (2, 3, 4))
    wk_a = tuple((((8, 0, 0, 0), 10 * (i + 1) + 1), ((17, 0, 0, 0), None)) for i in range(7))
    wk_b = tuple((((0, 0, 0, 0), 10 * (i + 1) + 1), ((17, 0, 0, 0), 10 * (i + 1) + 2)) for i in range(7))
    wk_c = tuple((((8, 0, 0, 0), 10 * (i + 1) + 1),) if i % 2 == 0 else () for i in range(7))
    weeklies = [wk_a, wk_b, wk_c, None]
    e_date = {"period": ("date", dpat(d3)), "tv": (((8, 0, 0, 0), 101), ((17, 0, 0, 0), None)), "prio": 1}
    e_rng = {"period": ("range", (dpat(d2), dpat(d3))), "tv": (((0, 0, 0, 0), 201), ((17, 0, 0, 0), 202)), "prio": 2}
    e_wnd = {"period": ("wnd", (ANY, ANY, d4.isoweekday())), "tv": (((8, 0, 0, 0), 301),), "prio": 16}
    e_cal = {"period": ("cal", (("date", dpat(d2)), ("date", (ANY, ANY, d4.day, ANY)))), "tv": (((0, 0, 0, 0), None), ((8, 0, 0, 0), 401)), "prio": 2}
    e_open = {"period": ("range", (dpat(d3), OPEN)), "tv": (((17, 0, 0, 0), 501),), "prio": 8}
    exc_sets = [None, (), (e_date,), (e_rng,), (e_wnd,), (e_cal,), (e_open,), (e_date, e_rng), (e_rng, e_date), (e_wnd, e_cal, e_date)]
    if tier != "quick":
        for si in range(1, N3):
            exc_sets.append(({"period": ("date", dpat(d3)), "tv": fill(SHAPES[si], 600), "prio": 4},
                             {"period": ("range", (dpat(d2), dpat(d4))), "tv": fill(SHAPES[(si * 7) % N3], 700), "prio": 9}))
    for wk in weeklies:
        for ex in exc_sets:
            if wk is None and ex is None:
                continue
            yield {"weekly": wk, "exceptions": ex, "default": 0}


P3_ANCHORS_Q = (datetime.date(2024, 2, 26), datetime.date(2023, 12, 28), datetime.date(2100, 2, 25), datetime.date(1999, 12, 29))
P3_ANCHORS_T = P3_ANCHORS_Q + (datetime.date(2024, 10, 28), datetime.date(2025, 4, 27), datetime.date(1972, 2, 26),
                               datetime.date(2037, 12, 29), datetime.date(2154, 10, 20), datetime.date(2024, 6, 27))


def p3_periods(day0):
    """Effective-period classes relative to the run: the run enters on day 2 and leaves after day 4."""
    s = day0 + datetime.timedelta(days=2)
    e = day0 + datetime.timedelta(days=4)
    return [
        ("closed-inside-run", (dpat(s), dpat(e))),
        ("closed-inside-run-dow-any", (dpat(s, False), dpat(e, False))),
        ("open-end", (dpat(s), OPEN)),
        ("open-start", (OPEN, dpat(e))),
        ("open-both", (OPEN, OPEN)),
        ("covers-run", (dpat(day0 - datetime.timedelta(days=30)), dpat(day0 + datetime.timedelta(days=60)))),
        ("ends-on-day-0", (dpat(day0 - datetime.timedelta(days=30)), dpat(day0))),
        ("single-day", (dpat(day0 + datetime.timedelta(days=3)), dpat(day0 + datetime.timedelta(days=3)))),
    ]


def p3_configs(tier):
    anchors = P3_ANCHORS_Q if tier == "quick" else P3_ANCHORS_T
    starts = ((0, 0, 0, 0), (13, 27, 41, 50))
    for day0 in anchors:
        for (pname, period) in p3_periods(day0):
            for body in p3_bodies(tier, day0):
                for st in starts:
                    desc = dict(body)
                    desc["period"] = period
                    yield (desc, (day0.year, day0.month, day0.day), st, pname)


def p3_shard(item, deadline):
    acc = Acc()
    for n, (desc, day0, st, pname) in enumerate(item):
        if time.time() > deadline:
            acc.cap("part3: deadline")
            break
        d0 = datetime.date(*day0)
        obs, verdict, swallowed = p3_run(desc, d0, st)
        if n == 0:
            obs2, verdict2, _ = p3_run(desc, d0, st)
            if obs2 != obs or (verdict is None) != (verdict2 is None):
                raise HarnessError("C20 part3: the same configuration ran twice with different observations")
        acc.case(("p3", repr(desc), day0, st))
        acc.traces += 1
        acc.transitions += len(obs)
        acc.add_info("part3 runs", 1)
        acc.add_info("part3 probes", len(obs))
        acc.add_info("part3 probes compared (schedule active)", sum(1 for o in obs if o[4]))
        for m in swallowed:
            acc.swallowed[m] += 1
        acc.outcome("p3:%s:%s" % (pname, "ok" if verdict is None else verdict[0].split(":")[1]))
        for v in set(o[2] for o in obs):
            acc.outcome("p3:pv-source:%s" % ("other" if not isinstance(v, int) else "initial" if v == -1 else "default" if v == 0
                                             else "weekly" if v < 100 else "exception"))
        if verdict is not None:
            sig, detail = verdict
            if acc.info.get("part3 failing runs repeated", 0) < 3:
                acc.add_info("part3 failing runs repeated", 1)
                obs3, verdict3, _ = p3_run(desc, d0, st)
                if obs3 != obs or verdict3 is None or verdict3[0] != sig:
                    raise HarnessError("C20 part3: a failing configuration did not fail the same way when repeated")
            detail = dict(detail)
            detail.update({"schedule": desc, "day0": str(d0), "start": st, "period_kind": pname})
            acc.fail(sig, detail, {"part": 3, "desc": desc, "day0": day0, "start": st})
        elif n == 0:
            acc.sample({"part": 3, "schedule": desc, "day0": str(d0), "start": st,
                        "first_probes": [o for o in obs if o[4]][:8]})
    return acc


# ----------------------------------------------------------------------------- part 4: timer-driven, across clock changes

# POSIX TZ rules (no tz database needed).  The worker sets TZ + tzset() for one run and restores what it found.
Z_CET = "CET-1CEST,M3.5.0,M10.5.0/3"                 # +1 h at 02:00 (last Sunday of March), -1 h at 03:00 (last Sunday of October)
Z_US = "EST5EDT,M3.2.0,M11.1.0"                      # west of Greenwich, both changes at 02:00 local
Z_MIDNIGHT = "<-03>3<-02>,M10.3.0/0,M2.3.0/0"        # southern hemisphere, changes at midnight: 00:00 is skipped / 23:00 repeats
Z_HALF = "<+1030>-10:30<+11>-11,M10.1.0,M4.1.0"      # half-hour shift
Z_ZONES = {"quick": (Z_CET, Z_US), "thorough": (Z_CET, Z_US, Z_MIDNIGHT, Z_HALF)}
Z_YEARS = {"quick": (2024,), "thorough": (2024, 2038)}
Z_DAYS_AFTER = 2                                      # the run ends at the end of the second day after the change


class local_zone(object):
    """with local_zone(spec): the process's local time zone is spec; restored on exit."""

    def __init__(self, spec):
        self.spec = spec

    def __enter__(self):
        self.saved = os.environ.get("TZ")
        os.environ["TZ"] = self.spec
        time.tzset()
        return ref.TzRule(self.spec)

    def __exit__(self, *exc):
        if self.saved is None:
            os.environ.pop("TZ", None)
        else:
            os.environ["TZ"] = self.saved
        time.tzset()
        return False


def tod(secs):
    secs %= 86400
    return (secs // 3600, secs % 3600 // 60, secs % 60, 0)


def p4_change(z, year, which):
    """The clock change number `which` of civil year `year`: dict with the instant, the changed civil interval
    [lo, hi) (skipped or repeated readings), the date of lo and the five entry times placed around it."""
    j, before, after = z.jumps(year)[which]
    a, b = z.civil(j, utcoff=before), z.civil(j, utcoff=after)
    lo, hi = min(a, b), max(a, b)
    g = abs(after - before)
    s_lo = lo[1][0] * 3600 + lo[1][1] * 60 + lo[1][2]
    times = (tod(s_lo - 1800), tod(s_lo), tod(s_lo + g // 2), tod(s_lo + g), tod(s_lo + g + 1800))
    return {"instant": j, "kind": "skipped-interval" if after > before else "repeated-interval", "lo": lo, "hi": hi,
            "day": lo[0], "times": times, "shift": g}


def p4_shapes(times, tier):
    """Time-value list shapes over the five times around the change: every ascending list of <=2 (T: <=3) of them x Null
    flags, and the list of all five (all values / alternating Null)."""
    ts = sorted(set(times))
    out = [()]
    for k in (1, 2) if tier == "quick" else (1, 2, 3):
        for sub in itertools.combinations(ts, k):
            for flags in itertools.product((False, True), repeat=k):
                out.append(tuple(zip(sub, flags)))
    out.append(tuple((t, False) for t in ts))
    out.append(tuple((t, i % 2 == 1) for i, t in enumerate(ts)))
    return out


def p4_bodies(c, times, tier):
    shapes = p4_shapes(times, tier)
    n = len(shapes)
    day = datetime.timedelta(days=1)
    for si, shape in enumerate(shapes):
        yield {"weekly": tuple(fill(shape, 10 * (i + 1)) for i in range(7)), "exceptions": None, "default": 0}
        yield {"weekly": tuple((((0, 0, 0, 0), 10 * (i + 1) + 1),) for i in range(7)),
               "exceptions": ({"period": ("date", dpat(c)), "tv": fill(shape, 100), "prio": 5},), "default": 0}
        yield {"weekly": None, "exceptions": ({"period": ("wnd", (ANY, ANY, ANY)), "tv": fill(shape, 100), "prio": 16},), "default": 0}
        yield {"weekly": tuple(fill(shapes[(si * 7 + 3) % n], 10 * (i + 1)) for i in range(7)),
               "exceptions": ({"period": ("range", (dpat(c - day), dpat(c))), "tv": fill(shape, 200), "prio": 3},), "default": 0}


def p4_periods(c):
    day = datetime.timedelta(days=1)
    return [
        ("open-both", (OPEN, OPEN)),
        ("enters-on-change-day", (dpat(c), dpat(c + day))),
        ("ends-on-change-day", (dpat(c - 30 * day), dpat(c))),
        ("change-day-only", (dpat(c, False), dpat(c, False))),
        ("starts-day-after-change", (dpat(c + day), OPEN)),
    ]


def p4_starts(c):
    day = datetime.timedelta(days=1)
    return [(c - 2 * day, (0, 0, 0, 0)), (c - day, (13, 27, 41, 50))]


def p4_configs(tier):
    for spec in Z_ZONES[tier]:
        z = ref.TzRule(spec)
        for year in Z_YEARS[tier]:
            for which in (0, 1):
                ch = p4_change(z, year, which)
                c = ch["day"]
                for (pname, period) in p4_periods(c):
                    for body in p4_bodies(c, ch["times"], tier):
                        for (sd, st) in p4_starts(c):
                            desc = dict(body)
                            desc["period"] = period
                            yield (spec, year, which, desc, ((sd.year, sd.month, sd.day), st), pname)


def p4_probe_instants(z, desc, ch, start_x, dates):
    """Every instant at which the local clock shows one of the probe times on one of the dates (none for a skipped
    reading, two for a repeated one), the instant of the change, one second before and after it."""
    secs = {0, 60, 12 * 3600, 86399}
    for t in tuple(ch["times"]) + tuple(ref.all_times(desc)):
        s = t[0] * 3600 + t[1] * 60 + t[2]
        secs.update(((s - 60) % 86400, s, (s + 60) % 86400))
    xs = {ch["instant"] - 1.0, ch["instant"], ch["instant"] + 1.0}
    for d in dates:
        for s in secs:
            xs.update(z.instants_of(d, tod(s)))
    return sorted(x for x in xs if x >= start_x)


def p4_changes_of_reference(z, desc, dates):
    """[(instant, date, time)]: every instant at which the calendar may dictate a new state: the first instant at which
    the local clock shows midnight / an entry time, or has jumped over it."""
    out = []
    for d in dates:
        for tt in ref.all_times(desc):
            out.append((z.first_at_or_after(d, tt), d, tt))
    return sorted(out)


def p4_where(ch, d, tt):
    """Position of the civil reading (d, tt) relative to the changed interval (root-cause naming only)."""
    x = (d, tuple(tt))
    what = ch["kind"]
    if d != ch["lo"][0] and d != ch["hi"][0]:
        n = (d - ch["day"]).days
        return "%d-day%s-%s-the-change" % (abs(n), "" if abs(n) == 1 else "s", "after" if n > 0 else "before")
    if x < ch["lo"]:
        return "before-%s" % what
    if x == ch["hi"]:
        return "at-end-of-%s" % what
    if x < ch["hi"]:
        return "inside-%s" % what
    return "after-%s" % what


def p4_due_where(ch, changes, due):
    """Root-cause naming: where the change that is due lies; when several readings fall on the same instant (a jump over
    entry times), a reading inside the skipped interval names it."""
    same = [p4_where(ch, r[1], r[2]) for r in changes if r[0] == due[0]]
    for w in same:
        if w.startswith("inside-"):
            return w
    return p4_where(ch, due[1], due[2])


def p4_run(spec, year, which, desc, start):
    """One execution in local zone `spec`.  Returns (observations, verdict, swallowed, notes)."""
    desc = tup(desc)
    (sy, sm, sdd), st = start
    with local_zone(spec) as z:
        ch = p4_change(z, year, which)
        c = ch["day"]
        sd = datetime.date(sy, sm, sdd)
        start_x = z.instants_of(sd, tuple(st))
        if len(start_x) != 1:
            raise HarnessError("C20 part4: the start reading %s %r is skipped or repeated in %s" % (sd, st, spec))
        start_x = start_x[0]
        last_d = c + datetime.timedelta(days=Z_DAYS_AFTER)
        dates = [sd + datetime.timedelta(days=i) for i in range((last_d - sd).days + 1)]
        probes = p4_probe_instants(z, desc, ch, start_x, dates)
        changes = p4_changes_of_reference(z, desc, dates)
        # glibc's mktime resolves a repeated reading by the offset of its previous result (a static variable that
        # survives from run to run): give it the history of a process that has been running since the start instant
        time.mktime(time.localtime(start_x))
        vclock.reset(start_x)
        app = get_app(fresh=True)
        _, so, cals = build(desc, with_app=False)
        for cobj in cals:
            app.add_object(cobj)
        app.add_object(so)
        obs = []
        notes = []
        first_bad = None
        livelock = None
        hist = []                  # the distinct values the calendar has dictated so far, in order
        try:
            vclock.settle()
            for x in probes:
                vclock.run_until(x, max_steps=MAX_TIMER_STEPS)
                d, t = z.civil(x)
                lt = time.localtime(x)
                if (lt.tm_year, lt.tm_mon, lt.tm_mday, lt.tm_hour, lt.tm_min, lt.tm_sec, lt.tm_gmtoff) != \
                        (d.year, d.month, d.day, t[0], t[1], t[2], z.utcoff(x)):
                    raise HarnessError("C20 part4: the reference's local clock and the platform's disagree at %r in %s: %r / %r"
                                       % (x, spec, (d, t), tuple(lt)))
                pv = so.presentValue
                pv = None if isinstance(pv, Null) else getattr(pv, "value", pv)
                armed = bool(so._task.isScheduled)
                act, want = ref.present_value(desc, d, t)
                admitted = [want]
                lim = z.second_pass_limit(x)
                if act and lim is not None:
                    mono = ref.present_value(desc, lim[0], lim[1])[1]
                    if mono != want:
                        admitted.append(mono)
                        notes.append("second-pass:readings-differ:shown=%s" % ("civil" if pv == want else "monotonic" if pv == mono else "neither"))
                obs.append((x, str(d), t, pv, armed, act, want))
                if act and (not hist or hist[-1] != want):
                    hist.append(want)
                if act and pv not in admitted and first_bad is None:
                    due = [r for r in changes if r[0] <= x]
                    due = due[-1] if due else None
                    stale = len(hist) >= 2 and pv == hist[-2]
                    first_bad = {"at": (x, str(d), t), "present_value": pv, "expected": want, "admitted": admitted,
                                 "how": "stale" if stale else ("initial-value" if pv == -1 else "wrong"),
                                 "due_since": None if due is None else (due[0], str(due[1]), due[2]),
                                 "due_where": "start-of-run" if due is None else p4_due_where(ch, changes, due),
                                 "late_by_s": None if due is None else x - due[0],
                                 "source_expected": source_of(desc, d, t, want), "armed": armed}
        except vclock.Livelock as err:
            livelock = str(err)
        swallowed = sorted(set(m for (_, m) in vclock.swallowed))
        sw = "no-exception"
        if swallowed:
            sw = swallowed[0].replace("an error has occurred: ", "").replace(" ", "-")[:60]
        kind = ch["kind"]
        armed_end = bool(so._task.isScheduled)
        when_end = so._task.taskTime if armed_end else None
        verdict = None
        if livelock is not None:
            verdict = ("timer:clock-change:%s:livelock:%s" % (kind, sw), {"livelock": livelock})
        elif first_bad is not None:
            if not first_bad["armed"]:
                verdict = ("timer:clock-change:%s:present-value-not-updated:interpreter-not-armed:%s" % (kind, sw), first_bad)
            else:
                verdict = ("timer:clock-change:%s:present-value-%s:due=%s:%s" % (kind, first_bad["how"], first_bad["due_where"], sw), first_bad)
        elif not armed_end:
            verdict = ("timer:clock-change:%s:interpreter-not-armed-at-end:%s" % (kind, sw), {"armed": False})
        else:
            last = (last_d, (23, 59, 59, 0))
            nxt = ref.first_change(desc, last, horizon_days=3)
            if nxt is not None and when_end is not None and when_end > z.first_at_or_after(nxt[0], nxt[1]) + 1e-6:
                verdict = ("timer:clock-change:%s:armed-later-than-next-change:%s" % (kind, sw),
                           {"armed_for": when_end, "next_change": (str(nxt[0]), nxt[1]),
                            "next_change_epoch": z.first_at_or_after(nxt[0], nxt[1])})
        if verdict is not None:
            verdict[1].update({"swallowed": swallowed, "armed_at_end": armed_end, "zone": spec, "change": kind,
                               "change_instant": ch["instant"], "changed_interval": (str(ch["lo"][0]), ch["lo"][1], str(ch["hi"][0]), ch["hi"][1])})
    return obs, verdict, swallowed, notes


def p4_shard(item, deadline):
    acc = Acc()
    tz_before = (os.environ.get("TZ"), time.tzname)
    for n, (spec, year, which, desc, start, pname) in enumerate(item):
        if time.time() > deadline:
            acc.cap("part4: deadline")
            break
        obs, verdict, swallowed, notes = p4_run(spec, year, which, desc, start)
        if n == 0:
            obs2, verdict2, _, _ = p4_run(spec, year, which, desc, start)
            if obs2 != obs or (verdict is None) != (verdict2 is None):
                raise HarnessError("C20 part4: the same configuration ran twice with different observations")
        acc.case(("p4", spec, year, which, repr(desc), start))
        acc.traces += 1
        acc.transitions += len(obs)
        acc.add_info("part4 runs", 1)
        acc.add_info("part4 probes", len(obs))
        acc.add_info("part4 probes compared (schedule active)", sum(1 for o in obs if o[5]))
        for m in swallowed:
            acc.swallowed[m] += 1
        kind = "skipped" if which_kind(spec, year, which) else "repeated"
        acc.outcome("p4:%s:%s:%s" % (kind, pname, "ok" if verdict is None else verdict[0].split(":")[3]))
        for m in notes:
            acc.outcome("p4:" + m)
            acc.add_info("part4 " + m, 1)
        if verdict is not None:
            sig, detail = verdict
            if acc.info.get("part4 failing runs repeated", 0) < 3:
                acc.add_info("part4 failing runs repeated", 1)
                obs3, verdict3, _, _ = p4_run(spec, year, which, desc, start)
                if obs3 != obs or verdict3 is None or verdict3[0] != sig:
                    raise HarnessError("C20 part4: a failing configuration did not fail the same way when repeated")
            detail = dict(detail)
            detail.update({"schedule": desc, "start": start, "period_kind": pname})
            acc.fail(sig, detail, {"part": 4, "tz": spec, "year": year, "which": which, "desc": desc, "start": start})
        elif n == 0:
            acc.sample({"part": 4, "zone": spec, "schedule": desc, "start": start,
                        "first_probes": [o for o in obs if o[5]][:8]})
    if (os.environ.get("TZ"), time.tzname) != tz_before:
        raise HarnessError("C20 part4: the time zone of the process was not restored")
    return acc


_KIND = {}


def which_kind(spec, year, which):
    """True for a change that skips civil readings (clock set forward)."""
    k = (spec, year, which)
    if k not in _KIND:
        j, before, after = ref.TzRule(spec).jumps(year)[which]
        _KIND[k] = after > before
    return _KIND[k]


# ----------------------------------------------------------------------------- part 5: history (reconfiguration between evaluations)
#
# One long-lived schedule object (and the Calendar objects it refers to) is evaluated, reconfigured, and evaluated again.
# Oracle: whatever was evaluated before, the result is the one the reference prescribes for the CURRENT configuration
# (on failure a freshly created object of the current configuration is asked too, to name the root cause).
# A description here may carry "cal": n in an exception whose period is ("cal", entries): the number of the Calendar
# object it refers to (several exceptions may share one); the reference ignores the key.

P5_HOWS = ("write-list", "assign", "inplace", "recreate")
P5_NOTIFIED = ("exc-set", "exc-elem", "exc-len", "weekly-set", "weekly-elem")     # writes the interpreter monitors (schedule_changed)


class Stage(object):
    """Real objects for a description + the operations that reconfigure them (keeps the description in step)."""

    def __init__(self, desc):
        self.app = get_app(fresh=True)
        self.desc = dict(desc)
        self.cals = {}
        kwargs = dict(objectIdentifier=("schedule", 1), objectName="sched", presentValue=Integer(-1),
                      effectivePeriod=DateRange(startDate=tuple(desc["period"][0]), endDate=tuple(desc["period"][1])),
                      scheduleDefault=Integer(desc["default"]))
        if desc.get("weekly") is not None:
            kwargs["weeklySchedule"] = ArrayOfDaily([DailySchedule(daySchedule=mk_tvs(day)) for day in desc["weekly"]])
        if desc.get("exceptions") is not None:
            kwargs["exceptionSchedule"] = ArrayOfSpecial([self.special(e) for e in desc["exceptions"]])
        self.so = LocalScheduleObject(**kwargs)
        if self.so.reliability != "noFaultDetected":
            raise HarnessError("enumerated schedule is rejected by _check_reliability: %r" % (desc,))
        self.app.add_object(self.so)

    def calendar(self, n, entries):
        cal = CalendarObject(objectIdentifier=("calendar", n), objectName="cal%d" % n,
                             dateList=ListOfCalendarEntry([mk_entry(x) for x in entries]))
        self.cals[n] = cal
        self.app.add_object(cal)

    def special(self, e):
        kind, what = e["period"]
        if kind == "cal":
            n = e["cal"]
            if n not in self.cals:
                self.calendar(n, what)
            period = SpecialEventPeriod(calendarReference=("calendar", n))
        else:
            period = SpecialEventPeriod(calendarEntry=mk_entry(e["period"]))
        return SpecialEvent(period=period, listOfTimeValues=mk_tvs(e["tv"]), eventPriority=e["prio"])

    def apply(self, op):
        kind = op[0]
        desc = self.desc
        if kind == "cal-set":
            _, n, entries, how = op
            cal = self.cals[n]
            objs = [mk_entry(x) for x in entries]
            if how == "write-list":
                cal.WriteProperty("dateList", objs, direct=True)
            elif how == "assign":
                cal.dateList = ListOfCalendarEntry(objs)
            elif how == "inplace":
                held = cal.dateList
                held = held.value if hasattr(held, "value") else held
                held[:] = objs
            elif how == "recreate":
                self.app.delete_object(cal)
                self.calendar(n, entries)
            else:
                raise ValueError(how)
            desc["exceptions"] = tuple(dict(e, period=("cal", tuple(entries))) if e.get("cal") == n else e
                                       for e in desc["exceptions"])
        elif kind == "exc-set":
            self.so.exceptionSchedule = ArrayOfSpecial([self.special(e) for e in op[1]])
            desc["exceptions"] = tuple(op[1])
        elif kind == "exc-elem":
            _, k, e = op
            self.so.WriteProperty("exceptionSchedule", self.special(e), arrayIndex=k + 1, direct=True)
            desc["exceptions"] = desc["exceptions"][:k] + (e,) + desc["exceptions"][k + 1:]
        elif kind == "exc-len":
            # the BACnet way of changing an array's length: a write to element 0 (shortening drops the last exceptions)
            self.so.WriteProperty("exceptionSchedule", op[1], arrayIndex=0, direct=True)
            desc["exceptions"] = desc["exceptions"][:op[1]]
        elif kind == "weekly-set":
            self.so.weeklySchedule = ArrayOfDaily([DailySchedule(daySchedule=mk_tvs(day)) for day in op[1]])
            desc["weekly"] = tuple(op[1])
        elif kind == "weekly-elem":
            _, i, day = op
            self.so.WriteProperty("weeklySchedule", DailySchedule(daySchedule=mk_tvs(day)), arrayIndex=i + 1, direct=True)
            desc["weekly"] = desc["weekly"][:i] + (tuple(day),) + desc["weekly"][i + 1:]
        elif kind == "period-set":
            self.so.effectivePeriod = DateRange(startDate=tuple(op[1][0]), endDate=tuple(op[1][1]))
            desc["period"] = op[1]
        elif kind == "default-set":
            self.so.scheduleDefault = Integer(op[1])
            desc["default"] = op[1]
        else:
            raise ValueError(kind)
        # the calendars an exception refers to must show the entries the description says
        for e in desc["exceptions"] or ():
            if "cal" in e and e["period"] != ("cal", self.entries_of(e["cal"])):
                raise HarnessError("C20 part5: description and calendar %d out of step" % e["cal"])

    def entries_of(self, n):
        for e in self.desc["exceptions"] or ():
            if e.get("cal") == n:
                return e["period"][1]
        return None


P5_DATES = (datetime.date(2024, 2, 29), datetime.date(2023, 12, 31), datetime.date(2100, 2, 28))


def p5_other_entry(d):
    return ("date", (ANY, 12, 25, ANY)) if d.month != 12 else ("date", (ANY, 7, 4, ANY))


def p5_bases(d):
    """(name, description) of the configurations that are reconfigured; every one refers to at least one Calendar, which
    either lists the date d or does not."""
    other = p5_other_entry(d)
    hit = ("date", dpat(d, False))
    wk_a = tuple((((8, 0, 0, 0), 10 * (i + 1) + 1), ((17, 0, 0, 0), None)) for i in range(7))
    wk_b = tuple((((0, 0, 0, 0), 10 * (i + 1) + 1), ((17, 0, 0, 0), 10 * (i + 1) + 2)) for i in range(7))
    for member in (False, True):
        ents = (other, hit) if member else (other,)
        opp = (other,) if member else (other, hit)
        tag = "listed" if member else "not-listed"
        e1 = {"period": ("cal", ents), "cal": 1, "tv": (((0, 0, 0, 0), 401), ((17, 0, 0, 0), 402)), "prio": 5}
        e1n = {"period": ("cal", ents), "cal": 1, "tv": (((0, 0, 0, 0), 401), ((17, 0, 0, 0), None)), "prio": 5}
        e1b = {"period": ("cal", ents), "cal": 1, "tv": (((8, 0, 0, 0), 411),), "prio": 5}
        e_date = {"period": ("date", dpat(d)), "tv": (((8, 0, 0, 0), 101), ((17, 0, 0, 0), 102)), "prio": 9}
        e2 = {"period": ("cal", opp), "cal": 2, "tv": (((0, 0, 0, 0), 501),), "prio": 12}
        e1s = {"period": ("cal", ents), "cal": 1, "tv": (((17, 0, 0, 0), 601),), "prio": 3}
        yield ("weekly+calendar:" + tag, {"weekly": wk_a, "exceptions": (e1,), "default": 0, "period": WIDE})
        yield ("calendar-only:" + tag, {"weekly": None, "exceptions": (e1b,), "default": 0, "period": WIDE})
        yield ("weekly+dated+calendar:" + tag, {"weekly": wk_b, "exceptions": (e_date, e1n), "default": 0, "period": WIDE})
        yield ("two-calendars:" + tag, {"weekly": wk_a, "exceptions": (e1n, e2), "default": 0, "period": WIDE})
        yield ("two-exceptions-one-calendar:" + tag, {"weekly": wk_a, "exceptions": (e1n, e1s), "default": 0, "period": WIDE})


def p5_changes(desc, d):
    """(name, operations, operations that undo them) for one configuration and the date under observation."""
    day = datetime.timedelta(days=1)
    excs = tuple(desc["exceptions"])
    other = p5_other_entry(d)
    hits = (("date", dpat(d, False)), ("range", (dpat(d), dpat(d + day))), ("wnd", (ANY, ANY, d.isoweekday())))
    cal_entries = {}
    for e in excs:
        if "cal" in e:
            cal_entries[e["cal"]] = e["period"][1]
    for n in sorted(cal_entries):
        ents = tuple(cal_entries[n])
        if any(ref.entry_matches(x, d) for x in ents):
            new = tuple(x for x in ents if not ref.entry_matches(x, d))
            for how in P5_HOWS:
                yield ("calendar-loses-date[%s]" % how, (("cal-set", n, new, how),), (("cal-set", n, ents, how),))
        else:
            for i, hit in enumerate(hits):
                for how in (P5_HOWS if i == 0 else ("write-list",)):
                    yield ("calendar-gains-%s[%s]" % (hit[0], how), (("cal-set", n, ents + (hit,), how),), (("cal-set", n, ents, how),))
    for k, e in enumerate(excs):
        rest = excs[:k] + excs[k + 1:]
        if rest or desc["weekly"] is not None:
            yield ("exception-removed", (("exc-set", rest),), (("exc-set", excs),))
        e2 = dict(e, tv=tuple((t, None if v is None else v + 50) for (t, v) in e["tv"]))
        yield ("exception-values-written", (("exc-set", excs[:k] + (e2,) + excs[k + 1:]),), (("exc-set", excs),))
        yield ("exception-element-written", (("exc-elem", k, e2),), (("exc-elem", k, e),))
        if "cal" in e:
            member = any(ref.entry_matches(x, d) for x in e["period"][1])
            e3 = dict(e, cal=9, period=("cal", (other,) if member else (other, hits[0])))
            yield ("exception-referred-to-another-calendar", (("exc-set", excs[:k] + (e3,) + excs[k + 1:]),), (("exc-set", excs),))
    if excs and (len(excs) > 1 or desc["weekly"] is not None):
        # the array is shortened by one through element 0, and restored by writing the whole array
        yield ("exception-array-shortened-through-element-0", (("exc-len", len(excs) - 1),), (("exc-set", excs),))
    added = {"period": ("date", dpat(d)), "tv": (((0, 0, 0, 0), 901), ((17, 0, 0, 0), None)), "prio": 1}
    yield ("exception-added", (("exc-set", excs + (added,)),), (("exc-set", excs),))
    if len(excs) >= 2:
        a, b = dict(excs[0], prio=excs[1]["prio"]), dict(excs[1], prio=excs[0]["prio"])
        yield ("exception-priorities-swapped", (("exc-set", (a, b) + excs[2:]),), (("exc-set", excs),))
    if desc["weekly"] is not None:
        wd = d.weekday()
        wk = tuple(desc["weekly"])
        day2 = tuple((t, None if v is None else v + 5) for (t, v) in wk[wd]) + (((20, 0, 0, 0), 99),)
        yield ("weekly-written", (("weekly-set", wk[:wd] + (day2,) + wk[wd + 1:]),), (("weekly-set", wk),))
        yield ("weekly-element-written", (("weekly-elem", wd, day2),), (("weekly-elem", wd, wk[wd]),))
    yield ("effective-period-written", (("period-set", (dpat(d - 30 * day), dpat(d - day))),), (("period-set", desc["period"]),))
    yield ("schedule-default-written", (("default-set", 7),), (("default-set", desc["default"]),))


def p5_prehistories(d):
    """What the long-lived object has been asked before the change."""
    day = datetime.timedelta(days=1)
    a, b = (0, 0, 0, 0), (12, 0, 0, 0)
    return [(), ((d, a),), ((d, b), (d + day, a)), ((d + day, b), (d, a)), ((d, a), (d, b)), ((d - day, b), (d, b), (d + day, b))]


def p5_value_of(desc, d, t):
    try:
        return ref.present_value(desc, d, t)
    except ref.Undecided:
        raise HarnessError("C20 part5: enumerated configuration is undecided: %r" % (desc,))


def p5_eval_history(desc0, d, change, prehist, clock_date):
    """One pure-evaluation history.  Returns (number of evaluations, flips, failure or None); failure = (signature, detail)."""
    name, ops, undo = change
    day = datetime.timedelta(days=1)
    vclock.reset(epoch(clock_date, (6, 0, 0, 0)))
    st = Stage(desc0)
    vclock.settle()                       # the interpreter's own first evaluation (of the clock's date)
    n = 0
    flips = False
    for (dd, t) in prehist:
        lab, bad = judge_eval(st.desc, dd, t, st.so)
        n += 1
        if bad is not None:
            return n, flips, (bad[0], dict(bad[1], phase="before-any-change", date=str(dd), time=t, schedule=dict(st.desc)))
    for phase, todo in (("after-change", ops), ("after-undoing-it", undo)):
        prev = dict(st.desc)
        try:
            for op in todo:
                st.apply(op)
        except HarnessError:
            raise
        except Exception as err:
            # the write itself raised (the interpreter re-evaluates inside a monitored write)
            return n, flips, ("history:eval:%s:%s:write-raises:%s" % (phase, name, type(err).__name__),
                              {"error": "%s: %s" % (type(err).__name__, err), "phase": phase, "change": name, "operations": todo,
                               "clock_date": str(clock_date), "schedule": prev})
        vclock.settle()
        for dd in (d, d + day, d):
            for t in INSTANTS:
                before, now = p5_value_of(prev, dd, t), p5_value_of(st.desc, dd, t)
                if before != now:
                    flips = True
                lab, bad = judge_eval(st.desc, dd, t, st.so)
                n += 1
                if bad is None:
                    continue
                sig, detail = bad
                fresh = Stage(st.desc)
                flab, fbad = judge_eval(st.desc, dd, t, fresh.so)
                if fbad is None:
                    got = detail.get("got", "?")
                    if before != now and before[0] and got == before[1]:
                        what = "value-of-previous-configuration"
                    else:
                        what = lab if lab in ("value-differs", "next-late", "next-not-later", "raises") else "differs"
                    sig = "history:eval:%s:%s:%s" % (phase, name, what)
                    detail = dict(detail, fresh_object="agrees with the reference (%s)" % flab, judged_alone=bad[0])
                detail = dict(detail, phase=phase, change=name, operations=todo, date=str(dd), time=t, asked_before=[(str(x), y) for x, y in prehist],
                              clock_date=str(clock_date), schedule=dict(st.desc), previous_configuration_value=before, reference=now)
                return n, flips, (sig, detail)
    return n, flips, None


def p5_eval_cases():
    for d in P5_DATES:
        for (bname, desc) in p5_bases(d):
            for ci, change in enumerate(p5_changes(desc, d)):
                for hi, pre in enumerate(p5_prehistories(d)):
                    for cd in (0, 1):
                        yield ("e", (d.year, d.month, d.day), bname, ci, hi, cd)


P5_CHANGE_TIMES = ((7, 0, 0, 0), (9, 0, 1, 0), (17, 30, 0, 0), (23, 59, 30, 0))
P5_UNDO_AT = (12, 0, 30, 0)


def p5_timer_cases():
    for d in P5_DATES[:2]:
        for (bname, desc) in p5_bases(d):
            for ci, change in enumerate(p5_changes(desc, d)):
                for ti in range(len(P5_CHANGE_TIMES)):
                    yield ("t", (d.year, d.month, d.day), bname, ci, ti, 0)


def p5_lookup(case):
    mode, dl, bname, ci, x, y = case
    d = datetime.date(*dl)
    desc = dict(b for b in p5_bases(d))[bname]
    change = list(p5_changes(desc, d))[ci]
    return mode, d, desc, change, x, y


def p5_timer_history(desc0, d, change, t_c):
    """One timer-driven history: the object runs on its own timer from the day before d, is reconfigured on d at t_c and
    back on d+1 at 12:00:30, and runs to the end of d+2.  Returns (observations, verdict, swallowed, notes)."""
    name, ops, undo = change
    day = datetime.timedelta(days=1)
    day0 = d - day
    vclock.reset(epoch(day0, (0, 0, 0, 0)))
    st = Stage(desc0)
    so = st.so
    events = [(epoch(d, t_c) + 0.0, 1, "change", ops), (epoch(d + day, P5_UNDO_AT), 1, "undo", undo)]
    for i in range(4):
        for t in INSTANTS[:-1] + ((23, 59, 59, 0),):
            events.append((epoch(day0 + i * day, t), 0, "probe", None))
    events.sort(key=lambda e: (e[0], e[1]))
    obs, notes = [], []
    first_bad = None
    livelock = None
    not_before = None                    # after a write the interpreter is not told about: its next wake-up
    write_error = None
    last_change = "start"
    prev = None
    try:
        vclock.settle()
        for (x, _, kind, todo) in events:
            vclock.run_until(x, max_steps=MAX_TIMER_STEPS)
            if kind != "probe":
                prev = dict(st.desc)
                last_change = "after-change" if kind == "change" else "after-undoing-it"
                try:
                    for op in todo:
                        st.apply(op)
                except HarnessError:
                    raise
                except Exception as err:
                    write_error = "%s: %s" % (type(err).__name__, err)
                    break
                vclock.settle()
                if all(op[0] in P5_NOTIFIED for op in todo):
                    not_before = None
                else:
                    not_before = so._task.taskTime if so._task.isScheduled else float("inf")
            stamp = datetime.datetime(1970, 1, 1) + datetime.timedelta(seconds=int(x))
            dd, t = stamp.date(), (stamp.hour, stamp.minute, stamp.second, int(round((x % 1) * 100)))
            pv = so.presentValue
            pv = None if isinstance(pv, Null) else getattr(pv, "value", pv)
            armed = bool(so._task.isScheduled)
            act, want = p5_value_of(st.desc, dd, t)
            judged = act and (not_before is None or x >= not_before)
            obs.append((str(dd), t, pv, armed, act, want, judged))
            if act and not judged:
                notes.append("write-not-monitored:before-next-wake-up:%s" % ("already-current" if pv == want else "previous-value-shown"))
            if judged and pv != want and first_bad is None:
                old = p5_value_of(prev, dd, t) if prev is not None else (False, None)
                first_bad = {"at": (str(dd), t), "present_value": pv, "expected": want, "armed": armed, "phase": last_change,
                             "what": "not-armed" if not armed else
                                     "present-value-of-previous-configuration" if (old[0] and old[1] == pv) else "present-value-wrong",
                             "interpreter_told": not_before is None}
    except vclock.Livelock as err:
        livelock = str(err)
    swallowed = sorted(set(m for (_, m) in vclock.swallowed))
    sw = "no-exception"
    if swallowed:
        sw = swallowed[0].replace("an error has occurred: ", "").replace(" ", "-")[:60]
    end_d = day0 + 4 * day
    armed_end = bool(so._task.isScheduled)
    when_end = so._task.taskTime if armed_end else None
    verdict = None
    if livelock is not None:
        verdict = ("history:timer:%s:%s:livelock:%s" % (last_change, name, sw), {"livelock": livelock})
    elif first_bad is not None:
        verdict = ("history:timer:%s:%s:%s:%s" % (first_bad["phase"], name, first_bad["what"], sw), first_bad)
    elif write_error is not None:
        verdict = ("history:timer:%s:%s:write-raises:%s" % (last_change, name, write_error.split(":")[0]), {"error": write_error})
    elif not armed_end:
        verdict = ("history:timer:%s:%s:interpreter-not-armed-at-end:%s" % (last_change, name, sw), {"armed": False})
    else:
        last = (end_d - day, (23, 59, 59, 0))
        nxt = ref.first_change(st.desc, last, horizon_days=3)
        if nxt is not None and when_end > epoch(nxt[0], nxt[1]) + 1e-6:
            verdict = ("history:timer:%s:%s:armed-later-than-next-change:%s" % (last_change, name, sw),
                       {"armed_for": when_end, "next_change": (str(nxt[0]), nxt[1])})
    if verdict is not None:
        verdict[1].update({"swallowed": swallowed, "armed_at_end": armed_end, "change": name, "operations": ops,
                           "changed_at": (str(d), t_c), "undone_at": (str(d + day), P5_UNDO_AT), "schedule_at_end": dict(st.desc)})
    return obs, verdict, swallowed, notes


def p5_shard(item, deadline):
    acc = Acc()
    for n, case in enumerate(item):
        if time.time() > deadline:
            acc.cap("part5: deadline")
            break
        mode, d, desc, change, x, y = p5_lookup(case)
        day = datetime.timedelta(days=1)
        if mode == "e":
            pre = p5_prehistories(d)[x]
            cd = d if y == 0 else d + day
            k, flips, bad = p5_eval_history(desc, d, change, pre, cd)
            if n == 0:
                k2, flips2, bad2 = p5_eval_history(desc, d, change, pre, cd)
                if (k2, flips2, bad2 is None) != (k, flips, bad is None):
                    raise HarnessError("C20 part5: the same history ran twice with different results")
            acc.case(("p5e",) + tuple(case))
            acc.evaluations += k
            acc.add_info("part5 pure-evaluation histories", 1)
            acc.add_info("part5 evaluations judged", k)
            acc.outcome("p5:eval:%s:%s:%s" % (change[0].split("[")[0], "prescribed-value-changes" if flips else "prescribed-value-unchanged",
                                              "ok" if bad is None else "differs"))
            if bad is not None:
                acc.fail(bad[0], bad[1], {"part": 5, "case": list(case)})
            elif n == 0:
                acc.sample({"part": 5, "mode": "pure evaluation", "date": str(d), "schedule": desc, "change": change[0], "operations": change[1],
                            "asked_before": [(str(a), b) for a, b in pre], "clock_date": str(cd), "evaluations": k})
        else:
            t_c = P5_CHANGE_TIMES[x]
            obs, verdict, swallowed, notes = p5_timer_history(desc, d, change, t_c)
            if n == 0:
                obs2, verdict2, _, _ = p5_timer_history(desc, d, change, t_c)
                if obs2 != obs or (verdict is None) != (verdict2 is None):
                    raise HarnessError("C20 part5: the same timer-driven history ran twice with different observations")
            acc.case(("p5t",) + tuple(case))
            acc.traces += 1
            acc.transitions += len(obs)
            acc.add_info("part5 timer-driven histories", 1)
            acc.add_info("part5 probes", len(obs))
            acc.add_info("part5 probes compared", sum(1 for o in obs if o[6]))
            for m in swallowed:
                acc.swallowed[m] += 1
            for m in notes:
                acc.add_info("part5 " + m, 1)
            for m in set(notes):
                acc.outcome("p5:timer:" + m)
            acc.outcome("p5:timer:%s:%s" % (change[0].split("[")[0], "ok" if verdict is None else verdict[0].split(":")[4]))
            if verdict is not None:
                acc.fail(verdict[0], dict(verdict[1], schedule=desc), {"part": 5, "case": list(case)})
    return acc


# ----------------------------------------------------------------------------- part 6: value domains (pure evaluation)
#
# The schedule's datatype is crossed with the place the type's zero / empty / false value stands in: every slot of the
# schedule (each non-Null entry of each exception, each non-Null entry of the weekday's list, the default) in turn holds the
# zero while all other slots hold pairwise different other values (large domains), or holds one of the two values while
# all other slots hold the other one (two-valued domains, both polarities).  Entry times include hundredths of a second.

T6 = ((0, 0, 0, 0), (8, 0, 0, 50), (17, 0, 0, 0), (23, 59, 59, 99))
I6 = ((0, 0, 0, 0), (0, 1, 0, 0), (8, 0, 0, 0), (8, 0, 0, 49), (8, 0, 0, 50), (8, 0, 0, 51), (8, 1, 0, 0), (16, 59, 59, 99),
      (17, 0, 0, 0), (17, 1, 0, 0), (23, 59, 59, 98), (23, 59, 59, 99))
R6 = (
    ((T6[0], False),),                                   # a value all day
    ((T6[1], False),),                                   # nothing, then a value from 08:00:00.50
    ((T6[0], False), (T6[2], True)),                     # a value, relinquished at 17:00
    ((T6[1], False), (T6[3], False)),                    # nothing, a value, another value in the last hundredth of the day
    ((T6[0], True), (T6[1], False)),                     # Null, then a value
    ((T6[2], False),),                                   # a value from 17:00
)
PR6 = {1: ((1,), (7,), (16,)), 2: ((1, 2), (2, 16), (8, 9)), 3: ((1, 2, 16), (3, 4, 5), (14, 15, 16))}
ORDERS6 = {1: ((0,),), 2: ((0, 1), (1, 0)), 3: ((0, 1, 2), (2, 1, 0), (1, 2, 0))}


def p6_shape_configs(tier):
    """(exception list shapes by rank, list order, extra exception not in force?, weekly shape | None (absent) | ())."""
    out = []
    for wk in R6:
        out.append(((), (), False, wk))
    for e in R6:
        for extra in (False, True):
            for wk in (None, ()) + R6:
                out.append(((e,), (0,), extra, wk))
    for e1 in R6:
        for e2 in R6:
            for order in ORDERS6[2]:
                for wk in ((None, R6[3]) if tier == "quick" else (None, R6[1], R6[2], R6[3])):
                    out.append(((e1, e2), order, False, wk))
    three = R6[:3] if tier == "quick" else R6
    for e1 in three:
        for e2 in three:
            for e3 in three:
                for order in (ORDERS6[3][1:] if tier == "quick" else ORDERS6[3]):
                    for wk in (None, R6[3]):
                        out.append(((e1, e2, e3), order, False, wk))
    return out


def p6_desc(cfg, d, rot):
    """The description with schedule-wide unique values >= 1 (no slot holds the zero yet)."""
    shapes, order, extra, wk = cfg
    excs = []
    if shapes:
        prios = PR6[len(shapes)][rot % 3]
        ranked = [{"period": periods_for(d, True, rot + 3 * k), "tv": fill(sh, 100 * (k + 1)), "prio": prios[k]}
                  for k, sh in enumerate(shapes)]
        excs = [ranked[i] for i in order]
        if extra:
            # not in force, the priority of the first one (never both in force)
            excs.insert(rot % 2, {"period": periods_for(d, False, rot + 1), "tv": fill(R6[0], 400), "prio": prios[0]})
    weekly = None
    if wk is not None:
        weekly = tuple(fill(wk, 10) if i == d.weekday() else (((0, 0, 0, 0), 900 + i),) for i in range(7))
    return {"period": WIDE, "weekly": weekly, "exceptions": tuple(excs) if shapes else None, "default": 5}


def p6_slots(desc, d):
    """The places a value stands in: the default, the non-Null entries of every exception and of the weekday's list."""
    out = [("default",)]
    for k, e in enumerate(desc.get("exceptions") or ()):
        for j, (t, v) in enumerate(e["tv"]):
            if v is not None:
                out.append(("exc", k, j))
    if desc.get("weekly"):
        for j, (t, v) in enumerate(desc["weekly"][d.weekday()]):
            if v is not None:
                out.append(("weekly", j))
    return out


def p6_assign(desc, d, vtype, z, pol=0):
    """The description in datatype vtype with slot z holding the zero (two-valued: holding `pol`, every other slot 1-pol)."""
    two = two_valued(vtype)

    def val(path, v):
        if v is None:
            return None
        if two:
            return pol if path == z else 1 - pol
        return 0 if path == z else v

    out = dict(desc, vtype=vtype, default=val(("default",), desc["default"]))
    if desc.get("exceptions") is not None:
        out["exceptions"] = tuple(dict(e, tv=tuple((t, val(("exc", k, j), v)) for j, (t, v) in enumerate(e["tv"])))
                                  for k, e in enumerate(desc["exceptions"]))
    if desc.get("weekly") is not None:
        wd = d.weekday()
        out["weekly"] = tuple(tuple((t, val(("weekly", j) if i == wd else ("other-day", i, j), v)) for j, (t, v) in enumerate(day))
                              for i, day in enumerate(desc["weekly"]))
    return out


def p6_assignments(desc, d, vtype):
    """[(slot or None, polarity)]: which slot holds the zero."""
    slots = p6_slots(desc, d)
    if two_valued(vtype):
        return [(z, pol) for z in slots for pol in (0, 1)]
    return [(None, 0)] + [(z, 0) for z in slots]


def p6e_shard(item, deadline):
    """item = (seed, tier, [(number of the shape configuration, vtype)])."""
    seed, tier, todo = item
    acc = Acc()
    cfgs = p6_shape_configs(tier)
    for n, (ci, vtype) in enumerate(todo):
        if time.time() > deadline:
            acc.cap("part6: deadline")
            break
        rot = ((((ci + 1) * 2654435761) & 0xFFFFFFFF) >> 9) + seed
        d = P2A_DATES[rot % len(P2A_DATES)]
        base = p6_desc(cfgs[ci], d, rot)
        for (z, pol) in p6_assignments(base, d, vtype):
            desc = p6_assign(base, d, vtype, z, pol)
            p2_eval_desc(acc, desc, (d,), I6, "p6", key=("p6", vtype, ci, z, pol), part="6")
            for t in I6:
                if ref.present_value(desc, d, t)[1] == 0:
                    acc.add_info("part6 instants at which the prescribed value is the type's zero", 1)
                    acc.outcome("p6:zero-of-the-type-prescribed:%s:from=%s" % (vtype, want_source(desc, d, t, 0)))
        if n == 0:
            acc.sample({"part": 6, "datatype": vtype, "schedule": desc, "date": str(d),
                        "reference": [(t, ref.present_value(desc, d, t)[1]) for t in I6]})
    return acc


# ----------------------------------------------------------------------------- part 7: value domains and hundredths, timer-driven

P7_DAYS = 3
P7_ANCHORS = (datetime.date(2024, 2, 27), datetime.date(2023, 12, 30))


def p7_domain_bodies(day0):
    """Whole-second bodies for the datatype runs; exceptions are in force on run day 1 (and 2)."""
    d1, d2 = day0 + datetime.timedelta(days=1), day0 + datetime.timedelta(days=2)
    wk_a = tuple((((8, 0, 0, 0), 10 * (i + 1) + 1), ((17, 0, 0, 0), None)) for i in range(7))
    wk_b = tuple((((0, 0, 0, 0), 10 * (i + 1) + 1), ((17, 0, 0, 0), 10 * (i + 1) + 2)) for i in range(7))
    e_top = {"period": ("date", dpat(d1)), "tv": (((8, 0, 0, 0), 101), ((17, 0, 0, 0), 102)), "prio": 1}
    e_mid = {"period": ("range", (dpat(d1), dpat(d2))), "tv": (((0, 0, 0, 0), 201), ((17, 0, 0, 0), None)), "prio": 2}
    e_low = {"period": ("wnd", (ANY, ANY, d1.isoweekday())), "tv": (((0, 0, 0, 0), 301),), "prio": 16}
    e_cal = {"period": ("cal", (("date", dpat(d1, False)),)), "tv": (((8, 0, 0, 0), 401), ((17, 0, 0, 0), None)), "prio": 9}
    return [
        {"weekly": wk_a, "exceptions": None, "default": 5},
        {"weekly": wk_b, "exceptions": (e_top,), "default": 5},
        {"weekly": wk_a, "exceptions": (e_mid, e_low), "default": 5},
        {"weekly": None, "exceptions": (e_cal,), "default": 5},
        {"weekly": wk_b, "exceptions": (e_low, e_top, e_mid), "default": 5},
    ]


def p7_slots(desc):
    """Every value slot of a part-7 body (all weekdays' entries at position j count as one slot)."""
    out = [("default",)]
    for k, e in enumerate(desc.get("exceptions") or ()):
        for j, (t, v) in enumerate(e["tv"]):
            if v is not None:
                out.append(("exc", k, j))
    if desc.get("weekly"):
        for j, (t, v) in enumerate(desc["weekly"][0]):
            if v is not None:
                out.append(("weekly", j))
    return out


def p7_assign(desc, vtype, z, pol):
    two = two_valued(vtype)

    def val(path, v):
        if v is None:
            return None
        if two:
            return pol if path == z else 1 - pol
        return 0 if path == z else v

    out = dict(desc, vtype=vtype, default=val(("default",), desc["default"]))
    if desc.get("exceptions") is not None:
        out["exceptions"] = tuple(dict(e, tv=tuple((t, val(("exc", k, j), v)) for j, (t, v) in enumerate(e["tv"])))
                                  for k, e in enumerate(desc["exceptions"]))
    if desc.get("weekly") is not None:
        out["weekly"] = tuple(tuple((t, val(("weekly", j), v)) for j, (t, v) in enumerate(day)) for day in desc["weekly"])
    return out


def p7_hundredths_bodies(day0):
    """Integer bodies whose entry times carry hundredths of a second."""
    d1, d2 = day0 + datetime.timedelta(days=1), day0 + datetime.timedelta(days=2)

    def weekly(*tvs):
        return tuple(tuple((t, None if v is None else 10 * (i + 1) + v) for (t, v) in tvs) for i in range(7))

    return [
        ("weekly:08:00:00.50", {"weekly": weekly(((8, 0, 0, 50), 1), ((17, 0, 0, 0), None)), "exceptions": None, "default": 0}),
        ("weekly:00:00:00.01+23:59:59.99", {"weekly": weekly(((0, 0, 0, 1), 1), ((23, 59, 59, 99), 2)), "exceptions": None, "default": 0}),
        ("weekly:binary-fractions", {"weekly": weekly(((12, 30, 15, 25), 1), ((12, 30, 15, 75), None)), "exceptions": (), "default": 0}),
        ("weekly:08:00:00.07", {"weekly": weekly(((8, 0, 0, 7), 1)), "exceptions": None, "default": 0}),
        ("exception:08:00:00.50-then-Null-at-23:59:59.99",
         {"weekly": weekly(((8, 0, 0, 0), 1)),
          "exceptions": ({"period": ("date", dpat(d1)), "tv": (((8, 0, 0, 50), 101), ((23, 59, 59, 99), None)), "prio": 3},), "default": 0}),
        ("exception:adjacent-hundredths",
         {"weekly": None,
          "exceptions": ({"period": ("wnd", (ANY, ANY, ANY)), "tv": (((8, 0, 0, 50), 101), ((8, 0, 0, 51), 102)), "prio": 16},), "default": 0}),
        ("exception:23:59:59.99-over-two-days",
         {"weekly": weekly(((0, 0, 0, 0), 1)),
          "exceptions": ({"period": ("range", (dpat(d1), dpat(d2))), "tv": (((23, 59, 59, 99), 201),), "prio": 1},), "default": 0}),
        ("two-exceptions:16:59:59.99-relinquish",
         {"weekly": weekly(((8, 0, 0, 0), 1)),
          "exceptions": ({"period": ("date", dpat(d1)), "tv": (((0, 0, 0, 0), 101), ((16, 59, 59, 99), None)), "prio": 2},
                         {"period": ("cal", (("date", dpat(d1, False)),)), "tv": (((8, 0, 0, 50), 201),), "prio": 7}), "default": 0}),
    ]


def p7_periods(day0):
    d1, d2 = day0 + datetime.timedelta(days=1), day0 + datetime.timedelta(days=2)
    return [("open-both", (OPEN, OPEN)), ("enters-on-day-1", (dpat(d1), dpat(d2))), ("day-1-only", (dpat(d1, False), dpat(d1, False)))]


def p7_configs(tier):
    """(kind, name, description, day0, start instant)."""
    for ai, day0 in enumerate(P7_ANCHORS):
        dl = (day0.year, day0.month, day0.day)
        for bi, body in enumerate(p7_domain_bodies(day0)):
            for vtype in VTYPES:
                slots = p7_slots(body)
                todo = [(z, pol) for z in slots for pol in (0, 1)] if two_valued(vtype) else [(None, 0)] + [(z, 0) for z in slots]
                for (z, pol) in todo:
                    desc = p7_assign(body, vtype, z, pol)
                    desc["period"] = (OPEN, OPEN) if (bi + ai) % 2 == 0 else WIDE
                    yield ("domain", "%s:body%d:zero-at=%s" % (vtype, bi, "none" if z is None else z[0]), desc, dl, (0, 0, 0, 0))
        for (hname, body) in p7_hundredths_bodies(day0):
            for (pname, period) in p7_periods(day0):
                for st in ((0, 0, 0, 0), (13, 27, 41, 50)):
                    desc = dict(body)
                    desc["period"] = period
                    yield ("hundredths", "%s:%s" % (hname, pname), desc, dl, st)


def whole_seconds(desc):
    """The description with every entry time moved to a whole second, order kept: hundredths cut off, a time that would
    then collide with the one before it moved on by a second (root-cause naming only)."""
    moved = {}
    last = -1
    for t in ref.all_times(desc):
        sec = max((t[0] * 60 + t[1]) * 60 + t[2], last + 1) if t[3] or ((t[0] * 60 + t[1]) * 60 + t[2]) <= last else (t[0] * 60 + t[1]) * 60 + t[2]
        last = sec
        moved[t] = (sec // 3600, sec // 60 % 60, sec % 60, 0)

    def cut(tvs):
        return tuple((moved[tuple(t)], v) for (t, v) in tvs)
    out = dict(desc)
    if desc.get("exceptions") is not None:
        out["exceptions"] = tuple(dict(e, tv=cut(e["tv"])) for e in desc["exceptions"])
    if desc.get("weekly") is not None:
        out["weekly"] = tuple(cut(day) for day in desc["weekly"])
    return out


def p7_run(desc, day0, st):
    """p3_run + root-cause naming: a run that fails with entry times carrying hundredths and does not fail with the same times
    cut to whole seconds is named after the hundredths; a run in a value domain after the datatype."""
    obs, verdict, swallowed = p3_run(desc, day0, st, days=P7_DAYS)
    if verdict is not None:
        sig, detail = verdict
        what = sig.split(":")[1]
        if hundredths_times(desc):
            if p3_run(whole_seconds(tup(desc)), day0, st, days=P7_DAYS)[1] is None:
                detail = dict(detail, judged_alone=sig, with_whole_second_times="runs as the reference prescribes")
                sig = "timer:entry-time-with-hundredths:%s" % what
        elif desc.get("vtype") is not None:
            at = detail.get("at")
            zero = at is not None and detail.get("expected") == 0
            detail = dict(detail, judged_alone=sig)
            sig = "timer:value-domain:%s:%s:want=%s[%s]" % (desc["vtype"], what, detail.get("source_expected", "-"),
                                                           "zero-of-the-type" if zero else "other-value")
        verdict = (sig, detail)
    return obs, verdict, swallowed


def p7_shard(item, deadline):
    acc = Acc()
    for n, (kind, name, desc, day0, st) in enumerate(item):
        if time.time() > deadline:
            acc.cap("part7: deadline")
            break
        d0 = datetime.date(*day0)
        obs, verdict, swallowed = p7_run(desc, d0, st)
        if n == 0:
            obs2, verdict2, _ = p7_run(desc, d0, st)
            if obs2 != obs or (verdict is None) != (verdict2 is None):
                raise HarnessError("C20 part7: the same configuration ran twice with different observations")
        acc.case(("p7", repr(desc), day0, st))
        acc.traces += 1
        acc.transitions += len(obs)
        acc.add_info("part7 runs (%s)" % kind, 1)
        acc.add_info("part7 probes", len(obs))
        acc.add_info("part7 probes compared (schedule active)", sum(1 for o in obs if o[4]))
        if kind == "domain":
            acc.add_info("part7 probes at which the prescribed value is the type's zero", sum(1 for o in obs if o[4] and o[5] == 0))
        for m in swallowed:
            acc.swallowed[m] += 1
        acc.outcome("p7:%s:%s" % (kind if kind == "hundredths" else "domain:" + desc["vtype"],
                                  "ok" if verdict is None else ":".join(verdict[0].split(":")[1:3])))
        if verdict is not None:
            sig, detail = verdict
            if acc.info.get("part7 failing runs repeated", 0) < 3:
                acc.add_info("part7 failing runs repeated", 1)
                obs3, verdict3, _ = p7_run(desc, d0, st)
                if obs3 != obs or verdict3 is None or verdict3[0] != sig:
                    raise HarnessError("C20 part7: a failing configuration did not fail the same way when repeated")
            detail = dict(detail)
            detail.update({"schedule": desc, "day0": str(d0), "start": st, "configuration": name})
            acc.fail(sig, detail, {"part": 7, "desc": desc, "day0": day0, "start": st})
        elif n == 0:
            acc.sample({"part": 7, "configuration": name, "schedule": desc, "day0": str(d0), "start": st,
                        "first_probes": [o for o in obs if o[4]][:8]})
    return acc


# ----------------------------------------------------------------------------- part 8: equal priorities in force on one day
#
# The standard (up to the revisions that let the lowest array index prevail) and the statement do not say which of two
# exceptions of equal priority prevails.  Judged is therefore only MEMBERSHIP: the value must be one the reference gives
# when the tie is resolved in some order of precedence (bv.refs.schedref.admissible_values).  An exception that has no
# element in effect yet (all its entries in the future, or an empty list) hides nobody in any order.

# list shapes of the triples (indices into SHAPES): empty; value all day; value from 08:00; value from 17:00; value all day
# relinquished at 17:00 (ends with Null); Null then value from 08:00
P8_TRIPLE_SHAPES_Q = (0, 1, 3, 5, 12, 9)
P8_TRIPLE_SHAPES_T = (0, 1, 2, 3, 4, 5, 7, 9, 11, 12, 15, 16)
P8_WEEKLY_PAIRS = (None, 1, 3)              # absent; value all day; value from 08:00
P8_WEEKLY_TRIPLES = (None, 1)
P8_JUDGE_NEXT = False                       # see ASSUMPTIONS: with equal priorities the reported next transition is counted, not judged
assert [SHAPES[i] for i in P8_TRIPLE_SHAPES_Q] == [
    (), (((0, 0, 0, 0), False),), (((8, 0, 0, 0), False),), (((17, 0, 0, 0), False),),
    (((0, 0, 0, 0), False), ((17, 0, 0, 0), True)), (((0, 0, 0, 0), True), ((8, 0, 0, 0), False))]


def p8_extras(prio):
    """Another exception in force beside the tied ones: none, one of lower priority (value all day), one of higher priority
    (value from 08:00, relinquished at 17:00)."""
    out = [None]
    if prio < 16:
        out.append(("lower", prio + 1 if prio > 1 else 7, ((0, 0, 0, 0), False),))
    if prio > 1:
        out.append(("higher", prio - 1, ((8, 0, 0, 0), False), ((17, 0, 0, 0), True)))
    return out


def p8_configs(tier):
    """(tied shape indices in array order, priority of the tie, extra exception, weekly shape index)."""
    for pair in itertools.product(range(N2), repeat=2):
        for prio in PRIOS:
            for extra in p8_extras(prio):
                for wk in P8_WEEKLY_PAIRS:
                    yield (pair, prio, extra, wk)
    ts = P8_TRIPLE_SHAPES_Q if tier == "quick" else P8_TRIPLE_SHAPES_T
    for triple in itertools.product(ts, repeat=3):
        for prio in PRIOS:
            for extra in p8_extras(prio)[:2]:
                for wk in P8_WEEKLY_TRIPLES:
                    yield (triple, prio, extra, wk)


def p8_desc(cfg, d, rot):
    tied, prio, extra, wk = cfg
    exceptions = []
    for k, si in enumerate(tied):
        exceptions.append({"period": periods_for(d, True, rot + 3 * k), "tv": fill(SHAPES[si], 100 * (k + 1)), "prio": prio})
    if extra is not None:
        e = {"period": periods_for(d, True, rot + 3 * len(tied)), "tv": fill(extra[2:], 500), "prio": extra[1]}
        exceptions.insert((rot >> 4) % (len(tied) + 1), e)          # its place in the array rotates
    weekly = None
    if wk is not None:
        weekly = tuple(fill(SHAPES[wk], 10) if i == d.weekday() else (((0, 0, 0, 0), 900 + i),) for i in range(7))
    win = (WIDE, (dpat(d), dpat(d)), (dpat(d - datetime.timedelta(days=1), dow=False), dpat(d + datetime.timedelta(days=1), dow=False)))
    return {"period": win[rot % 3], "weekly": weekly, "exceptions": tuple(exceptions), "default": 0}


def p8_where(desc, value):
    """Names the place a (schedule-wide unique) value stands in: tied exception by array position among the tied ones."""
    if value == desc["default"]:
        return "default"
    if not isinstance(value, int):
        return "unknown-value"
    if 10 < value < 100:
        return "weekly"
    if 500 < value < 600:
        return "exception-of-another-priority"
    if 100 < value < 500:
        return "tied-exception-%d" % (value // 100)
    return "unknown-value"


def judge_tied(desc, d, t, so):
    """eval() on a configuration with equal priorities in force: (outcome label, failure or None)."""
    try:
        res = so._task.eval(dtuple(d), tuple(t))
    except Exception as err:
        return "raises", ("eval:equal-priorities:raises:%s" % type(err).__name__, {"error": "%s: %s" % (type(err).__name__, err)})
    act, strict, level = ref.admissible_values(desc, d, t)
    if not act:
        raise HarnessError("C20 part8: a configuration that is not active on its date: %r" % (desc,))
    try:
        value, nt = res
    except Exception:
        return "odd", ("eval:equal-priorities:result-not-a-pair", {"result": repr(res)})
    if value is None:
        return "no-value", ("eval:equal-priorities:active-day-evaluated-as-inactive", {"result": (None, nt)})
    got = plain_of(None, value)
    adm = strict | level
    names = sorted(p8_where(desc, v) for v in adm)
    if got not in adm:
        return "value-outside", ("eval:equal-priorities:value-outside-every-resolution-of-the-tie",
                                 {"got": got, "got_from": p8_where(desc, got), "admissible": sorted(adm), "admissible_from": names,
                                  "per_exception_reading": sorted(strict), "per_level_reading": sorted(level), "next": nt})
    if nt is None or len(tuple(nt)) != 4 or ANY in tuple(nt):
        return "next-odd", ("eval:equal-priorities:next-transition:not-a-specific-time", {"next": repr(nt)})
    stop = next_instant(d, nt)
    if stop <= (d, tuple(t)):
        return "next-not-later", ("eval:equal-priorities:next-transition:not-after-evaluated-instant", {"value": got, "next": nt})
    # not judged (see ASSUMPTIONS): does the value shown stay admissible up to the reported next transition?
    stale = ""
    for x in ref.instants_between(desc, (d, tuple(t)), stop)[1:]:
        a, s2, l2 = ref.admissible_values(desc, x[0], x[1])
        if got not in (s2 | l2):
            if P8_JUDGE_NEXT:
                return "next-late", ("eval:equal-priorities:next-transition:late:value-leaves-every-resolution-of-the-tie",
                                     {"value": got, "next": nt, "leaves_at": (str(x[0]), x[1]), "admissible_then": sorted(s2 | l2)})
            stale = "|not-judged:value-leaves-the-admissible-set-before-the-reported-transition"
            break
    reading = "per-exception" if got in strict else "per-level-only(a-Null-entry-of-one-relinquishes-the-level)"
    return "admissible=%d:shown=%s:%s%s" % (len(adm), p8_where(desc, got), reading, stale), None


def p8_shard(item, deadline):
    seed, tier, idxs = item
    acc = Acc()
    cfgs = list(p8_configs(tier))
    for ci in idxs:
        if time.time() > deadline:
            acc.cap("part8: deadline")
            break
        cfg = cfgs[ci]
        rot = ((((ci + 1) * 2654435761) & 0xFFFFFFFF) >> 9) + seed
        d = P2A_DATES[rot % len(P2A_DATES)]
        desc = p8_desc(cfg, d, rot)
        app, so, cals = build(desc)
        try:
            for t in INSTANTS:
                lab, bad = judge_tied(desc, d, t, so)
                acc.outcome("p8:%s" % lab)
                if "per-level-only" in lab:
                    acc.add_info("part8 evaluations whose value is admissible only in the per-level reading (a Null entry of one "
                                 "tied exception relinquishes the level)", 1)
                if "not-judged" in lab:
                    acc.add_info("part8 evaluations not judged for the next transition: the value shown leaves the admissible set "
                                 "before the reported transition", 1)
                if bad is not None:
                    sig, detail = bad
                    detail = dict(detail)
                    detail.update({"schedule": desc, "date": str(d), "weekday": d.isoweekday(), "time": t})
                    acc.fail(sig, detail, {"part": 8, "desc": desc, "date": (d.year, d.month, d.day), "time": t})
        finally:
            unbuild(app, so, cals)
        acc.evaluations += len(INSTANTS)
        acc.keys.add(h64(("p8", cfg)))
        acc.add_info("part8 schedules (%d exceptions of equal priority in force)" % len(cfg[0]), 1)
        acc.add_info("part8 (schedule,date,instant) evaluations", len(INSTANTS))
        if ci == 40:
            acc.sample({"part": 8, "schedule": desc, "date": str(d),
                        "admissible": [(t, sorted(ref.admissible_values(desc, d, t)[1] | ref.admissible_values(desc, d, t)[2]))
                                       for t in INSTANTS]})
    return acc


# ----------------------------------------------------------------------------- entry points

def _dl(dates):
    return [(d.year, d.month, d.day) for d in dates]


def run(tier, seed, deadline):
    acc = Acc()
    vclock.install()
    vclock.reset(0.0)
    t_start = time.time()
    span = deadline - t_start
    quick = tier == "quick"

    # ---- part 8 first (short, fixed cost): equal priorities in force on one day, membership in the set of tie resolutions
    t8 = time.time()
    n8 = len(list(p8_configs(tier)))
    run_shards(p8_shard, [(seed, tier, c) for c in chunks(list(range(n8)), 64)], t_start + 0.12 * span, into=acc)
    acc.info["part8 configurations"] = n8
    acc.info["part8 wall_s"] = round(time.time() - t8, 1)

    # ---- part 3: few, and the liveness part of the statement
    cfgs = list(p3_configs(tier))
    run_shards(p3_shard, chunks(cfgs, 64), t_start + 0.15 * span, into=acc)
    acc.info["part3 configurations"] = len(cfgs)
    acc.info["part3 wall_s"] = round(time.time() - t_start, 1)

    # ---- part 7: timer-driven runs in every value domain (the type's zero in every slot) and with hundredths in entry times
    t7 = time.time()
    cfgs = list(p7_configs(tier))
    run_shards(p7_shard, chunks(cfgs, 64), t_start + 0.20 * span, into=acc)
    acc.info["part7 configurations"] = len(cfgs)
    acc.info["part7 wall_s"] = round(time.time() - t7, 1)

    # ---- part 4: the same kind of run in local time zones with daylight saving, across both clock changes
    t4 = time.time()
    zone_found = (os.environ.get("TZ"), time.tzname, time.localtime(0).tm_gmtoff)
    cfgs = list(p4_configs(tier))
    run_shards(p4_shard, chunks(cfgs, 64), t_start + 0.38 * span, into=acc)
    acc.info["part4 configurations"] = len(cfgs)
    acc.info["part4 zones"] = list(Z_ZONES[tier])
    acc.info["part4 wall_s"] = round(time.time() - t4, 1)
    if (os.environ.get("TZ"), time.tzname, time.localtime(0).tm_gmtoff) != zone_found:
        raise HarnessError("C20: the time zone of the process was not restored after part 4")

    # ---- part 5: histories (evaluate, reconfigure, evaluate again), pure and timer-driven; same in both tiers
    t5 = time.time()
    cases = list(p5_eval_cases()) + list(p5_timer_cases())
    run_shards(p5_shard, chunks(cases, 64), t_start + 0.46 * span, into=acc)
    acc.info["part5 histories"] = len(cases)
    acc.info["part5 wall_s"] = round(time.time() - t5, 1)

    # ---- part 6: pure evaluation in every value domain, the type's zero in every slot, entry times with hundredths
    t6 = time.time()
    todo = [(ci, vt) for ci in range(len(p6_shape_configs(tier))) for vt in VTYPES]
    run_shards(p6e_shard, [(seed, tier, c) for c in chunks(todo, 64)], t_start + 0.52 * span, into=acc)
    acc.info["part6 (shape configuration, datatype) pairs"] = len(todo)
    acc.info["part6 wall_s"] = round(time.time() - t6, 1)

    # ---- part 1
    t1 = time.time()
    years = Q_YEARS if quick else range(1900, 2155)
    months = [(y, m) for y in years for m in range(1, 13)]
    if quick:
        shards = chunks(months, len(months))
    else:
        shards = [months[i:i + 6] for i in range(0, len(months), 6)]
    run_shards(p1_shard, shards, t_start + 0.60 * span, into=acc)
    acc.info["part1 wall_s"] = round(time.time() - t1, 1)
    # ---- part 2 with the remaining budget
    t2 = time.time()
    wk3 = [None] + list(range(N3))
    dl2 = deadline - 2.0
    items = [(seed, 0, [()], wk3, N3)]
    items += [(seed, 1, c, wk3, N3) for c in chunks([(a,) for a in exc_alternatives(N3)], 16)]
    run_shards(p2a_shard, items, dl2, into=acc)
    # 2b/2c/2d: pattern classes, weekdays, effective period
    b_dates = {}
    for d0 in (datetime.date(2024, 2, 1), datetime.date(2023, 2, 1)) + (() if quick else (datetime.date(2100, 12, 1), datetime.date(2024, 7, 1))):
        first = d0 - datetime.timedelta(days=3)
        b_dates[d0] = _dl([first + datetime.timedelta(days=i) for i in range(38)])
    b_items = [(p, dts) for d0, dts in b_dates.items() for p in p2b_periods(d0)]
    run_shards(p2b_shard, chunks(b_items, 64), dl2, into=acc)
    cd_items = [("p2c", desc, _dl(dates)) for (desc, dates) in p2c_cases()]
    cd_items += [("p2d", desc, _dl(dates)) for (desc, dates) in p2d_cases(tier)]
    run_shards(p2cd_shard, chunks(cd_items, 64), dl2, into=acc)
    # two exceptions: one shard per first exception
    few_wk = [None, 0, 1, 4, 6, 7, 9, 12, 14, 18]
    if quick:
        run_shards(p2a_shard, [(seed, 2, [(a,)], few_wk, N2) for a in exc_alternatives(N2)], dl2, into=acc)
    else:
        run_shards(p2a_shard, [(seed, 2, [(a,)], wk3, N3) for a in exc_alternatives(N3)], dl2, into=acc)
        alts = exc_alternatives(N2)
        pre = [(a, b) for a in alts for b in alts if a[0] or b[0]]
        wk5 = [None, 0, 1, 9, 16]     # absent, [], [00:00 v], [00:00 Null, 08:00 v], [08:00 v, 17:00 Null]
        run_shards(p2a_shard, [(seed, 3, c, wk5, N2) for c in chunks(pre, 512)], dl2, into=acc)
    acc.info["part2 wall_s"] = round(time.time() - t2, 1)

    return acc


def replay(case):
    vclock.install()
    vclock.reset(0.0)
    part = case["part"]
    if part == 1:
        ok, got, exp = p1_one(case["fn"], case["date"], case["pattern"])
        return ok, "%s date=%r pattern=%r -> bacpypes %r, reference %r" % (case["fn"], case["date"], case["pattern"], got, exp)
    if part == 2:
        desc = tup(case["desc"])
        d = datetime.date(*case["date"])
        t = tuple(case["time"])
        app, so, cals = build(desc)
        try:
            lab, bad = judge_eval(desc, d, t, so, case.get("tag"))
            try:
                res = so._task.eval(dtuple(d), t)
                res = None if res is None else (getattr(res[0], "value", res[0]), res[1])
            except Exception as err:
                res = "raises %r" % (err,)
        finally:
            unbuild(app, so, cals)
        return bad is None, "eval(%s, %r) -> %r; reference %r; %s\nschedule=%r" % (d, t, res, ref.present_value(desc, d, t), bad or lab, desc)
    if part == 8:
        desc = tup(case["desc"])
        d = datetime.date(*case["date"])
        t = tuple(case["time"])
        app, so, cals = build(desc)
        try:
            lab, bad = judge_tied(desc, d, t, so)
            try:
                res = so._task.eval(dtuple(d), t)
                res = None if res is None else (getattr(res[0], "value", res[0]), res[1])
            except Exception as err:
                res = "raises %r" % (err,)
        finally:
            unbuild(app, so, cals)
        return bad is None, "eval(%s, %r) -> %r; admissible (per exception, per level) %r; %s\nschedule=%r" % (
            d, t, res, ref.admissible_values(desc, d, t)[1:], bad or lab, desc)
    if part == 3:
        obs, verdict, swallowed = p3_run(case["desc"], datetime.date(*case["day0"]), tuple(case["start"]))
        lines = ["%s %s pv=%r armed=%r active=%r expected=%r" % o for o in obs if o[4]][:12]
        return verdict is None, "verdict=%r\nswallowed=%r\n%s" % (verdict, swallowed, "\n".join(lines))
    if part == 7:
        obs, verdict, swallowed = p7_run(tup(case["desc"]), datetime.date(*case["day0"]), tuple(case["start"]))
        lines = ["%s %s pv=%r armed=%r active=%r expected=%r" % o for o in obs if o[4]][-12:]
        return verdict is None, "verdict=%r\nswallowed=%r\n%s" % (verdict, swallowed, "\n".join(lines))
    if part == 4:
        obs, verdict, swallowed, notes = p4_run(case["tz"], case["year"], case["which"], case["desc"],
                                                (tuple(case["start"][0]), tuple(case["start"][1])))
        lines = ["%.2f local %s %s pv=%r armed=%r active=%r expected=%r" % o for o in obs if o[5]]
        if verdict is not None and "at" in verdict[1]:
            k = [i for i, o in enumerate(obs) if o[0] == verdict[1]["at"][0]]
            k = k[0] if k else 0
            lines = ["%.2f local %s %s pv=%r armed=%r active=%r expected=%r" % o for o in obs[max(0, k - 6):k + 6]]
        return verdict is None, "zone=%s\nverdict=%r\nswallowed=%r\n%s" % (case["tz"], verdict, swallowed, "\n".join(lines[:14]))
    if part == 5:
        mode, d, desc, change, x, y = p5_lookup(tuple(case["case"][:1]) + (tuple(case["case"][1]),) + tuple(case["case"][2:]))
        if mode == "e":
            pre = p5_prehistories(d)[x]
            k, flips, bad = p5_eval_history(desc, d, change, pre, d if y == 0 else d + datetime.timedelta(days=1))
            return bad is None, "date=%s change=%s operations=%r asked before=%r\nschedule=%r\n%r" % (d, change[0], change[1], pre, desc, bad)
        obs, verdict, swallowed, notes = p5_timer_history(desc, d, change, P5_CHANGE_TIMES[x])
        lines = ["%s %s pv=%r armed=%r active=%r expected=%r judged=%r" % o for o in obs if o[0] >= str(d)][:24]
        return verdict is None, "change=%s at %s %r operations=%r\nschedule=%r\nverdict=%r\n%s" % (
            change[0], d, P5_CHANGE_TIMES[x], change[1], desc, verdict, "\n".join(lines))
    return False, "unknown part"
