"""C18 Addresses parse, print, compare and hash coherently in every notation.

Part A (E3): complete enumeration of the notation domains of the statement (station numbers, net:station,
        net:*, *, *:*, dotted IPv4 x mask x port with and without network, hex / X'' / raw octet strings of
        length 1..7 with and without network, address/port tuples, the two-argument constructor, the typed
        constructors, pack_ip_addr/unpack_ip_addr) and of a refusal domain (numbers past the range edges, every
        string up to length 4 over the notation alphabet, every single-character edit of a set of valid
        spellings).  Each notation is read by the reference (bv/refs/addrref.py, stdlib ipaddress for the IP
        arithmetic): "denotes X" -> the library must accept it and yield exactly X, and the printed form must
        denote X again, re-parse, compare equal and hash equal; "must be refused" -> the library must raise;
        "not a listed notation" -> counted, no verdict.
        Spellings with an @route suffix / a route= argument are part of the domains: in the default (not route
        aware) configuration they denote the type / net / octets of the spelling without the route.
Part B (E3): a pool of spellings partitioned by the reference into classes (type, net, octets, route): every ordered
        pair through the real __eq__/__ne__/__hash__/dict, then symmetry and transitivity over all triples on
        the recorded matrix.  Spellings of one address with different routes (or with and without one) are in the
        pool too: the reference does not say whether they are equal, but whatever == answers must be symmetric,
        transitive and agree with hash and with dictionary lookup.
Part C (E3, histories): every sequence of notations of a representative pool (pairs in quick, triples in
        thorough; refused notations included as intermediate steps) decoded one after the other into ONE object
        through the public Address.decode_address(), starting from every kind of holder (null Address, typed
        constructors with and without route): afterwards the object must denote what the reference says the last
        notation denotes and print, compare (against every probe address), hash and look up exactly like a fresh
        Address(last notation).
"""
import itertools
import logging
import time

import bv  # noqa: F401
from bacpypes import pdu
from bacpypes.settings import settings
from bv.engine.acc import Acc
from bv.engine.pool import run_shards, HarnessError
from bv.refs import addrref as R

PROPERTY = "C18"
LEVEL = "exploration"
BUDGET = {"quick": 60.0, "thorough": 900.0}
RULE = ("part A: every notation of the stated domains is one case, distinct by its constructor and tagged arguments "
        "(no two cases are the same spelling); non-trivial = the reference gives a verdict (denotes / must be refused), "
        "spellings outside the statement's list are evaluated but carry no verdict and are not counted as distinct; "
        "part B: every ordered pair of the spelling pool is one evaluation (== both ways, !=, hash, dict lookup), "
        "distinct by pool row; symmetry and transitivity are then decided for all pairs / triples on the recorded matrix; "
        "part C: one case per (holder, sequence of notations) decoded into one object, distinct by holder and sequence")
ASSUMPTIONS = [
    "settings.route_aware is False (the default).  @route suffixes and route= arguments are enumerated under that configuration: the reference says "
    "that they denote the type / net / octets (and IP values) of the spelling without the route, that two spellings of one address with the same route are equal, "
    "and leaves open whether spellings of one address with different routes (or with and without one) are equal - == must be an equivalence and agree with hash whatever it answers; "
    "whether the object keeps the route (addrRoute) is not judged; a route= argument that is not a plain local station carries no verdict",
    "part C judges type / net / octets / length, the IP values when the last notation is an IP form, the printed text, ==, hash and dict lookup of the re-filled object; "
    "IP helper attributes left over from an earlier IP content when the last notation is not an IP form are not judged (the statement gives them no meaning there)",
    "notations the statement does not list carry no verdict: interface names, the Ethernet colon form, '*:station', leading-zero IP octets, "
    "surrounding white space, octet strings of length 0 or above 7, address words outside 32 bits, negative ports, non-int networks, the Null address",
    "a dotted address without mask is read as /32, without port as port 47808 (Annex J default)",
    "subnet / host / directed broadcast are only judged for the dotted text forms (tuples and raw octets carry no mask)",
    "values between the enumerated edges (quick: interior networks, interior ports, interior octet contents of length >= 3) are not covered",
]
BOUNDS = {
    "quick": "stations -1..256 (+7 far values) in every one-octet station form; nets {-1,0,1,2,65533..65536,99999} and 2^k-1,2^k,2^k+1 (k<=17) x 8 station "
             "edges (all 258 stations for nets 0,1,2) in 9 forms + 4 broadcast forms; every network number 0..65540 in 2 forms; "
             "12 IPv4 x masks {absent,0..32,33,64} x ports {absent,0,1,47807,47808,47809,47823,47824,65535,65536,70000} x net {absent,1,65534,65535} as text "
             "and through the two-argument constructor; 90 port edges (2^k-1,2^k,2^k+1 up to 2^17, 47800..47831, 70000, 2^32) in 9 port-carrying forms; tuples 12 IPv4 x 10 ports x (host,port)/(int,port); "
             "octet strings: length 1 all 256, length 2 all 144 edge pairs, length 3..7 4 prefixes x 10 tails, in 10 local and 18 remote forms; "
             "refusals: 107 hand-written texts, all strings of length <=3 over 13 symbols, all single-character deletions/insertions/replacements "
             "of 20 valid spellings over 17 symbols, 8 huge numbers in 21 numeric positions; routes: 35 address texts x 34 route texts, every route station 0..256 "
             "in 5 forms, 9 typed constructor calls x 13 route= arguments, 4 nets x 6 routed bodies through the two-argument constructor; "
             "spelling pool: 1432 route-less spellings / 108 addresses plus 11 of these addresses x 3 routes in every routed spelling (464 spellings), all ordered pairs of the 1896; "
             "histories: 11 holders x all sequences of length 1 and 2 over 50 notations (12 of them refused) decoded into one object, compared with 48 probe addresses",
    "thorough": "as quick plus every network number 0..65540 in 6 forms, every port 0..65536 in 9 forms, every 2-octet string in 5 forms, 49 IPv4 addresses "
                "(walking ones), all strings of length <=4 over 13 symbols, spelling pool 4966 route-less spellings / 401 addresses (all 256 local stations in every spelling) "
                "plus 19 addresses x 5 routes in every routed spelling (1173 spellings), all ordered pairs of the 6139; histories: 11 holders x all sequences of length 1, 2 and 3 over 50 notations",
}

KIND = {
    pdu.Address.localBroadcastAddr: R.LOCAL_BROADCAST,
    pdu.Address.localStationAddr: R.LOCAL_STATION,
    pdu.Address.remoteBroadcastAddr: R.REMOTE_BROADCAST,
    pdu.Address.remoteStationAddr: R.REMOTE_STATION,
    pdu.Address.globalBroadcastAddr: R.GLOBAL_BROADCAST,
    pdu.Address.nullAddr: "null",
}
CTORS = {
    "Address": pdu.Address,
    "LocalStation": pdu.LocalStation,
    "RemoteStation": pdu.RemoteStation,
    "LocalBroadcast": pdu.LocalBroadcast,
    "RemoteBroadcast": pdu.RemoteBroadcast,
    "GlobalBroadcast": pdu.GlobalBroadcast,
}
_MISSING = "<attribute missing>"

# ----------------------------------------------------------------------------- specs


def I(n):
    return ("i", n)


def S(s):
    return ("s", s)


def B(b):
    return ("b", bytes(b))


def BA(b):
    return ("ba", bytes(b))


def TS(host, port):
    return ("t", ("s", host), port)


def TI(word, port):
    return ("t", ("i", word), port)


def RT(ctor, inner):
    """route=ctor(inner) of a typed constructor"""
    return ("r", ctor, inner)


def norm(x):
    """lists (from JSON) back to tuples"""
    if isinstance(x, (list, tuple)):
        return tuple(norm(i) for i in x)
    return x


def to_arg(a):
    tag = a[0]
    if tag in ("i", "s"):
        return a[1]
    if tag == "b":
        return bytes(a[1])
    if tag == "ba":
        return bytearray(a[1])
    if tag == "t":
        return (a[1][1], a[2])
    raise HarnessError("unknown argument tag %r" % (a,))


def build(spec):
    args, kw = [], {}
    for a in spec[1:]:
        if a[0] == "r":
            kw["route"] = CTORS[a[1]](to_arg(a[2]))
        else:
            args.append(to_arg(a))
    return CTORS[spec[0]](*args, **kw)


def show_arg(a):
    if a[0] == "r":
        return "route=%s(%r)" % (a[1], to_arg(a[2]))
    return repr(to_arg(a))


def show(spec):
    return "%s(%s)" % (spec[0], ", ".join(show_arg(a) for a in spec[1:]))


class _Counting(logging.Handler):
    """the parser logs 'route provided but not route aware' for every @route spelling: counted, kept off stderr"""
    records = 0

    def emit(self, record):
        _Counting.records += 1


def quiet_route_warnings():
    lg = logging.getLogger("bacpypes.pdu")
    if not any(isinstance(h, _Counting) for h in lg.handlers):
        lg.addHandler(_Counting(level=logging.WARNING))
        lg.propagate = False


def observe(a):
    return (KIND.get(a.addrType, "type-%r" % (a.addrType,)), a.addrNet, a.addrAddr)


def form_group(spec):
    """coarse family of the spelling, for signatures"""
    ctor = spec[0]
    tags = [a[0] for a in spec[1:]]
    if ctor == "Address":
        if len(tags) == 2:
            return "two-argument-Address"
        return {"s": "text", "i": "int", "b": "octets", "ba": "octets", "t": "tuple"}.get(tags[0] if tags else "", "other")
    if ctor in ("pack_ip_addr", "unpack_ip_addr"):
        return ctor
    return ctor


def carrier_group(spec):
    """family of the argument that carries the station / port / mask (the last one)"""
    if spec[0] != "Address" or len(spec) < 2:
        return spec[0]
    return {"s": "text", "i": "int", "b": "octets", "ba": "octets", "t": "tuple"}.get(spec[-1][0], "other")


def obj_family(got):
    """family of an address object as it is held (kind, length class), for printer / equality signatures"""
    kind, net, octets = got
    if not isinstance(octets, (bytes, bytearray)):
        return str(kind)
    return "%s/%s" % (kind, {1: "1-octet", 6: "6-octets"}.get(len(octets), "n-octets"))


def refusal_category(spec, reason):
    if reason.startswith("range: network"):
        nets = [a[1] for a in spec[1:2] if a[0] == "i"]
        if nets and nets[0] < 0:
            return "net-negative"
        return "net-above-65534"
    if reason.startswith("range: station"):
        return "station-outside-0..255"
    if reason.startswith("range: port"):
        return "port-above-65535"
    if reason.startswith("range: mask"):
        return "mask-above-32"
    if reason.startswith("range: ip octet"):
        return "ip-octet-above-255"
    return "malformed"


def print_family(s):
    if "@" in s:
        left, _, right = s.partition("@")
        return print_family(left) + "@" + ("ip" if "." in right else "0x" if right.startswith("0x") else "dec" if right.isdigit() else "?")
    pre = ""
    body = s
    if s in ("*", "*:*"):
        return s
    head, sep, rest = s.partition(":")
    if sep and head.isdigit() and "." not in head:
        pre, body = "n:", rest
    if body == "*":
        return pre + "*"
    if body.startswith("0x"):
        return pre + "0x"
    if "." in body:
        return pre + ("ip:port" if ":" in body else "ip")
    if body.isdigit():
        return pre + "dec"
    return pre + "?"


# ----------------------------------------------------------------------------- part A: one notation

def eval_packers(spec):
    """pack_ip_addr / unpack_ip_addr against Annex J.1.2"""
    fails = []
    host, port = spec[1][1][1], spec[1][2]
    v = R.denote_tuple(("s", host), port)
    if v.status != "ok":
        return "packers:%s" % v.status, fails, v      # out-of-range tuples given to the helper: no verdict
    want = v.denotation.octets
    try:
        got = pdu.pack_ip_addr((host, port))
        back = pdu.unpack_ip_addr(got)
        back_ba = pdu.unpack_ip_addr(bytearray(want))
    except Exception as err:
        fails.append(("packers:raises-on-valid-tuple:%s" % type(err).__name__, {"tuple": (host, port), "error": repr(err)}))
        return "packers:raises", fails, v
    if got != want:
        fails.append(("packers:pack_ip_addr-wrong-octets", {"tuple": (host, port), "got": got, "reference": want}))
    if back != (host, port) or back_ba != (host, port):
        fails.append(("packers:unpack_ip_addr-not-inverse", {"tuple": (host, port), "got": [back, back_ba]}))
    return "packers:ok", fails, v


def field_faults(a, d, spec):
    """the object `a` against the denotation `d` of the notation `spec`: type, net, octets, length and - for the IP
    forms read by Address - the IP values.  -> [(label, detail)]"""
    out = []
    got = observe(a)
    base = {"notation": show(spec), "got": list(got) + [a.addrLen], "reference": [d.kind, d.net, d.octets]}
    if got[0] != d.kind:
        out.append(("denotes:wrong-type", base))
    if got[1] != d.net or type(got[1]) is not type(d.net):
        out.append(("denotes:wrong-net", base))
    if got[2] != d.octets or (d.octets is not None and type(got[2]) is not bytes):
        out.append(("denotes:wrong-octets", base))
    if a.addrLen != (None if d.octets is None else len(d.octets)):
        out.append(("denotes:wrong-length", base))
    if d.ip is not None and spec[0] == "Address":
        ip = d.ip
        want = [("addrIP", ip.word, "word"), ("addrPort", ip.port, "port"), ("addrTuple", (ip.dotted, ip.port), "tuple")]
        if ip.masklen is not None:
            want += [("addrMask", ip.mask, "mask"), ("addrSubnet", ip.subnet, "subnet"), ("addrHost", ip.host, "host"),
                     ("addrBroadcastTuple", (ip.broadcast, ip.port), "directed-broadcast")]
        for attr, ref_val, label in want:
            val = getattr(a, attr, _MISSING)
            if val != ref_val:
                out.append(("ip:wrong-%s" % label, {"notation": show(spec), "attribute": attr, "got": val, "ipaddress_says": ref_val}))
    return out


def print_faults(txt, d, got, spec):
    """the printed text read by the reference: a listed notation of the address the object holds, naming no route
    other than the one the notation gave.  -> [(label, detail)]"""
    vt = R.denote_text(txt) if isinstance(txt, str) else R.Verdict("refuse", reason="str() did not return text")
    if vt.status != "ok":
        return [("print:text-is-not-a-listed-notation", {"notation": show(spec), "printed": txt, "reference": repr(vt)})]
    if R.class_key(vt.denotation) != got:
        return [("print:text-denotes-another-address",
                 {"notation": show(spec), "printed": txt, "text_denotes": list(R.class_key(vt.denotation)), "object_holds": list(got)})]
    if vt.denotation.route not in (None, d.route):
        return [("print:text-names-a-route-the-notation-did-not-give",
                 {"notation": show(spec), "printed": txt, "text_route": vt.denotation.route, "notation_route": d.route})]
    return []


def eval_single(spec):
    """-> (outcome label, [(signature, detail)], reference verdict)"""
    if spec[0] == "pack_ip_addr":
        return eval_packers(spec)
    v = R.denote(spec)
    grp = form_group(spec)
    try:
        a = build(spec)
        exc = None
    except Exception as err:            # the library refuses by raising (ValueError, TypeError, OSError, struct.error ...)
        a, exc = None, err

    if v.status == "unlisted":
        return "unlisted:%s" % ("raises" if exc is not None else "accepted"), [], v

    if v.status == "refuse":
        cat = refusal_category(spec, v.reason)
        if not cat.startswith("net-"):
            grp = carrier_group(spec)
        if exc is not None:
            return "refused:%s:%s:%s" % (cat, grp, type(exc).__name__), [], v
        detail = {"notation": show(spec), "reference": "must be refused (%s)" % v.reason, "accepted_as": list(observe(a))}
        try:
            txt = str(a)
            detail["prints_as"] = txt
            try:
                b = pdu.Address(txt)
                detail["reparse"] = list(observe(b))
            except Exception as err:
                detail["reparse"] = "raises %r" % (err,)
        except Exception as err:
            detail["prints_as"] = "raises %r" % (err,)
        for name in ("addrPort", "addrTuple"):
            if hasattr(a, name):
                detail[name] = getattr(a, name)
        return "accepted-although-refusal-required:%s:%s" % (cat, grp), [("accepts:%s:%s" % (cat, grp), detail)], v

    # ---- the reference says what it denotes
    d = v.denotation
    fails = []
    if exc is not None:
        return ("rejected-valid:%s" % d.shape,
                [("rejects-valid:%s:%s" % (d.shape, type(exc).__name__), {"notation": show(spec), "error": repr(exc), "reference": repr(d)})], v)

    got = observe(a)
    for label, detail in field_faults(a, d, spec):
        fails.append(("%s:%s" % (label, carrier_group(spec) if label.startswith("ip:") else d.shape), detail))

    # ---- print, read the text with the reference, re-parse with the library.  The round trip is judged against
    # what the object itself holds (`got`), so that a parser fault reported above is not reported again here.
    fam = obj_family(got)
    try:
        txt = str(a)
    except Exception as err:
        fails.append(("print:raises:%s" % fam, {"notation": show(spec), "error": repr(err)}))
        return "ok-but-unprintable:%s" % d.shape, fails, v
    for label, detail in print_faults(txt, d, got, spec):
        fails.append(("%s:%s" % (label, fam), detail))
    try:
        b = pdu.Address(txt)
    except Exception as err:
        fails.append(("print:reparse-raises:%s" % fam, {"notation": show(spec), "printed": txt, "error": repr(err)}))
        return "ok:%s->%s:unparsable" % (d.shape, print_family(txt)), fails, v
    if observe(b) != got:
        fails.append(("print:reparse-denotes-another-address:%s" % fam,
                      {"notation": show(spec), "printed": txt, "reparsed": list(observe(b)), "object_holds": list(got)}))
        return "ok:%s->%s:reparsed-differs" % (d.shape, print_family(txt)), fails, v
    try:
        eq1, eq2, ne1 = (b == a), (a == b), (b != a)
    except Exception as err:
        fails.append(("eq:raises:%s" % fam, {"notation": show(spec), "printed": txt, "error": repr(err)}))
        return "ok:%s->%s:eq-raises" % (d.shape, print_family(txt)), fails, v
    if eq1 is not True or eq2 is not True or ne1 is not False:
        fails.append(("eq:reparsed-text-not-equal:%s" % fam,
                      {"notation": show(spec), "printed": txt, "reparsed": list(observe(b)), "original": list(got), "b==a,a==b,b!=a": [eq1, eq2, ne1]}))
    try:
        ha, hb = hash(a), hash(b)
    except Exception as err:
        fails.append(("hash:raises:%s" % fam, {"notation": show(spec), "printed": txt, "error": repr(err)}))
        return "ok:%s->%s:hash-raises" % (d.shape, print_family(txt)), fails, v
    if ha != hb:
        fails.append(("hash:differs-after-reparse:%s" % fam, {"notation": show(spec), "printed": txt}))
    return "ok:%s->%s" % (d.shape, print_family(txt)), fails, v


# ----------------------------------------------------------------------------- part A: domains

IPS_QUICK = ["0.0.0.0", "0.0.0.1", "1.2.3.4", "10.0.0.1", "10.255.255.255", "127.0.0.1", "128.0.0.0", "170.85.170.85",
             "172.16.254.1", "192.168.0.255", "255.255.255.254", "255.255.255.255"]
IPS_MORE = ["85.170.85.170", "100.64.0.0", "169.254.1.1", "192.0.2.128", "224.0.0.1"] + \
           [R.word_to_dotted(1 << k) for k in range(32)]
MASKS = [None] + list(range(0, 33)) + [33, 64]
PORTS = [None, 0, 1, 47807, 47808, 47809, 47823, 47824, 65535, 65536, 70000]
NETS = [0, 1, 2, 65533, 65534, 65535, 65536, 99999]
STATION_EDGES = [-1, 0, 1, 127, 128, 254, 255, 256]
BIG = [257, 1000, 65535, 65536, 2 ** 31, 2 ** 32, 2 ** 64]


def dom_stations(tier):
    """all integers -1..256 (and some far ones) in every one-octet station form"""
    for n in list(range(-1, 257)) + BIG:
        yield ("Address", I(n))
        yield ("Address", S(str(n)))
        yield ("LocalStation", I(n))
        if n >= 0:
            yield ("Address", S("0" + str(n)))
            yield ("Address", S("00" + str(n)))
        if 0 <= n <= 255:
            o = bytes([n])
            yield ("Address", S("0x%02x" % n))
            yield ("Address", S("0x%02X" % n))
            yield ("Address", S("X'%02X'" % n))
            yield ("Address", S("X'%02x'" % n))
            yield ("Address", B(o))
            yield ("Address", BA(o))
            yield ("LocalStation", B(o))
            yield ("LocalStation", BA(o))


def nets_of(tier):
    nets = set(NETS) | {-1}
    if tier == "quick":
        for k in range(0, 18):
            nets |= {2 ** k - 1, 2 ** k, 2 ** k + 1}
    return sorted(nets)


def dom_net_station(tier):
    for net in nets_of(tier):
        stations = range(-1, 257) if net in (0, 1, 2) else STATION_EDGES
        for st in stations:
            if net >= 0:
                yield ("Address", S("%d:%d" % (net, st)))
            yield ("Address", I(net), I(st))
            yield ("Address", I(net), S(str(st)))
            yield ("RemoteStation", I(net), I(st))
            if 0 <= st <= 255:
                o = bytes([st])
                if net >= 0:
                    yield ("Address", S("%d:0x%02x" % (net, st)))
                    yield ("Address", S("%d:X'%02X'" % (net, st)))
                yield ("Address", I(net), B(o))
                yield ("Address", I(net), S("0x%02x" % st))
                yield ("RemoteStation", I(net), B(o))
        if net >= 0:
            yield ("Address", S("%d:*" % net))
            yield ("Address", S("0%d:*" % net))
        yield ("Address", I(net), S("*"))
        yield ("RemoteBroadcast", I(net))
    yield ("Address", S("*"))
    yield ("Address", S("*:*"))
    yield ("LocalBroadcast",)
    yield ("GlobalBroadcast",)


def dom_all_nets(tier):
    """every network number 0..65540: two forms in quick, six in thorough"""
    for net in range(0, 65541):
        yield ("Address", S("%d:5" % net))
        yield ("Address", I(net), I(5))
        if tier == "thorough":
            yield ("Address", S("%d:*" % net))
            yield ("Address", I(net), S("*"))
            yield ("RemoteStation", I(net), I(5))
            yield ("RemoteBroadcast", I(net))


def ip_text(ip, mask, port):
    s = ip
    if mask is not None:
        s += "/%d" % mask
    if port is not None:
        s += ":%d" % port
    return s


def dom_ip_text(tier):
    ips = IPS_QUICK + (IPS_MORE if tier == "thorough" else [])
    for ip in ips:
        for mask in MASKS:
            for port in PORTS:
                body = ip_text(ip, mask, port)
                yield ("Address", S(body))
                for net in (1, 65534, 65535):
                    yield ("Address", S("%d:%s" % (net, body)))
                yield ("Address", I(1), S(body))
                yield ("Address", I(65534), S(body))
                if mask in (None, 24) or port in (None, 47808):
                    yield ("Address", I(65535), S(body))
    # octets of the dotted quad past the edge, and the leading-zero spelling (no verdict)
    for ip in ("256.2.3.4", "1.256.3.4", "1.2.256.4", "1.2.3.256", "1.2.3.999", "300.300.300.300", "01.2.3.4", "1.2.3.04"):
        for mask in (None, 0, 24, 32):
            for port in (None, 47808, 47809):
                body = ip_text(ip, mask, port)
                yield ("Address", S(body))
                yield ("Address", S("7:" + body))


def port_values(tier):
    if tier == "thorough":
        return list(range(0, 65537)) + [65537, 70000, 131071, 131072, 2 ** 32]
    vals = set([70000, 131072, 2 ** 32])
    for k in range(0, 18):
        vals |= {2 ** k - 1, 2 ** k, 2 ** k + 1}
    vals |= set(range(47800, 47832))
    vals |= {0xC0BA, 0xBA00, 0xBAFF, 0x00BA, 0xC000}
    return sorted(vals)


def dom_ports(tier):
    """one address, every port (edge ports in quick), in every form that carries a port"""
    ip, word = "1.2.3.4", 0x01020304
    for p in port_values(tier):
        yield ("Address", S("%s:%d" % (ip, p)))
        yield ("Address", S("7:%s/24:%d" % (ip, p)))
        yield ("Address", TS(ip, p))
        yield ("Address", TI(word, p))
        yield ("pack_ip_addr", TS(ip, p))
        if p <= 65535:
            o = bytes([1, 2, 3, 4, p >> 8, p & 255])
            yield ("Address", B(o))
            yield ("Address", S("0x" + o.hex()))
            yield ("LocalStation", B(o))
            yield ("RemoteStation", I(7), B(o))


def dom_tuples(tier):
    ips = IPS_QUICK + (IPS_MORE if tier == "thorough" else [])
    for ip in ips:
        word = int.from_bytes(bytes(int(q) for q in ip.split(".")), "big")
        for port in PORTS:
            if port is None:
                continue
            yield ("Address", TS(ip, port))
            yield ("Address", TI(word, port))
            yield ("Address", I(1), TS(ip, port))
            yield ("Address", I(65535), TS(ip, port))
            yield ("pack_ip_addr", TS(ip, port))
    for ip in ("256.2.3.4", "1.2.3.256"):
        yield ("Address", TS(ip, 47808))


TAILS = ["0000", "0001", "00ba", "babf", "bac0", "bac1", "bacf", "bad0", "c0ba", "ffff"]
PREFIXES = ["0000000000", "ffffffffff", "0102030405", "0a000001c0"]
EDGE_OCTETS = [0x00, 0x01, 0x7F, 0x80, 0xBA, 0xBB, 0xBF, 0xC0, 0xC1, 0xCF, 0xFE, 0xFF]


def octet_contents(tier):
    for n in range(256):
        yield bytes([n])
    if tier == "thorough":
        for n in range(65536):
            yield bytes([n >> 8, n & 255])
    else:
        for a in EDGE_OCTETS:
            for b in EDGE_OCTETS:
                yield bytes([a, b])
    for length in range(3, 8):
        for pre in PREFIXES:
            for tail in TAILS:
                yield bytes.fromhex(pre)[:length - 2] + bytes.fromhex(tail)


def dom_octets(tier):
    for o in octet_contents(tier):
        lo, up = o.hex(), o.hex().upper()
        full = len(o) != 2 or tier == "quick" or (o[0] in EDGE_OCTETS and o[1] in EDGE_OCTETS)
        yield ("Address", B(o))
        yield ("Address", S("0x" + lo))
        yield ("LocalStation", B(o))
        yield ("RemoteStation", I(65534), B(o))
        yield ("Address", S("65534:0x" + lo))
        if not full:
            continue
        yield ("Address", BA(o))
        yield ("Address", S("0x" + up))
        yield ("Address", S("X'" + up + "'"))
        yield ("Address", S("X'" + lo + "'"))
        yield ("LocalStation", BA(o))
        for net in (1, 65535):
            yield ("Address", S("%d:0x%s" % (net, lo)))
            yield ("Address", S("%d:X'%s'" % (net, up)))
            yield ("Address", I(net), B(o))
            yield ("Address", I(net), BA(o))
            yield ("Address", I(net), S("0x" + lo))
            yield ("Address", I(net), S("X'" + up + "'"))
            yield ("RemoteStation", I(net), B(o))
            yield ("RemoteStation", I(net), BA(o))


REFUSALS = [
    "", " ", "-1", "-0", "+5", "5.", ".5", "5.5", "1.2.3", "1.2.3.", "1.2.3.4.5", "1..3.4", "1.2.3.4/", "1.2.3.4:", "1.2.3.4/24/8",
    "1.2.3.4/-1", "1.2.3.4:-1", "1.2.3.4/a", "1.2.3.4:a", "1.2.3.4:1:2", "1.2.3.4/24:", "1.2.3.4:47808/24", ":", "::", ":5", "5:", "5::5",
    "5:5:5", "1:2:3", "*:", ":*", "**", "*:*:*", "5:*:*", "5:**", "*5", "5*", "0x", "0x1", "0x123", "0xg1", "0x0g", "X''", "X'1'", "X'123'",
    "X'01", "X01'", "'01'", "X'0g'", "5:0x", "5:0x1", "5:X''", "5:X'1'", "0x01:5", "X'01':5", "0x01:*", "1:2:0x01", "5 ", "5 :5", "5: 5",
    "1 .2.3.4", "1,2,3,4", "1.2.3.4;47808", "5/24", "5:5/24", "0x01/8", "*/8", "1.2.3.4/33", "1.2.3.4/99", "1.2.3.4/4294967296",
    "256", "999", "65535:1", "65535:*", "65536:*", "4294967296:5", "1:256", "1:999", "1.2.3.4:65536", "1.2.3.4:99999", "1.2.3.4:4294967344",
    "256.1.1.1", "1.1.1.256", "#", "?", "five", "0x01 02", "01 02", "1e2", "5_0", "0b101", "0o17", "5L", "(5)", "[5]", "5,6", "5;6",
    "1.2.3.4:47808:", "7:1.2.3.4:", "7:1.2.3.4/", "7:/24", "7:.", "7:-1", "7:+1", "-7:1", "+7:1", "7.0:1",
]
SHORT_ALPHABET = "05:*./xX'-a 9"
EDIT_SEEDS = ["5", "255", "1:5", "65534:*", "*", "*:*", "1.2.3.4", "1.2.3.4/24", "1.2.3.4:47808", "1.2.3.4/24:47809", "7:1.2.3.4/8:47808",
              "0x05", "0x01ab", "X'05'", "X'01AB'", "7:0x05", "7:X'05AB'", "65534:255", "255.255.255.255/32:65535", "7:*"]
EDIT_ALPHABET = "0159:*./xX'-afg \n"


def dom_refusals(tier):
    seen = set()

    def once(s):
        if s not in seen:
            seen.add(s)
            return True
        return False

    for s in REFUSALS:
        if once(s):
            yield ("Address", S(s))
            yield ("Address", I(7), S(s))
    maxlen = 4 if tier == "thorough" else 3
    for n in range(1, maxlen + 1):
        for tup in itertools.product(SHORT_ALPHABET, repeat=n):
            s = "".join(tup)
            if once(s):
                yield ("Address", S(s))
    for seed in EDIT_SEEDS:
        for i in range(len(seed) + 1):
            if i < len(seed):
                s = seed[:i] + seed[i + 1:]
                if once(s):
                    yield ("Address", S(s))
            for c in EDIT_ALPHABET:
                s = seed[:i] + c + seed[i:]
                if once(s):
                    yield ("Address", S(s))
                if i < len(seed):
                    s = seed[:i] + c + seed[i + 1:]
                    if once(s):
                        yield ("Address", S(s))
    # numbers far out of range in every numeric position
    for big in (65535, 65536, 99999, 2 ** 31, 2 ** 32, 2 ** 32 + 5, 2 ** 64, 10 ** 30):
        yield ("Address", S("%d:5" % big))
        yield ("Address", S("%d:*" % big))
        yield ("Address", S("%d:0x05" % big))
        yield ("Address", S("%d:X'05'" % big))
        yield ("Address", S("%d:1.2.3.4" % big))
        yield ("Address", S("1:%d" % big))
        yield ("Address", S("%d" % big))
        yield ("Address", S("1.2.3.4:%d" % big))
        yield ("Address", S("1.2.3.4/%d" % big))
        yield ("Address", S("7:1.2.3.4/24:%d" % big))
        yield ("Address", I(big), I(5))
        yield ("Address", I(big), S("*"))
        yield ("Address", I(big), S("1.2.3.4"))
        yield ("Address", I(big), B(b"\x01\x02"))
        yield ("Address", I(1), I(big))
        yield ("Address", TS("1.2.3.4", big))
        yield ("Address", TI(0x01020304, big))
        yield ("RemoteStation", I(big), I(5))
        yield ("RemoteStation", I(1), I(big))
        yield ("RemoteBroadcast", I(big))
        yield ("LocalStation", I(big))


ROUTE_LEFTS = [
    "5", "0", "255", "05", "0x05", "0x0102", "0x01020304050607", "0x01020304bac0", "1.2.3.4", "1.2.3.4:47809", "1.2.3.4/24", "10.1.2.3/8:47999",
    "255.255.255.255/0:65535", "*", "*:*", "5:*", "0:*", "65534:*", "1:2", "0:0", "65534:255", "1:0x0a0b", "7:1.2.3.4", "7:1.2.3.4/24:47809",
    # must be refused with or without a route
    "256", "65535:5", "65535:*", "1:256", "1.2.3.4:65536", "1.2.3.4/33", "",
    # no verdict with or without a route
    "X'05'", "1:X'05'", "*:5", "01.2.3.4",
]
ROUTE_TEXTS = [
    "0", "3", "03", "255", "256", "999", "0x03", "0x0102", "0x01020304bac0", "0x01020304BAC1", "0x01020304050607", "0x0102030405060708", "0x1", "0x", "0xg1",
    "1.2.3.4", "1.2.3.4:47808", "1.2.3.4:47809", "1.2.3.4:0", "1.2.3.4:65535", "1.2.3.4:65536", "255.255.255.255:47823", "256.2.3.4", "1.2.3", "1.2.3.4:",
    "1.2.3.4/24", "01.2.3.4", "*", "", "3@4", "1:3", "X'03'", "x", "-1",
]
ROUTE_ARGS = [
    RT("Address", I(3)), RT("Address", S("3")), RT("Address", S("0x0102")), RT("Address", S("1.2.3.4")), RT("Address", S("1.2.3.4:47809")),
    RT("Address", TS("1.2.3.4", 47808)), RT("Address", B(b"\x03")), RT("LocalStation", I(3)), RT("LocalStation", B(bytes.fromhex("01020304bac1"))),
    RT("LocalStation", BA(b"\x01\x02")),
    # not a plain local station: no verdict
    RT("Address", S("*")), RT("Address", S("1:3")), RT("Address", S("7@3")),
]
ROUTE_CALLS = [
    ("LocalStation", I(7)), ("LocalStation", B(bytes.fromhex("01020304bac0"))), ("LocalStation", I(256)), ("RemoteStation", I(1), I(2)),
    ("RemoteStation", I(65534), B(b"\x01\x02")), ("RemoteStation", I(65535), I(2)), ("LocalBroadcast",), ("RemoteBroadcast", I(5)), ("GlobalBroadcast",),
]


def dom_routes(tier):
    """@route suffixes and route= arguments, read in the default (not route aware) configuration"""
    for left in ROUTE_LEFTS:
        for r in ROUTE_TEXTS:
            yield ("Address", S("%s@%s" % (left, r)))
    for n in range(0, 257):
        yield ("Address", S("1:2@%d" % n))
        yield ("Address", S("7@%d" % n))
        if n <= 255:
            yield ("Address", S("1:2@0x%02x" % n))
            yield ("Address", S("*@0x%02X" % n))
            yield ("RemoteStation", I(1), I(2), RT("Address", I(n)))
    for call in ROUTE_CALLS:
        for r in ROUTE_ARGS:
            yield call + (r,)
    # the two-argument constructor takes the route inside the text
    for net in (0, 1, 65534, 65535):
        for body in ("5@3", "*@3", "0x0102@1.2.3.4", "1.2.3.4/24:47809@0x0102", "5@256", "3:5@3"):
            yield ("Address", I(net), S(body))


DOMAINS = [dom_stations, dom_net_station, dom_refusals, dom_octets, dom_tuples, dom_ports, dom_ip_text, dom_routes, dom_all_nets]


def all_cases(tier):
    seen = set()
    out = []
    for dom in DOMAINS:
        n0 = len(out)
        for spec in dom(tier):
            if spec not in seen:
                seen.add(spec)
                out.append(spec)
        yield dom.__name__, len(out) - n0
    _CASES[:] = out


_CASES = []         # filled in the parent before the workers are forked
_POOL = []          # (spec, class key, object)


def shard_single(item, deadline):
    lo, hi = item
    acc = Acc()
    for idx in range(lo, hi):
        if (idx - lo) % 512 == 0 and time.time() > deadline:
            acc.cap("part A: deadline inside a block (cases %d..%d not evaluated)" % (idx, hi - 1))
            break
        spec = _CASES[idx]
        outcome, fails, v = eval_single(spec)
        acc.case(("A", spec) if v.status != "unlisted" else None)
        acc.outcome(outcome)
        acc.add_info("part A verdict %s" % v.status)
        for sig, detail in fails:
            acc.fail(sig, detail, {"part": "single", "spec": spec})
    return acc


def blocks(n, size):
    return [(lo, min(n, lo + size)) for lo in range(0, n, size)]


# ----------------------------------------------------------------------------- part B: pool of spellings

def route_forms(route):
    """every way to write the route `route` (octets of a local station): text after '@', route= arguments"""
    texts = ["0x" + route.hex()]
    args = [RT("Address", B(route)), RT("LocalStation", B(route)), RT("Address", S("0x" + route.hex()))]
    if len(route) == 1:
        texts += [str(route[0]), "0" + str(route[0])]
        args += [RT("Address", I(route[0])), RT("LocalStation", I(route[0]))]
    if len(route) == 6:
        ip = ".".join(str(x) for x in route[:4])
        port = int.from_bytes(route[4:], "big")
        texts.append("%s:%d" % (ip, port))
        args += [RT("Address", TS(ip, port)), RT("Address", S("%s/24:%d" % (ip, port)))]
        if port == 47808:
            texts.append(ip)
            args.append(RT("Address", S(ip)))
    return texts, args


def routed_spellings(kind, net, octets, route):
    """Every spelling of one address reached through one route (harness side, as spellings())."""
    texts, args = route_forms(route)
    if kind == R.LOCAL_BROADCAST:
        lefts, calls = ["*"], [("LocalBroadcast",)]
    elif kind == R.GLOBAL_BROADCAST:
        lefts, calls = ["*:*"], [("GlobalBroadcast",)]
    elif kind == R.REMOTE_BROADCAST:
        lefts, calls = ["%d:*" % net], [("RemoteBroadcast", I(net))]
    else:
        lefts = ["0x" + octets.hex()]
        if octets.hex() != octets.hex().upper():
            lefts.append("0x" + octets.hex().upper())
        if len(octets) == 1:
            lefts += [str(octets[0])]
        if len(octets) == 6:
            ip = ".".join(str(x) for x in octets[:4])
            port = int.from_bytes(octets[4:], "big")
            lefts += ["%s:%d" % (ip, port), "%s/24:%d" % (ip, port)]
            if port == 47808:
                lefts.append(ip)
        if kind == R.LOCAL_STATION:
            calls = [("LocalStation", B(octets))] + ([("LocalStation", I(octets[0]))] if len(octets) == 1 else [])
        else:
            lefts = ["%d:%s" % (net, left) for left in lefts]
            calls = [("RemoteStation", I(net), BA(octets))] + ([("RemoteStation", I(net), I(octets[0]))] if len(octets) == 1 else [])
    out = [("Address", S("%s@%s" % (left, t))) for left in lefts for t in texts]
    if kind in (R.REMOTE_BROADCAST, R.REMOTE_STATION):
        out += [("Address", I(net), S("%s@%s" % (left.split(":", 1)[1], texts[0]))) for left in lefts[:1]]
    out += [call + (r,) for call in calls for r in args]
    return out


def spellings(kind, net, octets, route=None):
    """Every spelling of one address (harness side; the reference classifies each spelling on its own)."""
    if route is not None:
        return routed_spellings(kind, net, octets, route)
    out = []
    if kind == R.LOCAL_BROADCAST:
        return [("Address", S("*")), ("LocalBroadcast",)]
    if kind == R.GLOBAL_BROADCAST:
        return [("Address", S("*:*")), ("GlobalBroadcast",)]
    if kind == R.REMOTE_BROADCAST:
        return [("Address", S("%d:*" % net)), ("Address", S("00%d:*" % net)), ("Address", I(net), S("*")), ("RemoteBroadcast", I(net))]
    lo, up = octets.hex(), octets.hex().upper()
    local = [S("0x" + lo), S("X'" + up + "'"), B(octets), BA(octets)]
    if lo != up:
        local += [S("0x" + up), S("X'" + lo + "'")]
    if len(octets) == 1:
        local += [I(octets[0]), S(str(octets[0])), S("0" + str(octets[0]))]
    if len(octets) == 6:
        ip = ".".join(str(x) for x in octets[:4])
        word = int.from_bytes(octets[:4], "big")
        port = int.from_bytes(octets[4:], "big")
        local += [S("%s:%d" % (ip, port)), S("%s/24:%d" % (ip, port)), S("%s/0:%d" % (ip, port)), S("%s/32:%d" % (ip, port)),
                  TS(ip, port), TI(word, port)]
        if port == 47808:
            local += [S(ip), S(ip + "/16"), S(ip + "/31")]
    if kind == R.LOCAL_STATION:
        out += [("Address", a) for a in local]
        out += [("LocalStation", B(octets)), ("LocalStation", BA(octets))]
        if len(octets) == 1:
            out.append(("LocalStation", I(octets[0])))
    else:
        for a in local:
            if a[0] == "s":
                out.append(("Address", S("%d:%s" % (net, a[1]))))
            out.append(("Address", I(net), a))
        out += [("RemoteStation", I(net), B(octets)), ("RemoteStation", I(net), BA(octets))]
        if len(octets) == 1:
            out.append(("RemoteStation", I(net), I(octets[0])))
    return out


ROUTES_QUICK = [b"\x03", b"\x04", bytes.fromhex("01020304bac0")]
ROUTES_MORE = [bytes.fromhex("01020304bac1"), b"\x01\x02"]


def routed_identities(tier):
    """addresses of the pool that are also spelled with routes: (kind, net, octets, route)"""
    bases = [(R.LOCAL_BROADCAST, None, None), (R.GLOBAL_BROADCAST, None, None), (R.REMOTE_BROADCAST, 5, None), (R.REMOTE_BROADCAST, 0, None),
             (R.LOCAL_STATION, None, b"\x05"), (R.LOCAL_STATION, None, b"\x00\x05"), (R.LOCAL_STATION, None, bytes.fromhex("01020304bac0")),
             (R.LOCAL_STATION, None, bytes.fromhex("01020304bad0")),
             (R.REMOTE_STATION, 1, b"\x05"), (R.REMOTE_STATION, 0, b"\x00"), (R.REMOTE_STATION, 65534, bytes.fromhex("01020304bac0"))]
    routes = list(ROUTES_QUICK)
    if tier == "thorough":
        bases += [(R.REMOTE_BROADCAST, 65534, None), (R.LOCAL_STATION, None, b"\x03"), (R.LOCAL_STATION, None, b"\x00"), (R.LOCAL_STATION, None, b"\xff"),
                  (R.LOCAL_STATION, None, bytes.fromhex("01020304bac0ff")), (R.REMOTE_STATION, 1, b"\x00\x05"), (R.REMOTE_STATION, 5, b"\x05"),
                  (R.REMOTE_STATION, 2, bytes.fromhex("01020304bac1"))]
        routes += ROUTES_MORE
    return [base + (route,) for base in bases for route in routes]


def pool_identities(tier):
    """(kind, net, octets, route): the route-less addresses first, then some of them again with routes"""
    return [ident + (None,) for ident in plain_identities(tier)] + routed_identities(tier)


def plain_identities(tier):
    ids = [(R.LOCAL_BROADCAST, None, None), (R.GLOBAL_BROADCAST, None, None)]
    nets = [0, 1, 2, 5, 255, 256, 47808, 65533, 65534]
    for net in nets:
        ids.append((R.REMOTE_BROADCAST, net, None))
    one = range(256) if tier == "thorough" else [0, 1, 2, 5, 10, 127, 128, 186, 192, 254, 255]
    for n in one:
        ids.append((R.LOCAL_STATION, None, bytes([n])))
    multi = ["0005", "0500", "0505", "000005", "050000", "bac0", "0000bac0",
             "01020304bac0", "01020304bac1", "01020304bacf", "01020304babf", "01020304bad0", "010203040000", "01020304ffff",
             "01020305bac0", "04030201bac0", "00000000bac0", "ffffffffbac0", "0a000001bac0", "000000000000", "000000000005",
             "0102030405", "01020304bac0ff", "0001020304bac0", "01020304ba", "00000000000000"]
    for h in multi:
        ids.append((R.LOCAL_STATION, None, bytes.fromhex(h)))
    rnets = [0, 1, 2, 5, 65534] if tier == "quick" else nets
    for net in rnets:
        for n in (0, 1, 5, 255):
            ids.append((R.REMOTE_STATION, net, bytes([n])))
        for h in ("0005", "0500", "01020304bac0", "01020304bac1", "01020304bad0", "0a000001bac0", "0102030405", "01020304bac0ff"):
            ids.append((R.REMOTE_STATION, net, bytes.fromhex(h)))
    return ids


def build_pool(tier, acc):
    """Specs -> (spec, reference class key, real object).  The generator's intention is cross-checked with the reference."""
    pool = []
    seen = set()
    for ident in pool_identities(tier):
        for spec in spellings(*ident):
            if spec in seen:
                continue
            seen.add(spec)
            v = R.denote(spec)
            if v.status != "ok" or R.full_key(v.denotation) != ident:
                raise HarnessError("pool generator and reference disagree on %s: %r vs %r" % (show(spec), ident, v))
            # a spelling the library does not read as the reference does is reported as a parser fault (part A
            # signature) and kept out of the pool: part B judges ==, hash and dict on correctly parsed objects
            outcome, fails, v = eval_single(spec)
            acc.case(("A", spec))
            for sig, detail in fails:
                acc.fail(sig, detail, {"part": "single", "spec": spec})
            try:
                obj = build(spec)
            except Exception:
                continue
            if observe(obj) != ident[:3]:
                acc.add_info("part B spellings left out (parsed wrongly, reported by part A)")
                continue
            pool.append((spec, ident, obj))
    return pool


def eval_pair(si, ki, a, sj, kj, b):
    """-> (equal as the library sees it, [(signature, detail)])"""
    fails = []
    # keys are (type, net, octets, route).  same: the two spellings denote the same thing in every respect -> must be
    # equal.  other: they denote different addresses -> must be unequal.  Neither (one address, different routes or
    # one route and none): the reference does not say; what == answers must agree with hash and dict all the same.
    same = ki == kj
    other = ki[:3] != kj[:3]
    ctx = {"a": show(si), "b": show(sj), "reference_a": list(ki), "reference_b": list(kj)}
    try:
        e = a == b
        ne = a != b
    except Exception as err:
        return False, [("eq:raises", dict(ctx, error=repr(err)))]
    if not isinstance(e, bool) or ne is not (not e):
        fails.append(("eq:ne-disagrees-with-eq", dict(ctx, eq=repr(e), ne=repr(ne))))
    e = bool(e)
    if e and other:
        differs = [name for name, x, y in zip(("type", "net", "octets"), ki, kj) if x != y]
        fails.append(("eq:equal-although-%s-differs" % "+".join(differs), ctx))
    if same and not e:
        fails.append(("eq:unequal-spellings-of-one-address", ctx))
    try:
        ha, hb = hash(a), hash(b)
    except Exception as err:
        fails.append(("hash:raises", dict(ctx, error=repr(err))))
        return e, fails
    if same and ha != hb:
        fails.append(("hash:differs-between-spellings-of-one-address", dict(ctx, hashes=[ha, hb])))
    elif e and not other and ha != hb:
        fails.append(("hash:differs-between-addresses-that-compare-equal", dict(ctx, hashes=[ha, hb])))
    found = b in {a: 1}
    if same and not found:
        fails.append(("dict:lookup-misses-other-spelling", ctx))
    elif e and not other and not found:
        fails.append(("dict:lookup-misses-address-that-compares-equal", ctx))
    if found and other:
        fails.append(("dict:lookup-hits-another-address", ctx))
    elif found and not e:
        fails.append(("dict:lookup-hits-address-that-compares-unequal", ctx))
    return e, fails


def shard_rows(item, deadline):
    start, step = item
    acc = Acc()
    rows = []
    n = len(_POOL)
    for i in range(start, n, step):
        if time.time() > deadline:
            acc.cap("part B: deadline before all pool rows were evaluated")
            break
        si, ki, a = _POOL[i]
        bits = 0
        for j in range(n):
            sj, kj, b = _POOL[j]
            e, fails = eval_pair(si, ki, a, sj, kj, b)
            if e:
                bits |= 1 << j
            for sig, detail in fails:
                acc.fail(sig, detail, {"part": "pair", "a": si, "b": sj})
        acc.case(("B", si), n=n)
        acc.outcome("pool-row:%s:%d-equal-spellings" % (ki[0], bin(bits).count("1")))
        rows.append((i, bits))
    acc.info["rows"] = rows
    return acc


def set_bits(x):
    while x:
        low = x & -x
        yield low.bit_length() - 1
        x ^= low


def part_b(tier, acc, deadline):
    pool = build_pool(tier, acc)
    _POOL[:] = pool
    n = len(pool)
    sub = run_shards(shard_rows, [(k, 64) for k in range(min(64, n))], deadline, ordered=True)
    rows = dict(sub.info.pop("rows", []))
    acc.merge(sub)
    classes = {}
    for idx, (spec, key, obj) in enumerate(pool):
        classes.setdefault(key, []).append(idx)
    acc.info["part B pool spellings"] = n
    acc.info["part B pool spellings with a route"] = sum(1 for _, key, _ in pool if key[3] is not None)
    acc.info["part B reference classes"] = len(classes)
    acc.info["part B addresses (type, net, octets)"] = len(set(key[:3] for key in classes))
    acc.info["part B ordered pairs evaluated"] = len(rows) * n
    if len(rows) != n:
        acc.cap("part B: %d of %d rows evaluated; symmetry/transitivity only over those" % (len(rows), n))
    # symmetry and transitivity over all pairs / triples, on the recorded matrix
    have = 0
    for i in rows:
        have |= 1 << i
    transposed = dict((i, 0) for i in rows)
    for i, ri in rows.items():
        for j in set_bits(ri & have):
            transposed[j] |= 1 << i
    triples = 0
    equivalence = True
    for i, ri in sorted(rows.items()):
        for j in set_bits((transposed[i] ^ ri) & have):
            equivalence = False
            acc.fail("eq:not-symmetric", {"a": show(pool[i][0]), "b": show(pool[j][0]), "a==b": bool((ri >> j) & 1), "b==a": bool((rows[j] >> i) & 1)},
                     {"part": "pair", "a": pool[i][0], "b": pool[j][0]})
        if not (ri >> i) & 1:
            equivalence = False
            acc.fail("eq:not-reflexive", {"a": show(pool[i][0])}, {"part": "pair", "a": pool[i][0], "b": pool[i][0]})
        for j in set_bits(ri & have):
            extra = rows[j] & ~ri               # a==b and b==c but not a==c
            if extra:
                equivalence = False
                k = (extra & -extra).bit_length() - 1
                acc.fail(transitivity_signature(pool[i][1], pool[j][1], pool[k][1]),
                         {"a": show(pool[i][0]), "b": show(pool[j][0]), "c": show(pool[k][0]), "a==b": True, "b==c": True, "a==c": False},
                         {"part": "triple", "a": pool[i][0], "b": pool[j][0], "c": pool[k][0]})
        triples += len(rows) * n                # every (b, c) for this a is decided by the two subset tests above
    acc.info["part B triples decided on the matrix"] = triples
    eq_classes = len(set(rows.values())) if equivalence and len(rows) == n else None
    for sig, detail in table_faults(pool, eq_classes):
        acc.fail(sig, detail, {"part": "table", "tier": tier})
    acc.evaluations += 2 * n
    acc.sample({"part": "B", "a_class_of_spellings": [show(pool[i][0]) for i in max(classes.values(), key=len)]})


def transitivity_signature(ka, kb, kc):
    """a == b and b == c but a != c.  One known shape gets its own name: one address, a and c with two different
    routes, b without a route (== looks at the routes only when both sides carry one)."""
    if ka[:3] == kb[:3] == kc[:3] and kb[3] is None and ka[3] is not None and kc[3] is not None and ka[3] != kc[3]:
        return "eq:not-transitive:route-compared-only-when-both-sides-carry-one"
    return "eq:not-transitive"


def table_faults(pool, eq_classes):
    """One dictionary over the route-less spellings: one entry per address, every spelling finds its address.
    One dictionary over the whole pool (spellings with routes included): every spelling finds an entry of its own
    address; at least one entry per address, at most one per (address, route); and - when == was found to be an
    equivalence relation on the pool - exactly one entry per class of ==.  -> [(signature, detail)]"""
    out = []
    for label, members in (("route-less spellings", [m for m in pool if m[1][3] is None]), ("whole pool", pool)):
        whole = label == "whole pool"
        table = {}
        try:
            for spec, key, obj in members:
                table.setdefault(obj, key)
        except TypeError as err:
            out.append(("hash:raises", {"spelling": show(spec), "error": repr(err)}))
            continue
        full = set(key for _, key, _ in members)
        bases = set(key[:3] for key in full)
        detail = {"dictionary_over": label, "entries": len(table), "reference_classes": len(full), "addresses": len(bases)}
        if not whole and len(table) != len(full):
            out.append(("dict:pool-collapses-to-wrong-number-of-entries", detail))
        if whole and not (len(bases) <= len(table) <= len(full)):
            out.append(("dict:pool-collapses-to-wrong-number-of-entries", detail))
        elif whole and eq_classes is not None and len(table) != eq_classes:
            out.append(("dict:entries-differ-from-classes-of-equality", dict(detail, classes_of_equality=eq_classes)))
        for spec, key, obj in members:
            found = table.get(obj)
            if found is None or found[:3] != key[:3] or (not whole and found != key):
                out.append(("dict:lookup-hits-another-address" if obj in table else "dict:lookup-misses-other-spelling",
                            {"dictionary_over": label, "spelling": show(spec), "found": found, "reference": list(key)}))
                break
    return out


# ----------------------------------------------------------------------------- part C: one object, filled again and again

HIST_NOTATIONS = [
    S("*"), S("*:*"), S("3:*"), S("0:*"), S("65534:*"),
    I(7), I(0), S("9"), S("0x0b"), S("X'0C'"), S("0x0102"), S("X'010203'"), B(b"\x0d"), BA(bytes.fromhex("01020304050607")),
    S("2:5"), S("2:0x06"), S("2:X'0708'"), S("0:255"), S("65534:0"),
    S("1.2.3.4"), S("1.2.3.4:47809"), S("10.1.2.3/24"), S("10.1.2.3/8:47999"), S("4:1.2.3.4"), S("4:10.1.2.3/24:47809"),
    TS("1.2.3.4", 47808), TI(0x0A000001, 47810), B(bytes.fromhex("01020304bac0")), BA(bytes.fromhex("0a0000010001")),
    # with a route
    S("1:2@3"), S("1:2@4"), S("7@0x0102"), S("5:*@1.2.3.4"), S("*@9"), S("*:*@1.2.3.4:47809"), S("1.2.3.4@5"),
    # accepted, not in the statement's list (judged against a fresh object only)
    S("01:02:03:04:05:06"), S("*:5"),
    # refused: decode_address raises somewhere on its way, after part of the object may have been written
    S("1:256"), S("65535:5"), S("65535:*"), S("1.2.3.4:65536"), S("4:300.1.1.1"), S("300"), I(256), I(-1), S("1:2@256"), S("5:*@1.2.3.4:65536"),
    S("no address"), TS("1.2.3.4", 65536),
]
HIST_HOLDERS = [
    ("Address",), ("Address", I(5), I(6)), ("LocalStation", I(7)), ("LocalStation", B(bytes.fromhex("01020304bac0"))),
    ("RemoteStation", I(8), B(b"\x01\x02")), ("RemoteStation", I(8), I(5), RT("Address", I(3))), ("LocalBroadcast",), ("RemoteBroadcast", I(9)),
    ("GlobalBroadcast",), ("LocalBroadcast", RT("Address", S("1.2.3.4"))), ("RemoteBroadcast", I(9), RT("LocalStation", B(b"\x01\x02"))),
]
_PROBES = []        # (text, object): what the re-filled object and the fresh one are compared against


def history_probes():
    out = []
    for arg in HIST_NOTATIONS:
        try:
            out.append((show(("Address", arg)), build(("Address", arg))))
        except Exception:
            pass
    for spec in HIST_HOLDERS[1:]:
        out.append((show(spec), build(spec)))
    return out


def show_history(holder, steps):
    return "%s%s" % (show(holder), "".join(".decode_address(%s)" % show_arg(a) for a in steps))


def eval_history(holder, steps):
    """`holder` is built, then every notation of `steps` is decoded into that one object through the public
    decode_address(); refused notations in the middle raise and are passed over.  The last notation is judged:
    the object must be what the reference says the notation denotes, and print / compare / hash / look up exactly
    like a fresh Address(notation).  -> (outcome label, [(signature, detail)])"""
    text = show_history(holder, steps)
    obj = build(holder)
    for arg in steps[:-1]:
        try:
            obj.decode_address(to_arg(arg))
        except Exception:
            pass
    before = KIND.get(obj.addrType, "?")
    last = steps[-1]
    spec = ("Address", last)
    v = R.denote(spec)
    try:
        fresh, fexc = pdu.Address(to_arg(last)), None
    except Exception as err:
        fresh, fexc = None, err
    try:
        obj.decode_address(to_arg(last))
        exc = None
    except Exception as err:
        exc = err
    pre = "history:object-filled-again:"
    if fexc is not None:
        # a fresh Address refuses the notation (if it should not have, part A says so): a used object must refuse it too
        if exc is None:
            return "history:%s->accepted-though-fresh-refuses" % before, [(pre + "accepts-what-a-fresh-address-refuses",
                                                                        {"history": text, "fresh": repr(fexc), "object_holds": list(observe(obj))})]
        return "history:%s->refused-as-fresh" % before, []
    if exc is not None:
        return "history:%s->rejected" % before, [(pre + "rejects-what-a-fresh-address-accepts:%s" % type(exc).__name__, {"history": text, "error": repr(exc)})]

    fails = []
    got = observe(obj)
    if v.status == "ok":
        d = v.denotation
        for label, detail in field_faults(obj, d, spec):
            fails.append((pre + label, dict(detail, history=text)))
    # ---- against the fresh object: fields, text, ==, hash, dict, and == with every probe address
    if (got, obj.addrLen) != (observe(fresh), fresh.addrLen) and not fails:
        fails.append((pre + "holds-other-fields-than-fresh", {"history": text, "object_holds": list(got) + [obj.addrLen],
                                                               "fresh_holds": list(observe(fresh)) + [fresh.addrLen]}))
    # an object that holds another type / net / octets than it should compares and hashes accordingly: that is the
    # same fault once more, not reported again; with the right fields ==, hash and dict are judged in their own right
    wrong_fields = bool(fails)
    try:
        txt, ftxt = str(obj), str(fresh)
    except Exception as err:
        fails.append((pre + "print-raises", {"history": text, "error": repr(err)}))
        return "history:%s->%s:unprintable" % (before, got[0]), fails
    if txt != ftxt:
        fails.append((pre + "prints-unlike-fresh", {"history": text, "printed": txt, "fresh_prints": ftxt, "object_holds": list(got)}))
    if v.status == "ok":
        for label, detail in print_faults(txt, v.denotation, got, spec):
            if not (label == "print:text-denotes-another-address" and fails):     # the wrong field is already reported
                fails.append((pre + label, dict(detail, history=text)))
    try:
        eqs = (obj == fresh, fresh == obj, obj != fresh)
        hashes = (hash(obj), hash(fresh))
        lookups = ({fresh: 1}.get(obj), {obj: 1}.get(fresh))
    except Exception as err:
        fails.append((pre + "eq-or-hash-raises", {"history": text, "error": repr(err)}))
        return "history:%s->%s:eq-raises" % (before, got[0]), fails
    if wrong_fields:
        return "history:%s->%s:unlike-fresh" % (before, got[0]), fails
    if eqs != (True, True, False):
        fails.append((pre + "unequal-to-fresh", {"history": text, "obj==fresh,fresh==obj,obj!=fresh": list(eqs), "object_holds": list(got)}))
    if hashes[0] != hashes[1]:
        fails.append((pre + "hash-unlike-fresh", {"history": text, "object_holds": list(got), "fresh_holds": list(observe(fresh))}))
    if lookups != (1, 1):
        fails.append((pre + "dict-lookup-unlike-fresh", {"history": text, "fresh_table_finds_object,object_table_finds_fresh": list(lookups)}))
    for ptxt, probe in _PROBES:
        try:
            mine, his = (obj == probe, probe == obj), (fresh == probe, probe == fresh)
        except Exception as err:
            mine, his = repr(err), None
        if mine != his:
            fails.append((pre + "compares-unlike-fresh", {"history": text, "probe": ptxt, "object==probe,probe==object": mine, "fresh==probe,probe==fresh": his}))
            break
    return "history:%s->%s:%s" % (before, got[0], "as-fresh" if not fails else "unlike-fresh"), fails


_HIST = {"depth": 2}


def history_items(depth):
    """shards: (holder index, index of the first notation); the shard enumerates the rest of the sequence"""
    return [(h, f) for h in range(len(HIST_HOLDERS)) for f in range(len(HIST_NOTATIONS))]


def shard_history(item, deadline):
    h, f = item
    acc = Acc()
    holder = HIST_HOLDERS[h]
    first = HIST_NOTATIONS[f]
    done = 0
    for extra in range(0, _HIST["depth"]):
        for rest in itertools.product(HIST_NOTATIONS, repeat=extra):
            if done % 256 == 0 and time.time() > deadline:
                acc.cap("part C: deadline inside a shard of histories")
                return acc
            done += 1
            steps = (first,) + rest
            outcome, fails = eval_history(holder, steps)
            acc.case(("C", holder, steps))
            acc.outcome(outcome)
            acc.add_info("part C histories of length %d" % len(steps))
            for sig, detail in fails:
                acc.fail(sig, detail, {"part": "history", "holder": holder, "steps": steps})
    return acc


def part_c(tier, acc, deadline):
    _HIST["depth"] = 3 if tier == "thorough" else 2
    _PROBES[:] = history_probes()
    acc.info["part C holders"] = len(HIST_HOLDERS)
    acc.info["part C notations"] = len(HIST_NOTATIONS)
    acc.info["part C probe addresses"] = len(_PROBES)
    run_shards(shard_history, history_items(_HIST["depth"]), deadline, into=acc, ordered=True)
    acc.sample({"part": "C", "history": show_history(HIST_HOLDERS[4], (HIST_NOTATIONS[2], HIST_NOTATIONS[0])),
                "outcome": eval_history(HIST_HOLDERS[4], (HIST_NOTATIONS[2], HIST_NOTATIONS[0]))[0]})


# ----------------------------------------------------------------------------- entry points

def run(tier, seed, deadline):
    if settings.route_aware:
        raise HarnessError("settings.route_aware is set; C18 is stated for the default (route-unaware) configuration")
    quiet_route_warnings()
    acc = Acc()
    for name, count in all_cases(tier):
        acc.info["part A %s" % name] = count
    n = len(_CASES)
    # the same spelling evaluated twice in a row: every input is the harness's own (no clock, no randomness), so a
    # difference means that what an address denotes depends on what was built before - a violation, not a harness fault
    history_dependent = 0
    for spec in _CASES[:200] + _CASES[:: max(1, n // 200)]:
        r1, r2 = eval_single(spec), eval_single(spec)
        acc.evaluations += 2
        if (r1[0], repr(r1[1])) != (r2[0], repr(r2[1])):
            history_dependent += 1
            acc.fail("history:same-spelling-evaluated-twice-differs", {"notation": show(spec), "first": r1[0], "second": r2[0]},
                     {"part": "twice", "spec": spec})
    acc.info["spellings evaluated twice in a row"] = 200 + len(_CASES[:: max(1, n // 200)])
    # contiguous blocks merged in order: the recorded examples of a signature are the first ones of the enumeration
    run_shards(shard_single, blocks(n, 2048), deadline, into=acc, ordered=True)
    acc.info["part A cases"] = n
    part_b(tier, acc, deadline)
    part_c(tier, acc, deadline)
    acc.info["route warnings logged by the parser (parent process)"] = _Counting.records
    # written-out cases; the seed only rotates which ones
    for k in range(4):
        spec = _CASES[(seed * 7919 + k * (n // 4) + 17 * k) % n]
        outcome, fails, v = eval_single(spec)
        acc.sample({"part": "A", "notation": show(spec), "reference": repr(v), "outcome": outcome})
    return acc


def replay(case):
    quiet_route_warnings()
    part = case["part"]
    if part == "single":
        spec = norm(case["spec"])
        outcome, fails, v = eval_single(spec)
        return not fails, "%s: reference %r -> %s %r" % (show(spec), v, outcome, fails)
    if part == "twice":
        spec = norm(case["spec"])
        r1, r2 = eval_single(spec), eval_single(spec)
        same = (r1[0], repr(r1[1])) == (r2[0], repr(r2[1]))
        return same and not r1[1] and not r2[1], "%s: first %s %r, second %s %r" % (show(spec), r1[0], r1[1], r2[0], r2[1])
    if part in ("pair", "triple"):
        names = ["a", "b"] + (["c"] if part == "triple" else [])
        specs = [norm(case[k]) for k in names]
        objs, keys = [], []
        for s in specs:
            v = R.denote(s)
            keys.append(R.full_key(v.denotation) if v.status == "ok" else ("?", None, None, None))
            objs.append(build(s))
        fails = []
        eqs = {}
        for (x, sx, kx, ox), (y, sy, ky, oy) in itertools.product(list(zip(names, specs, keys, objs)), repeat=2):
            e, f = eval_pair(sx, kx, ox, sy, ky, oy)
            eqs[x + "==" + y] = e
            fails += f
        for x, y in itertools.permutations(names, 2):
            if eqs[x + "==" + y] != eqs[y + "==" + x]:
                fails.append(("eq:not-symmetric", x + y))
        if part == "triple":
            by_name = dict(zip(names, keys))
            for x, y, z in itertools.permutations(names, 3):
                if eqs[x + "==" + y] and eqs[y + "==" + z] and not eqs[x + "==" + z]:
                    fails.append((transitivity_signature(by_name[x], by_name[y], by_name[z]), x + y + z))
        return not fails, "%s: %r %r" % (", ".join(show(s) for s in specs), eqs, fails[:4])
    if part == "history":
        _PROBES[:] = history_probes()
        holder, steps = norm(case["holder"]), norm(case["steps"])
        outcome, fails = eval_history(holder, steps)
        return not fails, "%s: %s %r" % (show_history(holder, steps), outcome, fails[:4])
    if part == "table":
        acc = Acc()
        pool = build_pool(case.get("tier", "quick"), acc)
        n = len(pool)
        eqm = [[bool(a == b) for _, _, b in pool] for _, _, a in pool]
        rows = [frozenset(j for j in range(n) if eqm[i][j]) for i in range(n)]
        # reflexive, and every member of a row has the very same row: then == is an equivalence on the pool
        equivalence = all(i in rows[i] and all(rows[j] == rows[i] for j in rows[i]) for i in range(n))
        rows = set(rows)
        faults = table_faults(pool, len(rows) if equivalence else None)
        return not faults, "dictionaries over the pool (%d spellings, == %s an equivalence): %r" % (n, "is" if equivalence else "is not", faults[:3])
    return False, "unknown part"
