"""C19 Routing knowledge stays coherent: one next hop per destination, newest wins.

Part A (E2): breadth-first search over operation histories on the real `RouterInfoCache`
        (learn / forget router / forget destinations / forget some destinations of a router / renumber a
        source network), every successor replayed on a fresh cache, deduplicated on a canonical sorted
        form of both indexes, judged in every state against `bv.refs.routeref.RouteRef`
        (one dict (snet, dnet) -> router, newest wins) and the index invariants I1..I4.
Part B (E2, through the wire): the same histories at small depth as real frames -- I-Am-Router-To-Network,
        routed traffic with SADR (an application layer NPDU, and network layer messages that travel through routers:
        Who-Is-Router-To-Network passed on by a router, Reject-Message-To-Network, Initialize-Routing-Table-Ack, a
        proprietary message), Network-Number-Is -- delivered over controlled vlan networks into a real
        two-port node (NetworkServiceAccessPoint + NetworkServiceElement), deletions through the node's
        `delete_router_references`; then one probe packet per destination network is sent from the
        application side: its next-hop MAC / LAN must be what the reference names, and if the reference knows
        no router the node must ask Who-Is-Router-To-Network instead of using a stale one.
        The histories also contain application traffic for networks without a known path (the node holds the
        packet and asks Who-Is-Router-To-Network), interleaved in every order with learning from routed
        traffic, announcements, deletions and renumbering: from the moment the reference knows a path, every
        held packet must have appeared on the wire towards a current next hop (once), and the probes show that
        later packets do.
        Where BOUNDS says so, application traffic for networks WITH a known path is an operation of the history as well
        (it leaves at once; what the node may remember from having sent must not outlive the next change of the
        knowledge), and the node shares MAC octets with routers of its other LAN (addresses are unique per LAN only).
"""
import inspect
import itertools
import re
import time

import bv  # noqa: F401
from bacpypes import netservice
from bacpypes.apdu import UnconfirmedRequestPDU
from bacpypes.comm import Client, bind
from bacpypes.netservice import NetworkServiceAccessPoint, NetworkServiceElement, RouterInfoCache
from bacpypes.pdu import PDU, LocalBroadcast, LocalStation, RemoteBroadcast, RemoteStation
from bacpypes.vlan import Node
from bv.engine import vclock
from bv.engine.acc import Acc, h64
from bv.engine.ctlnet import CtlNetwork, Wire
from bv.engine.pool import HarnessError, chunks, run_shards
from bv.engine.canon import canon as generic_canon, SKIP as _CANON_SKIP

GENERIC_SKIP = frozenset(_CANON_SKIP | {"adapterSAP", "adapterAddr", "adapters", "router_info_cache", "local_adapter"})
from bv.refs import routeref
from bv.refs.routeref import NodeRef, RouteRef, net_key

PROPERTY = "C19"
LEVEL = "model_checking"
BUDGET = {"quick": 150.0, "thorough": 1500.0}
RULE = ("part A: BFS over all histories of the alphabet {learn(port, router, dnets), forget router(port, router), "
        "forget destinations(port, dnets), forget(router, dnets) in its general form -- every router of the universe, with or "
        "without a record, with every non-empty subset of the dnets it is credited with and with every destination list of the "
        "universe whoever its members are credited to (another router, nobody) --, "
        "renumber(port -> a number no port uses)} on the real RouterInfoCache, each successor replayed on a fresh cache; "
        "a state is distinct by (port numbers, routers index sorted by (snet, address) with every field of every record, "
        "path index sorted by key with the identity relation path-record 'is' router-record); dict orders are merged "
        "because the cache only iterates them for order-independent updates; RouterInfo.snet is left out of the state only "
        "while the source of netservice.py never reads it (checked at import, otherwise it is kept). "
        "part B: BFS over histories of real frames / node API calls into a real two-port NSAP node: the same alphabet plus "
        "learning from the SADR of routed traffic -- sadr(port, router, source network, kind of frame): the kind is part of the "
        "operation, so every history exists with every kind in every position: an application layer NPDU directed at the node, "
        "a Who-Is-Router-To-Network of a remote station passed on by the router as a local broadcast, a Reject-Message-To-Network "
        "directed at the node (these two network layer messages talk about network 77, which nobody announces), and in the "
        "universes searched to closure also an Initialize-Routing-Table-Ack and a proprietary network message (type 0x80) -- which "
        "kinds a universe uses is stated in BOUNDS (quick's depth-bounded universe: the first two); one "
        "reference effect for all kinds (source network now via that router, newest wins, nothing held for it any more) and no "
        "kind is part of the state -- plus send(dnet) = the application hands the node a packet for a network the "
        "reference knows no path to (the node has to hold it and ask Who-Is-Router-To-Network), at most `held` packets held at a "
        "time, interleaved with everything else in every order; in the universes marked 'sends over known paths' in BOUNDS send(dnet) "
        "is also enabled for a network the reference knows a path to (the packet has to leave at once towards the current next hop; "
        "nothing in the knowledge changes, but it happened before whatever the history learns or forgets next, so that anything the "
        "node remembers from having sent is in place when the knowledge changes, and the later sends and probes must follow the "
        "new knowledge); in the universes marked 'shared MACs' the node is station X on LAN 0 and station R0 on LAN 1 while the "
        "routers on LAN 0 are R0, R1(, R2) and on LAN 1 X, R1(, R2) -- MAC addresses are unique per LAN only: on either LAN one "
        "router carries the MAC the node itself has on its other port, the other routers have equal MACs on both LANs, no LAN has "
        "a MAC twice; elsewhere the node is station 1 / 2 and shares no MAC with a router; "
        "state = the same cache form + (adapter net, configured flag) in "
        "adapter-dict order + packets held per destination network (node and reference) + the set of destination networks the "
        "application has sent to over a known path (an account of the history kept by the harness); after every operation the frames the "
        "node put on its LANs are read by an independent NPCI parser: a held packet may only appear towards a current next hop "
        "of the reference, once, and after an operation that names a destination as reachable (announcement, routed traffic) "
        "nothing may be held for it any more; every state gets one probe per destination network (+ one never announced) = the "
        "traffic sent afterwards. "
        "A failing state is reported and not expanded -- except a state whose tables equal the reference and where only held "
        "traffic is wrong (held-traffic-not-released / later-traffic-queued-behind-held-traffic): it is reported and expanded, so "
        "that a second way of stranding traffic is reported under its own signature.")
ASSUMPTIONS = [
    "single thread; the cache is a plain data structure, so a state is fully described by its two indexes",
    "forget(router, dnets) names pairs: it removes exactly the listed destinations that currently lead to that router and "
    "nothing else (a listed destination of another router or of nobody is not touched); destination lists are never empty; "
    "renumbering only onto a number no port uses (the statement does not say what else should happen)",
    "'traffic sent afterwards follows the current knowledge' is read as: a packet handed to the node while a path is known is "
    "on the wire towards that router at once; a packet handed over while no path is known is held (and Who-Is-Router-To-Network "
    "is broadcast, once per network being waited for); from the moment a path is known -- by an announcement or by routed "
    "traffic, whichever comes first -- nothing is held for that network: the held packets are on the wire towards the router, "
    "each once.  Packets are never required to be dropped; the node's forwarding of other stations' routed traffic is not driven",
    "I-Am-Router-To-Network lists are non-empty and never name a directly attached network; SADR never names one either",
    "'routed traffic revealing source networks' is every frame that arrives with SNET/SADR, whatever it carries: an application "
    "layer NPDU or a network layer message that travels through routers (clause 6.2.2: the router that passes a message on "
    "stamps the originator's network); what the message itself asks for (a router to network 77, a rejection concerning 77, an "
    "empty routing table, vendor data) must not touch the knowledge; such frames carry no DADR (last hop), so the node's own "
    "forwarding is not driven except for the Who-Is-Router-To-Network it passes on to its other port, which is not judged",
    "Network-Number-Is is sent as a local broadcast with the 'learned' flag (0); a port with a configured number is never "
    "asked to renumber",
    "a router never has the MAC the node itself uses on the same LAN (duplicate addresses on one LAN are outside the statement); "
    "the node's MACs on its two ports differ (with equal MACs no router could share one without duplicating it on a LAN); "
    "sends over known paths and shared MACs are not crossed with the two-destination universes searched to closure (cost: the "
    "account of networks sent to multiplies their states by 4)",
    "the 'random sequences of length 300' of the quantifier are replaced by closure (frontier emptied) of smaller universes",
    "RouterInfo.snet going stale after renumbering is not judged: nothing reads it",
    "router status (update_router_status, busy/available) is not part of the statement and is not exercised",
]
BOUNDS = {
    "quick": "part A: 2 ports x 3 routers x 4 dnets, sets of <=2 dnets, pool of 3 network numbers, depth<=4; "
             "2 ports (one number unknown) x 2 routers x 3 dnets, every subset, to closure (frontier emptied); "
             "part B: 3 node variants x (3 routers x 3 dnets, sets of <=2, <=2 packets held, sends over known paths, shared MACs, "
             "source networks revealed by 2 kinds of "
             "frame: application NPDU / routed Who-Is-Router-To-Network) depth<=3, 4 station probes per state; "
             "3 node variants x (2 routers x 1 dnet, <=2 packets held, sends over known paths, shared MACs, 5 kinds of frame) to "
             "closure, 2 probes per state; "
             "node with both numbers configured x (2 routers x 2 dnets, every subset, <=2 packets held, source networks revealed by "
             "5 kinds of frame: + Reject-Message-To-Network, Initialize-Routing-Table-Ack, proprietary message) to closure, "
             "3 probes per state",
    "thorough": "part A: 2 ports x 3 routers x 4 dnets, every non-empty subset, depth<=5; 2 ports x 3 routers x 3 dnets "
                "to closure; 2 ports (one unknown) x 2 routers x 3 dnets to closure; "
                "part B: 3 node variants x (3 routers x 4 dnets, every subset, <=2 packets held, sends over known paths, shared MACs, "
                "source networks revealed by 3 kinds "
                "of frame: application NPDU / routed Who-Is-Router-To-Network / routed Reject-Message-To-Network) depth<=3 with "
                "station + broadcast probes (10 per state); 3 node variants x (3 routers x 1 dnet, <=2 packets held, sends over known "
                "paths, shared MACs, 5 kinds of frame) to closure with 2 probes per state; "
                "3 node variants x (2 routers x 2 dnets, every subset, <=2 packets held, "
                "5 kinds of frame: + Initialize-Routing-Table-Ack, proprietary message) to closure with 3 probes "
                "per state; 3 node variants x (2 routers x 3 dnets, every subset, no held packets, 3 kinds of frame) to closure with "
                "4 probes per state",
}

# RouterInfo.snet is written by the constructor; if nothing else in netservice.py mentions `.snet` it cannot
# influence behaviour and two states that differ only in it are merged.
SNET_IS_READ = len(re.findall(r"\.snet\b", inspect.getsource(netservice))) > 1

EXTRA_DNET = 99          # a destination nobody ever announces (always exercises the Who-Is-Router path)
ASKED_DNET = 77          # what routed network layer messages of the history talk about: never announced, never probed
REMOTE_MAC = b"\x51"     # the station behind the router whose traffic reveals its network
# "routed traffic revealing a source network": the kinds of frame that reach the node through a router with the
# SNET/SADR of a remote originator.  One reference effect for all of them: the source network is learned via the router
# the frame came through (newest wins) and what was held for it goes out.
SADR_TWO = ("apdu",                       # an application layer NPDU directed at the node
            "who-is-router")              # Who-Is-Router-To-Network of a remote station passed on by the router (local broadcast)
SADR_CORE = SADR_TWO + ("reject-message",)             # Reject-Message-To-Network of a router further away, directed at the node
SADR_ALL = SADR_CORE + ("init-routing-table-ack",      # Initialize-Routing-Table-Ack (empty table), directed at the node
                        "proprietary-message")         # a vendor's network layer message (type 0x80), directed at the node
PROBE_MAC = b"\x63"
SEND_TAG0 = 0x80         # application packets of the history carry the tag 0x80 + position, probes 1..0x7f
APP_HEAD = b"\x10\x08\x09"
# failures that leave the routing tables equal to the reference (only held traffic is wrong): such a state is reported
# and still expanded, so that a second defect behind the first one is seen under its own signature
HELD_ONLY = ("held-traffic-not-released", "probe:later-traffic-queued-behind-held-traffic")


# ----------------------------------------------------------------------------- universes / alphabets

def universe(name, start, pool, n_routers, dnets, max_set, seed=0, depth=5, held=0, variants=None, sadr=SADR_CORE,
             shared_macs=False, known_sends=False):
    base = 0x0A + 0x10 * (seed % 4)
    u = {"name": name, "start": list(start), "pool": list(pool),
         "routers": [bytes([base + i]).hex() for i in range(n_routers)],
         "dnets": list(dnets), "max_set": max_set, "descending": bool(seed % 2), "depth": depth,
         "held": held,        # part B: at most this many application packets of the history held by the node at a time
         "variants": None if variants is None else list(variants),     # part B: node variants (None = all)
         "sadr": list(sadr),  # part B: the kinds of routed frame that reveal a source network
         # part B: application traffic for networks WITH a known path is an operation of the history too
         "known_sends": bool(known_sends)}
    if shared_macs:
        # part B: MAC addresses are unique per LAN only.  The node is station X on LAN 0 and station R0 on LAN 1; the routers
        # on LAN 0 are R0, R1, .. and the routers on LAN 1 are X, R1, ..: on either LAN one router has the MAC the node itself
        # uses on its OTHER port, the remaining routers have the same MACs on both LANs, and no LAN has a MAC twice
        extra = bytes([base + n_routers]).hex()
        if bytes.fromhex(extra) in (ANNOUNCER_MAC, REMOTE_MAC, PROBE_MAC):
            raise HarnessError("C19: the universe's MAC octets collide with the tester's")
        u["node_macs"] = [extra, u["routers"][0]]
        u["port_routers"] = [list(u["routers"]), [extra] + u["routers"][1:]]
    return u


def node_macs(u):
    """The node's own MAC on port 0 / port 1 (octets)."""
    return tuple(bytes.fromhex(m) for m in u["node_macs"]) if u.get("node_macs") else NODE_MACS


def routers_on(u, port):
    """The routers that can speak on the LAN of this port (part A and universes without shared MACs: the same everywhere)."""
    pr = u.get("port_routers")
    return pr[port] if pr else u["routers"]


def subsets(items, max_size=None):
    items = list(items)
    top = len(items) if max_size is None else min(max_size, len(items))
    for n in range(1, top + 1):
        for c in itertools.combinations(items, n):
            yield c


def enabled_ops(u, routes, nets, wire=False, can_renumber=None):
    """All operations of the alphabet enabled in this reference state, simplest first."""
    ops = []
    ports = range(len(nets))
    for p in ports:
        for r in routers_on(u, p):
            for ds in subsets(u["dnets"], u["max_set"]):
                ops.append(("learn", p, r, ds))
    if wire:
        for flavour in u.get("sadr", ("apdu",)):
            for p in ports:
                for r in routers_on(u, p):
                    for d in u["dnets"]:
                        ops.append(("sadr", p, r, d, flavour))
    for p in ports:
        for r in routers_on(u, p):
            ops.append(("forget_router", p, r))
    for p in ports:
        for ds in subsets(u["dnets"], u["max_set"]):
            ops.append(("forget_dnets", p, ds))
    for p in ports:
        for r in routers_on(u, p):
            # the combined form "forget (router, destinations)": every non-empty subset of what the router is credited
            # with, and every destination list of the universe whoever its members are credited to (another router,
            # nobody), for routers with and without a record
            mine = routes.dnets_of(nets[p], r)
            listed = set()
            for ds in itertools.chain(subsets(mine), subsets(u["dnets"], u["max_set"])):
                if ds not in listed:
                    listed.add(ds)
                    ops.append(("forget_router_dnets", p, r, ds))
    for p in ports:
        for new in u["pool"]:
            ok = (new not in nets) if can_renumber is None else can_renumber(p, new)
            if ok:
                ops.append(("renumber", p, new))
    return ops


def sadr_flavour(op):
    return op[4] if len(op) > 4 else "apdu"       # recorded cases from before the flavours existed are 4-tuples


def op_class(op, routes, nets):
    """Coarse class of an operation in a state: part of the failure signature and of the outcome labels."""
    kind = op[0]
    if kind == "send":
        return "send-over-known-path" if any(routes.lookup(n, op[1]) is not None for n in nets) else "send"
    snet = nets[op[1]]
    if kind in ("learn", "sadr"):
        ds = op[3] if kind == "learn" else (op[3],)
        owners = {routes.lookup(snet, d) for d in ds} - {None}
        # one class for all network layer messages: which message it was is in the history (and in the outcome labels)
        name = "learn" if kind == "learn" else "learn-from-sadr" if sadr_flavour(op) == "apdu" else "learn-from-sadr-of-network-message"
        if owners - {op[2]}:
            return name + "-displacing"
        return name
    if kind == "forget_router":
        return "forget-router"
    if kind == "forget_dnets":
        return "forget-dnets"
    if kind == "forget_router_dnets":
        mine = routes.dnets_of(snet, op[2])
        hit = [d for d in op[3] if d in mine]
        rest = [d for d in op[3] if d not in mine]
        name = "forget-router-dnets-" + ("none" if not hit else "all" if sorted(hit) == mine else "partial")
        if any(routes.lookup(snet, d) is not None for d in rest):
            name += "+dnets-of-other-routers"
        elif rest:
            name += "+unknown-dnets"
        return name
    if kind == "renumber":
        return "renumber" if snet is not None else "renumber-from-unknown"
    raise ValueError(kind)


def ref_apply(routes, nets, op):
    """Apply one operation to the reference (routes: RouteRef, nets: list of port numbers).  Returns the named entries."""
    kind = op[0]
    snet = nets[op[1]]
    if kind == "learn":
        named = routes.named_by("learn", snet, dnets=op[3])
        routes.learn(snet, op[2], op[3])
    elif kind == "sadr":
        named = routes.named_by("learn", snet, dnets=(op[3],))
        routes.learn(snet, op[2], (op[3],))
    elif kind == "forget_router":
        named = routes.named_by("forget_router", snet, router=op[2])
        routes.forget_router(snet, op[2])
    elif kind == "forget_dnets":
        named = routes.named_by("forget_dnets", snet, dnets=op[2])
        routes.forget_dnets(snet, op[2])
    elif kind == "forget_router_dnets":
        named = routes.named_by("forget_router_dnets", snet, router=op[2], dnets=op[3])
        routes.forget_router_dnets(snet, op[2], op[3])
    elif kind == "renumber":
        named = routes.named_by("renumber", snet, new=op[2])
        routes.renumber(snet, op[2])
        nets[op[1]] = op[2]
    else:
        raise ValueError(kind)
    return named


def dlist(u, ds):
    ds = sorted(ds)
    return ds[::-1] if u["descending"] else ds


def addr(mac_hex):
    return LocalStation(bytes.fromhex(mac_hex))


# ----------------------------------------------------------------------------- reading the real cache

def mac_of(address):
    a = getattr(address, "addrAddr", None)
    return bytes(a).hex() if isinstance(a, (bytes, bytearray)) else repr(address)


_GRID = {}


def grid(u):
    g = _GRID.get(u["name"])
    if g is None:
        keys = [(s, d) for s in list(u["pool"]) + [None] for d in list(u["dnets"]) + [EXTRA_DNET]]
        g = _GRID[u["name"]] = (keys, frozenset(keys))
    return g


def real_table(cache, u):
    """What the cache answers: get_router_info over the whole grid (+ any key the path index holds outside it)."""
    keys, inside = grid(u)
    outside = [k for k in cache.path_info if k not in inside]
    if outside:
        keys = keys + sorted(outside, key=lambda k: (net_key(k[0]), k[1]))
    out = {}
    lookup = cache.get_router_info
    for k in keys:
        ri = lookup(k[0], k[1])
        if ri is not None:
            out[k] = mac_of(ri.address)
    return out


def scalar(v):
    if v is None or isinstance(v, (bool, int, float, str)):
        return v
    if isinstance(v, (bytes, bytearray)):
        return bytes(v).hex()
    if isinstance(v, dict):
        return tuple(sorted(((scalar(k), scalar(x)) for k, x in v.items()), key=repr))
    if isinstance(v, (list, tuple)):
        return tuple(scalar(x) for x in v)
    if isinstance(v, (set, frozenset)):
        return tuple(sorted((scalar(x) for x in v), key=repr))
    if hasattr(v, "addrType"):
        return ("addr", v.addrType, v.addrNet, mac_of(v))
    return type(v).__name__


def record_canon(rec):
    return tuple(sorted((k, scalar(v)) for k, v in vars(rec).items() if SNET_IS_READ or k != "snet"))


def cache_canon(cache):
    routers = []
    for s in sorted(cache.routers, key=net_key):
        recs = sorted(((mac_of(a), record_canon(rec)) for a, rec in cache.routers[s].items()))
        routers.append((s, tuple(recs)))
    paths = []
    for (s, d) in sorted(cache.path_info, key=lambda k: (net_key(k[0]), k[1])):
        rec = cache.path_info[(s, d)]
        filed = cache.routers.get(s, {}).get(rec.address) is rec
        paths.append((s, d, mac_of(rec.address), filed, None if filed else record_canon(rec)))
    other = tuple(sorted((k, scalar(v)) for k, v in vars(cache).items() if k not in ("routers", "path_info")))
    return (tuple(routers), tuple(paths), other)


def judge(cache, routes, before, named, u):
    """I3, I1, I2 on the real cache after an operation.  Returns (kind, detail) of the first broken one or None."""
    after = real_table(cache, u)
    # I3: nothing outside what the operation names may change
    if before is not None:
        changed = {k for k in set(before) | set(after) if before.get(k) != after.get(k)}
        outside = sorted(changed - set(named), key=lambda k: (net_key(k[0]), k[1]))
        if outside:
            k = outside[0]
            return "changed-entry-it-does-not-name", {"entry": k, "before": before.get(k), "after": after.get(k), "all": outside}
    # I1: the lookups are exactly the reference
    want = routes.table
    for k in sorted(set(want) | set(after), key=lambda k: (net_key(k[0]), k[1])):
        g, w = after.get(k), want.get(k)
        if g == w:
            continue
        if w is None:
            return "lookup:stale-route", {"entry": k, "cache": g, "reference": None}
        if g is None:
            return "lookup:route-lost", {"entry": k, "cache": None, "reference": w}
        return "lookup:wrong-router", {"entry": k, "cache": g, "reference": w}
    # I2: the two indexes agree
    for s in sorted(cache.routers, key=net_key):
        for a, rec in sorted(cache.routers[s].items(), key=lambda kv: mac_of(kv[0])):
            if rec.address != a:
                return "index:record-filed-under-another-address", {"snet": s, "key": mac_of(a), "record": mac_of(rec.address)}
            if not rec.dnets:
                return "index:empty-router-record", {"snet": s, "router": mac_of(a)}
            for d in sorted(rec.dnets):
                if cache.path_info.get((s, d)) is not rec:
                    other = cache.path_info.get((s, d))
                    return "index:credited-destination-without-path-to-its-router", {
                        "snet": s, "router": mac_of(a), "dnet": d, "path_leads_to": None if other is None else mac_of(other.address)}
    for (s, d) in sorted(cache.path_info, key=lambda k: (net_key(k[0]), k[1])):
        rec = cache.path_info[(s, d)]
        if cache.routers.get(s, {}).get(rec.address) is not rec:
            return "index:dangling-path", {"entry": (s, d), "leads_to": mac_of(rec.address),
                                           "routers_on_snet": sorted(mac_of(a) for a in cache.routers.get(s, {}))}
        if d not in rec.dnets:
            return "index:path-not-credited-to-its-router", {"entry": (s, d), "router": mac_of(rec.address), "credited": sorted(rec.dnets)}
    return None


# ----------------------------------------------------------------------------- part A: the cache alone

def a_apply(cache, nets, op, u):
    kind = op[0]
    snet = nets[op[1]]
    if kind == "learn":
        cache.update_router_info(snet, addr(op[2]), dlist(u, op[3]))
    elif kind == "forget_router":
        cache.delete_router_info(snet, addr(op[2]))
    elif kind == "forget_dnets":
        cache.delete_router_info(snet, dnets=dlist(u, op[2]))
    elif kind == "forget_router_dnets":
        cache.delete_router_info(snet, addr(op[2]), dlist(u, op[3]))
    elif kind == "renumber":
        cache.update_source_network(snet, op[2])
    else:
        raise ValueError(kind)


def a_run(u, hist, check=True):
    """Replay a history on a fresh real cache and on the reference; judge the last operation.
    Returns (bad or None, canonical state, RouteRef, port numbers, op class of the last op)."""
    cache = RouterInfoCache()
    routes = RouteRef()
    nets = list(u["start"])
    real_nets = list(u["start"])
    bad = None
    cls = None
    for i, op in enumerate(hist):
        last = i == len(hist) - 1
        before = real_table(cache, u) if (last and check) else None
        if last:
            cls = op_class(op, routes, nets)
        named = ref_apply(routes, nets, op)
        try:
            a_apply(cache, real_nets, op, u)
        except Exception as err:
            if last and check:
                return ("raises-%s" % type(err).__name__, {"exception": "%s: %s" % (type(err).__name__, err)}), None, routes, nets, cls
            raise HarnessError("C19 part A: a prefix that was judged sound raised on replay (outcome depends on object identity?): %r %r" % (hist, err))
        if op[0] == "renumber":
            real_nets[op[1]] = op[2]
        if last and check:
            bad = judge(cache, routes, before, named, u)
    return bad, (tuple(nets), cache_canon(cache)), routes, nets, cls


def a_consequence(u, hist):
    """For a state whose lookups are still right but whose indexes disagree: the first single further operation
    after which the disagreement becomes visible to a caller (exception or a lookup that differs from the reference)."""
    _, _, routes, nets, _ = a_run(u, hist, check=False)
    for op in enabled_ops(u, routes, nets):
        h2 = hist + (op,)
        cache = RouterInfoCache()
        r2 = RouteRef()
        n2 = list(u["start"])
        rn = list(u["start"])
        try:
            for o in h2:
                ref_apply(r2, n2, o)
                a_apply(cache, rn, o, u)
                if o[0] == "renumber":
                    rn[o[1]] = o[2]
        except Exception as err:
            return {"then": op, "visible_as": "%s: %s" % (type(err).__name__, err)}
        got = real_table(cache, u)
        if got != r2.table:
            diff = sorted((k for k in set(got) | set(r2.table) if got.get(k) != r2.table.get(k)), key=lambda k: (net_key(k[0]), k[1]))
            k = diff[0]
            return {"then": op, "visible_as": "lookup%r answers %r, reference %r" % (k, got.get(k), r2.table.get(k))}
    return None


def a_expand(item, deadline):
    u, hists, last_level = item
    acc = Acc()
    nxt = {}
    explained = set()
    for hist in hists:
        if time.time() > deadline:
            acc.cap("part A[%s]: deadline inside frontier expansion" % u["name"])
            break
        _, _, routes, nets, _ = a_run(u, hist, check=False)
        for op in enabled_ops(u, routes, nets):
            h2 = hist + (op,)
            bad, canon, r2, _, cls = a_run(u, h2)
            acc.transitions += 1
            acc.evaluations += 1
            acc.traces += 1
            if bad is not None:
                sig = "%s:%s" % (cls, bad[0])
                acc.outcome("A:" + sig)
                detail = {"part": "A", "universe": u["name"], "history": h2, "broken": bad[0], "what": bad[1]}
                if a_run(u, h2)[0] != bad:
                    detail["note"] = "replays of this history differ: the outcome depends on object identity / set order"
                if bad[0].startswith("index:") and sig not in explained:
                    explained.add(sig)
                    detail["becomes_visible"] = a_consequence(u, h2)
                acc.fail(sig, detail, {"part": "A", "u": u, "hist": h2})
                continue
            acc.outcome("A:%s:%s" % (cls, "changes" if r2.table != routes.table or op[0] == "renumber" else "no-effect"))
            k = h64(("A", u["name"], canon))
            if k not in nxt:
                nxt[k] = None if last_level else h2
    acc.info["next"] = list(nxt.items())
    return acc


def bfs(acc, label, expand, make_item, root_key, depth, deadline):
    """Level-synchronous BFS over histories; `seen` lives in the parent, frontier chunks are expanded by the pool."""
    seen = {root_key}
    frontier = [()]
    closed = False
    reached = 0
    for d in range(1, depth + 1):
        last_level = d == depth
        shards = [make_item(c, last_level) for c in chunks(frontier, 64)]
        sub = run_shards(expand, shards, deadline)
        nxt = sub.info.pop("next", [])
        incomplete = bool(sub.caps)
        acc.merge(sub)
        new_frontier = []
        new_states = 0
        for k, h2 in nxt:
            if k not in seen:
                seen.add(k)
                new_states += 1
                if h2 is not None:
                    new_frontier.append(h2)
        reached = d
        if frontier:
            acc.sample({"part": label, "depth": d, "a_history_expanded_at_this_depth": list(frontier[0])})
        frontier = new_frontier
        acc.info["%s new states at depth %d" % (label, d)] = new_states
        if incomplete or time.time() > deadline:
            acc.cap("%s: deadline at depth %d (levels below are complete)" % (label, d))
            break
        if new_states == 0:
            closed = True
            break
    acc.max_depth = max(acc.max_depth, reached)
    for k in seen:
        acc.states.add(k)
        acc.keys.add(k)
    acc.info["%s states" % label] = len(seen)
    acc.info["%s depth reached" % label] = reached
    acc.info["%s closed (frontier emptied)" % label] = closed
    return closed


def part_a(acc, u, deadline):
    label = "A[%s]" % u["name"]
    _, canon, _, _, _ = a_run(u, ())
    root = h64(("A", u["name"], canon))
    return bfs(acc, label, a_expand, lambda c, last: (u, c, last), root, u["depth"], deadline)


# ----------------------------------------------------------------------------- part B: through the wire

VARIANTS = {
    # name: (number of port 0, number of port 1); port 0 is bound last and is the local adapter
    "local-configured/other-unknown": (1, None),
    "local-unknown/other-configured": (None, 2),
    "both-configured": (1, 2),
}
NODE_MACS = (b"\x01", b"\x02")
ANNOUNCER_MAC = b"\x0e"


class Sink(Client):
    def confirmation(self, pdu):
        pass


class AppSide(Client):
    """What sits above the network layer: sends the probes, swallows what is passed up."""

    def confirmation(self, apdu):
        pass


class Ctx(object):
    pass


class RecWire(Wire):
    """The controlled wire, additionally remembering every frame object put on a LAN (delivered or not)."""

    def __init__(self):
        Wire.__init__(self)
        self.frames = []

    def park(self, net, pdu):
        n = len(self.inflight)
        Wire.park(self, net, pdu)
        if len(self.inflight) != n + 1:
            raise HarnessError("C19 part B: the wire did not keep the frame in flight")
        self.frames.append(self.inflight[-1])


def b_build(variant, u):
    vclock.reset(0.0)
    ctx = Ctx()
    ctx.wire = RecWire()
    ctx.lans = [CtlNetwork(ctx.wire, "lan0"), CtlNetwork(ctx.wire, "lan1")]
    ctx.nsap = NetworkServiceAccessPoint()
    ctx.nse = NetworkServiceElement()
    bind(ctx.nse, ctx.nsap)
    ctx.app = AppSide()
    bind(ctx.app, ctx.nsap)
    nets = VARIANTS[variant]
    ctx.macs = node_macs(u)
    for p in (0, 1):
        if ctx.macs[p].hex() in routers_on(u, p):
            raise HarnessError("C19 part B: a router has the node's own MAC on the same LAN")
    ctx.nodes = [Node(LocalStation(ctx.macs[i]), ctx.lans[i]) for i in (0, 1)]
    # the adapter bound last with an address becomes the local one: port 0
    ctx.nsap.bind(ctx.nodes[1], nets[1], LocalStation(ctx.macs[1]))
    ctx.nsap.bind(ctx.nodes[0], nets[0], LocalStation(ctx.macs[0]))
    ctx.adapters = [ctx.nsap.adapters[nets[0]], ctx.nsap.adapters[nets[1]]]
    if ctx.nsap.local_adapter is not ctx.adapters[0]:
        raise HarnessError("C19 part B: port 0 is not the local adapter")
    # one tester station per LAN; it puts frames on the LAN under the MAC of whichever router speaks (a vlan
    # node with spoofing=True), so a broadcast is copied once per LAN instead of once per pretended router
    ctx.testers = []
    for p in (0, 1):
        st = Node(LocalStation(ANNOUNCER_MAC), ctx.lans[p], spoofing=True)
        bind(Sink(), st)
        ctx.testers.append(st)
    b_quiet(ctx)            # the node's own startup announcements
    return ctx


def b_quiet(ctx):
    """wire.flush() -- everything in flight is delivered FIFO until the LANs are quiet -- except that a frame the node
    itself put on a LAN is only taken off the wire: its sole receivers would be the tester stations, whose sinks ignore
    everything (the frame stays in wire.frames and wire.log, where the oracles read it)."""
    wire = ctx.wire
    vclock.settle()
    n = 0
    while wire.inflight:
        fr = wire.inflight[0]
        if mac_of(fr.src) == ctx.macs[ctx.lans.index(fr.net)].hex():
            wire.drop(0)
        else:
            wire.deliver(0)
            vclock.settle()
        n += 1
        if n > 100000:
            raise vclock.Livelock("more than %d frames in one quiescence" % n)


def b_send(ctx, port, mac_hex, octets, dest):
    ctx.testers[port].indication(PDU(octets, source=addr(mac_hex), destination=dest))
    b_quiet(ctx)


def b_apply(ctx, real_nets, op, u):
    kind = op[0]
    p = op[1]
    if kind == "learn":
        b_send(ctx, p, op[2], routeref.i_am_router_to_network(dlist(u, op[3])), LocalBroadcast())
    elif kind == "sadr":
        # a station (or router) on network op[3] is heard through router op[2]: the last hop carries SADR and no DADR
        flavour = sadr_flavour(op)
        me = LocalStation(ctx.macs[p])
        if flavour == "apdu":
            b_send(ctx, p, op[2], routeref.build_npdu(b"\x10\x08", snet=op[3], sadr=REMOTE_MAC), me)
        elif flavour == "who-is-router":
            # the router does not know the network asked for and passes the question on to its other LANs
            b_send(ctx, p, op[2], routeref.who_is_router_to_network(ASKED_DNET, snet=op[3], sadr=REMOTE_MAC), LocalBroadcast())
        elif flavour == "reject-message":
            # reason 1: "not directly connected to DNET and cannot find a router to it"
            b_send(ctx, p, op[2], routeref.reject_message_to_network(1, ASKED_DNET, snet=op[3], sadr=REMOTE_MAC), me)
        elif flavour == "init-routing-table-ack":
            b_send(ctx, p, op[2], routeref.initialize_routing_table_ack((), snet=op[3], sadr=REMOTE_MAC), me)
        elif flavour == "proprietary-message":
            b_send(ctx, p, op[2], routeref.proprietary_message(0x80, 0x0104, b"\x00", snet=op[3], sadr=REMOTE_MAC), me)
        else:
            raise ValueError(flavour)
    elif kind == "forget_router":
        ctx.nsap.delete_router_references(real_nets[p], addr(op[2]))
    elif kind == "forget_dnets":
        ctx.nsap.delete_router_references(real_nets[p], None, dlist(u, op[2]))
    elif kind == "forget_router_dnets":
        ctx.nsap.delete_router_references(real_nets[p], addr(op[2]), dlist(u, op[3]))
    elif kind == "renumber":
        b_send(ctx, p, ANNOUNCER_MAC.hex(), routeref.network_number_is(op[2], 0), LocalBroadcast())
        real_nets[p] = op[2]
    else:
        raise ValueError(kind)


def app_payload(tag):
    return APP_HEAD + bytes([tag & 0xFF])       # unconfirmed Who-Is-like request with a unique tail


def b_hand_over(ctx, dnet, broadcast, tag):
    """The application side hands one packet for dnet to the node (nothing is delivered on the LANs yet)."""
    apdu = UnconfirmedRequestPDU(8)
    apdu.put_data(app_payload(tag)[2:])
    apdu.pduDestination = RemoteBroadcast(dnet) if broadcast else RemoteStation(dnet, PROBE_MAC)
    ctx.app.request(apdu)
    vclock.settle()


def b_traffic(ctx, node, op, tag, frames, judge_it):
    """What the node put on its LANs during one operation of the history, as far as the application packets of the
    history are concerned.  The reference's list of held packets is updated from the observation in every case;
    the verdict (first broken rule or None) is only computed when judge_it.  Returns (bad, label)."""
    data, whois = {}, []
    bad = None
    for fr in frames:
        port = ctx.lans.index(fr.net)
        if mac_of(fr.src) != ctx.macs[port].hex():
            continue                                    # put there by the tester
        n = routeref.parse_npdu(fr.data)
        if n is None:
            if bad is None and judge_it:
                bad = ("emits-malformed-npdu", {"frame": fr.data.hex()})
            continue
        dst = "*" if fr.dst.addrType == 1 else mac_of(fr.dst)
        pl = n["payload"]
        if n["msg"] is None and len(pl) == 4 and pl[:3] == APP_HEAD and pl[3] >= SEND_TAG0:
            data.setdefault(pl[3], []).append((port, dst, n))
        elif n["msg"] == routeref.MSG_WHO_IS_ROUTER and len(pl) == 2:
            whois.append((port, dst, int.from_bytes(pl, "big")))
    expect = node.hand_over(op[1], tag) if op[0] == "send" else None
    released = 0
    for t in sorted(data):
        occ = data[t]
        if t not in node.tags:
            if bad is None and judge_it:
                bad = ("emits-application-packet-nobody-handed-over", {"tag": t, "data_frames": [(p, a) for p, a, _ in occ]})
            continue
        d = node.tags[t]
        hops = node.next_hops(d)
        info = {"dnet": d, "packet": t - SEND_TAG0, "reference_next_hops": hops, "data_frames": [(p, a) for p, a, _ in occ]}
        first = node.seen_on_wire(t)
        released += 1
        if bad is not None or not judge_it:
            continue
        port, dst, n = occ[0]
        # the packet of this very operation, handed over while a path was known, was never held
        what = "traffic" if (t == tag and expect == "forward") else "held-traffic"
        if not first or len(occ) > 1:
            bad = (what + "-sent-more-than-once", info)
        elif not hops:
            bad = (what + "-sent-via-router-the-reference-does-not-know", info)
        elif (port, dst) not in hops:
            bad = (what + ("-sent-on-the-wrong-port" if dst in [h[1] for h in hops] else "-sent-to-wrong-next-hop"), info)
        elif n["dnet"] != d or n["dadr"] != PROBE_MAC:
            bad = (what + "-destination-address-altered", dict(info, dnet_on_wire=n["dnet"], dadr_on_wire=(n["dadr"] or b"").hex()))
    label = None
    if op[0] == "send":
        d = op[1]
        label = expect if expect == "forward" else "held" + ("+who-is-router" if any(w[1] == "*" and w[2] == d for w in whois) else "")
        if bad is None and judge_it:
            info = {"dnet": d, "packet": tag - SEND_TAG0, "reference_next_hops": node.next_hops(d), "who_is_router": whois}
            if expect == "forward" and tag not in data:
                bad = ("not-sent-although-a-router-is-known", info)
            elif expect == "hold+ask" and not any(w[1] == "*" and w[2] == d for w in whois):
                bad = ("no-who-is-router-for-unknown-destination", info)
    elif op[0] in ("learn", "sadr"):
        # the operation names these destinations as reachable through the speaking router: nothing may be held for them now
        named = op[3] if op[0] == "learn" else (op[3],)
        if released:
            label = "releases-held-traffic"
        if bad is None and judge_it:
            for d in sorted(named):
                if node.held(d):
                    bad = ("held-traffic-not-released", {"dnet": d, "held_packets": [t - SEND_TAG0 for t in node.held(d)],
                                                         "reference_next_hops": node.next_hops(d)})
                    break
    return bad, label


def b_ref_apply(node, op):
    if op[0] == "renumber":
        nets = [q.net for q in node.ports]
        named = node.routes.named_by("renumber", nets[op[1]], new=op[2])
        node.network_number_is(op[1], op[2], 0)
        return named
    nets = [q.net for q in node.ports]
    return ref_apply(node.routes, nets, op)


def b_probe(ctx, node, dnet, broadcast, serial, asked_before=False):
    """Send one packet from the application side towards dnet and judge what the node puts on its LANs.
    asked_before: an earlier probe to this unknown destination already made the node ask (a second
    Who-Is-Router is then not required, the packet joins the waiting list)."""
    payload = app_payload(serial)
    if serial >= SEND_TAG0:
        raise HarnessError("C19 part B: more probes than probe tags")
    try:
        b_hand_over(ctx, dnet, broadcast, serial)
    except Exception as err:
        return ("probe:raises-%s" % type(err).__name__, {"dnet": dnet, "exception": str(err)}), []
    frames = list(ctx.wire.inflight)
    b_quiet(ctx)
    data, whois, obs = [], [], []
    for fr in frames:
        port = ctx.lans.index(fr.net)
        dst = "*" if fr.dst.addrType == 1 else mac_of(fr.dst)
        obs.append((port, dst, fr.data.hex()))
        n = routeref.parse_npdu(fr.data)
        if n is None:
            return ("probe:emits-malformed-npdu", {"dnet": dnet, "frame": fr.data.hex()}), obs
        if n["msg"] is None and n["payload"] == payload:
            data.append((port, dst, n))
        elif n["msg"] == routeref.MSG_WHO_IS_ROUTER and n["payload"] == dnet.to_bytes(2, "big"):
            whois.append((port, dst))
    hops = node.next_hops(dnet)
    info = {"dnet": dnet, "reference_next_hops": hops, "data_frames": [(p, d) for p, d, _ in data], "who_is_router": whois}
    if hops:
        if not data:
            if node.held(dnet):
                # only reachable behind a reported "held-traffic-not-released": the later packet joined the held ones
                return ("probe:later-traffic-queued-behind-held-traffic", dict(info, held_packets=[t - SEND_TAG0 for t in node.held(dnet)])), obs
            return ("probe:not-sent-although-a-router-is-known", info), obs
        if len(data) > 1:
            return ("probe:sent-more-than-once", info), obs
        port, dst, n = data[0]
        if (port, dst) not in hops:
            if dst in [h[1] for h in hops]:
                return ("probe:sent-on-the-wrong-port", info), obs
            return ("probe:sent-to-wrong-next-hop", info), obs
        want_dadr = b"" if broadcast else PROBE_MAC
        if n["dnet"] != dnet or n["dadr"] != want_dadr:
            return ("probe:destination-address-altered", dict(info, dnet_on_wire=n["dnet"], dadr_on_wire=(n["dadr"] or b"").hex())), obs
    else:
        if data:
            return ("probe:sent-via-router-the-reference-does-not-know", info), obs
        if not asked_before and not any(dst == "*" for _, dst in whois):
            return ("probe:no-who-is-router-for-unknown-destination", info), obs
    return None, obs


def b_run(variant, u, hist, probes=True, broadcast_probes=False, probed=()):
    """Fresh node, replay the history as frames / API calls, judge the last operation, then probe.
    probed: hashes of canonical states this shard has already probed (a state is probed at its first visit in every shard,
    a later transition into the same state only has its last operation judged -- unless the history contains traffic sent
    over a known path: then it is probed at every visit).
    Returns (bad or None, canonical state, NodeRef, op class, observation trace, swallowed)."""
    ctx = b_build(variant, u)
    node = NodeRef(VARIANTS[variant])
    real_nets = list(VARIANTS[variant])
    cache = ctx.nsap.router_info_cache
    bad = None
    cls = None
    obs = []
    for i, op in enumerate(hist):
        last = i == len(hist) - 1
        before = real_table(cache, u) if last else None
        if last:
            cls = op_class(op, node.routes, [q.net for q in node.ports])
        named = set() if op[0] == "send" else b_ref_apply(node, op)
        n_err = len(ctx.wire.errors)
        mark = len(ctx.wire.frames)
        try:
            if op[0] == "send":
                b_hand_over(ctx, op[1], False, SEND_TAG0 + i)
                b_quiet(ctx)
            else:
                b_apply(ctx, real_nets, op, u)
        except Exception as err:
            if last:
                return ("raises-%s" % type(err).__name__, {"exception": "%s: %s" % (type(err).__name__, err)}), None, node, cls, obs, list(ctx.wire.errors)
            raise HarnessError("C19 part B: a prefix that was judged sound raised on replay: %r %r" % (hist, err))
        tbad, tlabel = b_traffic(ctx, node, op, SEND_TAG0 + i, ctx.wire.frames[mark:], last)
        if last:
            bad = judge(cache, node.routes, before, named, u)
            if bad is None:
                got = [(a.adapterNet, a.adapterNetConfigured) for a in ctx.adapters]
                want = [(q.net, q.configured) for q in node.ports]
                if [g[0] for g in got] != [w[0] for w in want] or sorted(ctx.nsap.adapters, key=net_key) != sorted((w[0] for w in want), key=net_key):
                    bad = ("port-number-not-adopted", {"ports": got, "reference": want, "adapter_keys": sorted(ctx.nsap.adapters, key=net_key)})
            if bad is None:
                bad = tbad
            if bad is not None and len(ctx.wire.errors) > n_err:
                bad = (bad[0] + "+swallowed-" + ctx.wire.errors[n_err].split(":")[0], dict(bad[1], swallowed=ctx.wire.errors[n_err:]))
            if tlabel is not None:
                obs.append(("traffic", tlabel))
    obs.append(("table", sorted(real_table(cache, u).items(), key=repr)))
    canon = (variant,
             tuple((a.adapterNet, a.adapterNetConfigured, mac_of(a.adapterAddr)) for a in ctx.nsap.adapters.values()),
             tuple(ctx.adapters.index(a) for a in ctx.nsap.adapters.values()),
             # what the node holds back per destination network (how many packets), and what the reference says is held
             tuple(sorted(((k, len(v)) for k, v in ctx.nsap.pending_nets.items()), key=repr)),
             node.held_counts(),
             # the destination networks the application has sent traffic to over a known path (an account of the history:
             # nothing in the node is supposed to change by it, so nothing read from the node could keep these apart)
             node.sent_over_known_path(),
             cache_canon(cache),
             # over-approximation on purpose: every scalar attribute of the adapters, the access point and the cache
             # records, so that a field added by a change to the code (a memo, a counter) keeps states apart
             tuple(generic_canon(a, skip=GENERIC_SKIP) for a in ctx.nsap.adapters.values()),
             generic_canon(cache, skip=GENERIC_SKIP))
    # a history in which traffic already went out over a known path is probed at every visit: whatever the node remembers
    # from having sent is exactly what no canonical form of the tables can show, so "same state, probed before" does not hold
    if bad is None and probes and (not probed or node.sent_known or h64(("B", u["name"], canon)) not in probed):
        serial = 0
        for broadcast in ((False, True) if broadcast_probes else (False,)):
            for d in list(u["dnets"]) + [EXTRA_DNET]:
                serial += 1
                pbad, pobs = b_probe(ctx, node, d, broadcast, serial, asked_before=broadcast or bool(node.held(d)))
                obs.append(("probe", d, broadcast, pobs))
                if pbad is not None and bad is None:
                    bad = pbad
    ctx.swallowed = list(ctx.wire.errors) + ["%s: %s" % s for s in vclock.swallowed]
    obs.append(("swallowed", ctx.swallowed))
    return bad, canon, node, cls, obs, ctx.swallowed


def b_sends(u, node):
    """Application traffic as part of the history.  One packet to a destination network the reference knows no path to
    (it will be held), as long as fewer than u['held'] packets are held in all.  In universes with `known_sends` also one
    packet to a destination network with a known path: it leaves at once and nothing the statement talks about changes,
    but it happened BEFORE what the history learns or forgets next, and the traffic sent after that (later sends, the
    probes) still has to follow the then current knowledge; the state keeps the account of which networks were sent to.
    (Not offered while the reference says packets for that network are still held: only behind an already reported
    held-traffic failure.)"""
    ops = []
    if u.get("known_sends"):
        ops += [("send", d) for d in u["dnets"] if node.next_hops(d) and not node.held(d)]
    if node.held_total() < u.get("held", 0):
        ops += [("send", d) for d in u["dnets"] if not node.next_hops(d)]
    return ops


def b_expand(item, deadline):
    variant, u, hists, last_level, bprobes = item
    acc = Acc()
    nxt = {}
    probed = set()
    checked_twice = 0
    held_fails = 0
    for hist in hists:
        if time.time() > deadline:
            acc.cap("part B[%s/%s]: deadline inside frontier expansion" % (variant, u["name"]))
            break
        _, _, node, _, _, _ = b_run(variant, u, hist, probes=False)
        nets = [q.net for q in node.ports]
        for op in b_sends(u, node) + enabled_ops(u, node.routes, nets, wire=True, can_renumber=node.can_renumber):
            h2 = hist + (op,)
            bad, canon, n2, cls, obs, swallowed = b_run(variant, u, h2, broadcast_probes=bprobes, probed=probed)
            acc.transitions += len(h2) + sum(1 for o in obs if o[0] == "probe")
            acc.evaluations += 1
            acc.traces += 1
            for s in swallowed:
                acc.swallowed[s.split(":")[0]] += 1
            if bad is not None and bad[0] in HELD_ONLY:
                held_fails += 1
            if checked_twice < 2 or (bad is not None and (bad[0] not in HELD_ONLY or held_fails <= 3)):
                # the first executions of every shard are replayed once more, every failing one twice more (of the failing
                # states that are expanded nevertheless -- there can be very many behind one defect -- the first three per shard)
                checked_twice += 1
                differs = False
                for _ in range(1 if bad is None else 2):
                    again = b_run(variant, u, h2, broadcast_probes=bprobes, probed=probed)
                    if (again[0], again[1], again[4]) != (bad, canon, obs):
                        differs = True
                        if bad is None and again[0] is not None:
                            bad, cls = again[0], again[3]
                if differs and bad is None:
                    raise HarnessError("C19 part B: history %r replayed differently although every replay satisfied the oracle" % (h2,))
                if differs:
                    # every replay is a genuine execution on fresh objects: the implementation itself is order dependent
                    # (e.g. it iterates a set of records hashed by id()); the failing execution is what is reported
                    bad = (bad[0], dict(bad[1], note="replays of this history differ: the outcome depends on object identity / set order"))
            if bad is not None:
                sig = bad[0] if bad[0].startswith("probe:") else "%s:%s" % (cls, bad[0])
                acc.outcome("B:" + sig)
                acc.fail(sig, {"part": "B", "node": variant, "universe": u["name"], "history": h2, "broken": bad[0], "what": bad[1]},
                         {"part": "B", "variant": variant, "u": u, "hist": h2, "bprobes": bprobes})
                if bad[0] not in HELD_ONLY or canon is None:
                    continue
                # the tables are the reference's, only held traffic is wrong: reported above, and expanded like a sound state
                acc.add_info("B failing states expanded nevertheless (only held traffic wrong)", 1)
            else:
                if op[0] == "send":
                    acc.outcome("B:%s:%s" % (cls, "+".join(e[1] for e in obs if e[0] == "traffic")))
                else:
                    acc.outcome("B:%s:%s" % (cls, "changes" if n2.routes.table != node.routes.table or op[0] == "renumber" else "no-effect"))
                    if op[0] == "sadr":
                        acc.outcome("B:routed frame with SADR (%s) judged" % sadr_flavour(op))
                    if ("traffic", "releases-held-traffic") in obs:
                        acc.outcome("B:%s:releases-held-traffic" % cls)
                for entry in obs:
                    if entry[0] == "probe":
                        kinds = sorted({"who-is-router" if routeref.parse_npdu(bytes.fromhex(f[2]))["msg"] == 0 else "data" for f in entry[3]})
                        acc.outcome("B:probe->%s" % "+".join(kinds or ["nothing"]))
            k = h64(("B", u["name"], canon))
            if bad is None:
                probed.add(k)
            if k not in nxt:
                nxt[k] = None if last_level else h2
    acc.info["next"] = list(nxt.items())
    return acc


def part_b(acc, variant, u, deadline, bprobes):
    label = "B[%s/%s]" % (variant, u["name"])
    _, canon, _, _, _, _ = b_run(variant, u, (), probes=False)
    root = h64(("B", u["name"], canon))
    # the empty history is a state too: probe it
    bad, _, _, _, _, _ = b_run(variant, u, (), broadcast_probes=bprobes)
    acc.evaluations += 1
    acc.traces += 1
    if bad is not None:
        acc.fail(bad[0], {"part": "B", "node": variant, "history": [], "broken": bad[0], "what": bad[1]},
                 {"part": "B", "variant": variant, "u": u, "hist": [], "bprobes": bprobes})
    return bfs(acc, label, b_expand, lambda c, last: (variant, u, c, last, bprobes), root, u["depth"], deadline)


# ----------------------------------------------------------------------------- entry points

def plans(tier, seed):
    if tier == "quick":
        a = [universe("2p-3r-4d-sets<=2", (1, 2), (1, 2, 3), 3, (10, 11, 12, 13), 2, seed, depth=4),
             universe("2p(1 unknown)-2r-3d-closure", (1, None), (1, 2, 3), 2, (10, 11, 12), None, seed, depth=40)]
        b = [(universe("wire-2r-1d-held<=2-sends-closure", (), (1, 2, 3), 2, (10,), None, seed, depth=40, held=2, sadr=SADR_ALL,
                       shared_macs=True, known_sends=True), False),
             (universe("wire-2r-2d-held<=2-closure", (), (1, 2, 3), 2, (10, 11), None, seed, depth=40, held=2,
                       variants=("both-configured",), sadr=SADR_ALL), False),
             (universe("wire-3r-3d-sets<=2", (), (1, 2, 3), 3, (10, 11, 12), 2, seed, depth=3, held=2, sadr=SADR_TWO,
                       shared_macs=True, known_sends=True), False)]
    else:
        a = [universe("2p(1 unknown)-2r-3d-closure", (1, None), (1, 2, 3), 2, (10, 11, 12), None, seed, depth=60),
             universe("2p-3r-3d-closure", (1, 2), (1, 2, 3), 3, (10, 11, 12), None, seed, depth=60),
             universe("2p-3r-4d-all-subsets", (1, 2), (1, 2, 3), 3, (10, 11, 12, 13), None, seed, depth=5)]
        b = [(universe("wire-3r-4d-all-subsets", (), (1, 2, 3), 3, (10, 11, 12, 13), None, seed, depth=3, held=2,
                       shared_macs=True, known_sends=True), True),
             (universe("wire-3r-1d-held<=2-sends-closure", (), (1, 2, 3), 3, (10,), None, seed, depth=60, held=2, sadr=SADR_ALL,
                       shared_macs=True, known_sends=True), False),
             (universe("wire-2r-2d-held<=2-closure", (), (1, 2, 3), 2, (10, 11), None, seed, depth=60, held=2, sadr=SADR_ALL), False),
             (universe("wire-2r-3d-closure", (), (1, 2, 3), 2, (10, 11, 12), None, seed, depth=60, held=0, sadr=SADR_CORE), False)]
    return a, b


def run(tier, seed, deadline):
    acc = Acc()
    vclock.install()
    a_plans, b_plans = plans(tier, seed)
    acc.info["RouterInfo.snet part of the state"] = SNET_IS_READ

    # determinism self-check of both drivers
    u0 = a_plans[0]
    r0 = u0["routers"]
    probe_hist = (("learn", 0, r0[0], (10, 11)), ("learn", 0, r0[1], (11,)), ("renumber", 0, 3), ("forget_router", 0, r0[0]))
    for n in range(1, len(probe_hist) + 1):
        x, y = a_run(u0, probe_hist[:n]), a_run(u0, probe_hist[:n])
        if (x[0], x[1]) != (y[0], y[1]):
            raise HarnessError("C19 part A: replay of one history diverged")
        if x[0] is not None:
            break           # a failing state: the search below reports it

    # simplest first: searches that run to closure (small universes), then the depth-bounded ones; every job gets an
    # equal share of what is left of the wall-clock budget, unused time rolls over to the later (larger) jobs
    jobs = [("A", None, u, None) for u in a_plans if u["depth"] >= 40] \
        + [("B", v, u, bp) for (u, bp) in b_plans if u["depth"] >= 40 for v in (u["variants"] or VARIANTS)] \
        + [("B", v, u, bp) for (u, bp) in b_plans if u["depth"] < 40 for v in (u["variants"] or VARIANTS)] \
        + [("A", None, u, None) for u in a_plans if u["depth"] < 40]
    all_closed = True
    for i, (part, variant, u, bp) in enumerate(jobs):
        t0 = time.time()
        remaining = deadline - t0
        sub_deadline = t0 + remaining / (len(jobs) - i)
        if part == "A":
            closed = part_a(acc, u, sub_deadline if i < len(jobs) - 1 else deadline)
        else:
            closed = part_b(acc, variant, u, sub_deadline if i < len(jobs) - 1 else deadline, bp)
        acc.info["%s[%s%s] wall seconds" % (part, "" if variant is None else variant + "/", u["name"])] = round(time.time() - t0, 1)
        if u["depth"] >= 40:
            all_closed = all_closed and closed
    acc.closed = all_closed
    return acc


def _tup(x):
    return tuple(_tup(i) for i in x) if isinstance(x, (list, tuple)) else x


def replay(case):
    vclock.install()
    hist = _tup(case["hist"])
    u = case["u"]
    if case["part"] == "A":
        bad, canon, routes, nets, cls = a_run(u, hist)
        text = "cache history=%r\n-> %s: %r\nreference table=%r" % (hist, cls, bad or "all invariants hold", sorted(routes.table.items(), key=repr))
        if bad is not None and bad[0].startswith("index:"):
            text += "\nbecomes visible: %r" % (a_consequence(u, hist),)
        return bad is None, text
    bad, canon, node, cls, obs, swallowed = b_run(case["variant"], u, hist, broadcast_probes=bool(case.get("bprobes")))
    text = "node=%s history=%r\n-> %s: %r\nreference table=%r ports=%r\nswallowed=%r" % (
        case["variant"], hist, cls, bad or "all invariants hold, probes follow the reference",
        sorted(node.routes.table.items(), key=repr), [(q.net, q.configured) for q in node.ports], swallowed)
    return bad is None, text
