"""C06 Routers deliver each packet once to exactly the addressed stations.

Part T (trees):   E3 over configurations x E1 over delivery order.  Every unlabeled tree of networks and routers
                  (2..4 ports) inside the bound, every station population, every (source, destination kind,
                  destination), tables cold / warm / mixed, stations with and without a configured network number;
                  the real network layers of all stations and routers run on controlled LANs, the explorer decides
                  which LAN delivers next (FIFO + up to d deviations).  Oracle: reference forwarding model
                  (bv.refs.fwdref): who is handed the packet above the network layer (exactly once, nobody else),
                  which source address is shown, a reply to exactly that address reaches the originator and only
                  it; causal wire rules through an independent NPCI parser.
Part A (router with an application): one router of the tree also carries an application -- it is a router and a station
                  of its home network at the MAC of its home port: it is addressed, it receives that network's broadcasts
                  and the global ones (handed up *and* forwarded), it originates and answers like any other station.
Part L (late routers): the first request is handed down while no router is attached (the path query goes unanswered, the
                  packet waits); then all routers come up and announce themselves with the library's own code
                  (NetworkServiceElement.startup(), i_am_router_to_network(), or answers to a Who-Is-Router-To-Network
                  without a network number: lists of several networks from routers with 3+ ports); when that has come
                  to rest the same request is handed down again.  Both must arrive, exactly once each.
Part N (lost announcements): the LANs may lose an I-Am-Router-To-Network (nobody repeats one).  A station asks for a network
                  beyond a router (its packet waits for the path); when that has come to rest a station of the far side
                  originates traffic (which shows everybody it passes the way back, SNET/SADR); when that has come to rest
                  the first station repeats its request.  Whoever has been shown the way -- by an announcement or by routed
                  traffic -- must get its packets through, the waiting one and every later one, exactly once.
Part P (pairs):   two requests handed down back to back (same or different sources) on the small trees, so that
                  packets wait together for one path and discoveries run into each other.
Part H (hop count): stations' LAN ports emit crafted NPDUs with initial hop count 0..3.
Part R (cycles):  rings of 3 and 4 networks (with and without a tail network, so that a broadcast really circles
                  until its hop count is used up): quiescence inside the frame bound, hop count lowered by one per
                  router, nothing forwarded at 0.
"""
import os
import time

import bv  # noqa: F401
from bv.engine import vclock, explorer
from bv.engine.acc import Acc
from bv.engine.pool import run_shards, HarnessError
from bv.refs import fwdref as F
from bv.stacks.netsys import NetSystem, run_execution, know_of

PROPERTY = "C06"
LEVEL = "model_checking"
BUDGET = {"quick": 130.0, "thorough": 1800.0}
RULE = ("configurations: every unlabeled tree of N networks joined by routers with 2..4 ports (AHU-canonical enumeration), "
        "every vector of stations per network up to tree automorphism, optionally one (router, home port) up to automorphism "
        "carrying an application, table mode (including routers that come up after the first request and announce lists of "
        "several networks), population mode (who knows its network number), reply timing; inputs: every (source station, destination) with destination in {each other station in "
        "local and/or net:mac form, an unused MAC of every network, local broadcast, remote broadcast to every network, "
        "to a network that does not exist, global broadcast}, and on the small trees every ordered pair of routed requests; "
        "histories: every order in which the LANs deliver their oldest frame that departs from global FIFO at most d times "
        "(each LAN keeps its own order); in the lost-announcement part a deviation is also the loss of one "
        "I-Am-Router-To-Network frame, and the inputs are (request of a station for a network beyond a router, then a routed "
        "request of a station of the far side, then the first request again), each handed down when the network has come to rest.  Every execution runs the real network layers to quiescence on fresh objects and "
        "is judged against the reference; a case is distinct by (configuration, requests, choice sequence); states are "
        "canonical snapshots (routing tables, parked packets, frames in flight per LAN, what was handed up) after every "
        "delivery.")
ASSUMPTIONS = [
    "single thread; virtual clock; the vlan LANs deliver only what the explorer releases; one LAN never reorders its own frames",
    "every recipient of a request answers it (at once, or after the request has come to rest) to exactly the source address "
    "it was shown",
    "at most one router of a topology carries an application (parts P, H, R: none); its application is a station of the "
    "network of its home port (bound last, so that it is the NSAP's local adapter), at that port's MAC, and knows its network "
    "number; all ports of a router are bound with an address; a failure whose originator is a router's application carries "
    "the signature prefix 'router-app-originates:' (one known finding of the tree as it stands is keyed on it, see "
    "known_findings.json); what such an application is *handed* (as addressee, as station of a broadcast's target network) and "
    "what the router forwards meanwhile carries the ordinary signatures",
    "late routers: all routers come up together after the first wave of traffic has come to rest, the order in which their "
    "announcements are delivered is the explorer's; a packet that waits for a path has to be sent on when an "
    "I-Am-Router-To-Network naming its network is heard, whether that is the answer to the node's own query or an "
    "announcement; a global broadcast sent while no router is attached is a broadcast on the sender's network; with "
    "'lask' (Who-Is-Router-To-Network without a network number, answered with the directly connected networks only) "
    "delivery is required for networks at most one router away and permitted beyond",
    "lost announcements: only I-Am-Router-To-Network frames are lost (a loss is offered when the frame is the oldest in "
    "flight; when a frame is lost makes no difference); bacpypes never repeats a Who-Is-Router-To-Network, so in an execution "
    "with a loss a routed request has to arrive only if its originator has been shown the way to the target network by what "
    "its LAN really delivered to it -- an I-Am-Router-To-Network naming the network, or a routed frame whose SNET is that "
    "network (in a tree every router on the way back has forwarded that very frame) --, otherwise it may wait for ever "
    "(counted, not judged); everything else (exactly once, nobody else, source shown, replies) is judged as always",
    "a station that does not know its own network number addresses its own network in local form only (DESIGN.md scope decision)",
    "warm tables are what the real startup announcements teach (learned once per configuration through the real handlers, "
    "checked equal, then written by the same calls); 'rwarm' empties the stations' tables afterwards, 'rcold' the routers' "
    "(routers restarted); cyclic topologies get shortest-path tables written directly because I-Am-Router announcements "
    "circulate for ever in a ring, and there a table may point back through the arrival LAN (reported, not judged)",
    "topologies larger than the bound, rings with routers of 3+ ports and discovery of non-existent networks in a ring are not covered",
    "the first hop count (255) is reported, only its change per router is judged; at initial hop count h == number of routers "
    "on the path both readings of clause 6.5.4 are accepted; a router may hold a packet while it looks for the path",
]
BOUNDS = {
    "quick": "trees of 2..4 networks, 1..2 stations per network, tables cold/warm/rwarm/rcold, all stations knowing or not "
             "knowing their network number, immediate replies, d<=1; a router with an application at every (router, home port) "
             "up to symmetry on trees of 2..3 networks with at most one network of 2 stations and of 4 networks with one station "
             "each, tables warm/cold/rcold, d<=1; late routers (startup / i_am_router_to_network / Who-Is-Router without number) on "
             "the same populations, d<=1 (i_am_router_to_network at 4 networks: d=0); "
             "lost announcements (tables cold): trees of 2..3 networks with one station each, any far station and routed request, "
             "one loss or one delivery out of turn; trees of 2..3 networks with one network of 2 stations and of 4 networks with "
             "one station each, far traffic that comes past the originator, FIFO with at most one loss; "
             "pairs on trees of 2..3 networks with one station each; "
             "crafted hop counts 0..3 on the 4-network shapes; rings of 3 and 4 (+tail), d<=1 (d=0 where a broadcast circles)",
    "thorough": "trees of 2..5 networks (d<=2 up to 4 networks, d<=1 at 5 networks with at most 7 stations), one network with 3 "
                "stations up to 4 networks, mixed and address-less populations (d<=1), immediate and late replies; a router with an "
                "application on all trees of 2..4 networks with 1..2 stations per network, tables cold/warm/rwarm/rcold (d<=2 with one "
                "station each, else d<=1); late routers on all trees of 2..4 networks with 1..2 stations per network (d<=1, d<=2 up to "
                "3 networks with one station each); lost announcements (tables cold and rwarm, any far station and routed request): "
                "trees of 2..3 networks with at most one network of 2 stations, losses + deliveries out of turn <= 2, "
                "4 networks with one station each <= 1; pairs on "
                "trees of 2..3 networks (d<=2 with one station each) and the 4-network shapes with one station each; crafted "
                "hop counts 0..3 on all shapes; rings of 3 and 4 (+tail) d<=2 (d<=1 where a broadcast circles)",
}

ABSENT_NET = 60001
REPLY_ALLOWANCE = 100       # frames of the (at most one per station) replies, on top of the bound for the packet itself
TAIL = bytes([0x00, 0xFF, 0x55, 0x10, 0x08, 0x01, 0x20, 0xAA])       # octets that look like headers on purpose
CODES = {"u": 1, "ua": 2, "lb": 3, "rb": 4, "gb": 5, "xn": 6}

ROUTER_APP = "router-app-originates:"      # signature prefix: the originator of the failing packet is a router's own application
# Requests and replies that a router's own application originates are enumerated and evaluated like everybody else's.
# On the tree as it stands they fail for one reason (netservice.py: a packet of the local application that leaves through
# an adapter other than the local one carries no SADR, and a directly connected network on such an adapter is looked for
# through Who-Is-Router), which is listed in known_findings.json under this prefix.
JUDGE_ROUTER_APP_ORIGIN = True

REQ_APDU_HDR = bytes([0x10, 8])
RPL_APDU_HDR = bytes([0x10, 0])


def payload_of(idx, src, dest, hop=None):
    return b"REQ" + bytes([src, CODES[dest[0]], 0 if hop is None else hop + 1, idx]) + TAIL


def reply_of(rcpt, payload):
    return b"RPL" + bytes([rcpt]) + payload[3:]


# ----------------------------------------------------------------------------- enumeration

def knows(ref, know, k):
    """Does station k know its own network number?  (A router's application always does: routers are configured.)"""
    return k >= ref.n_plain or know_of(know, k) == "net"


def tree_scenarios(ref, know, src):
    """Every destination for source station src."""
    out = []
    sn = ref.stations[src][0]
    kn = knows(ref, know, src)
    for r in range(len(ref.stations)):
        if r == src:
            continue
        if ref.stations[r][0] == sn:
            out.append(("u", r, "local"))
            if kn:
                out.append(("u", r, "remote"))
        else:
            out.append(("u", r, "remote"))
    out.append(("lb",))
    for ni in range(len(ref.nets)):
        if ni != sn or kn:
            out.append(("rb", ni))
    out.append(("gb",))
    for ni in range(len(ref.nets)):
        mac = ref.free_mac(ni)
        if ni == sn:
            out.append(("ua", ni, mac, "local"))
            if kn:
                out.append(("ua", ni, mac, "remote"))
        else:
            out.append(("ua", ni, mac, "remote"))
    out.append(("xn", ABSENT_NET))
    return out


def routed_scenarios(ref, src):
    """Destinations beyond at least one router (and the global broadcast)."""
    out = []
    sn = ref.stations[src][0]
    for r in range(len(ref.stations)):
        if ref.stations[r][0] != sn:
            out.append(("u", r, "remote"))
    for ni in range(len(ref.nets)):
        if ni != sn:
            out.append(("rb", ni))
    out.append(("gb",))
    return out


def loss_scenarios(ref, src, wide):
    """(first request of src, far station, its request): src asks for a network beyond a router; a station of that
    network (wide: any other station) then originates traffic (narrow: traffic that comes past src -- a unicast to it,
    a broadcast to its network, a global broadcast; wide: any routed request); then src repeats its request."""
    out = []
    sn = ref.stations[src][0]
    for d1 in routed_scenarios(ref, src):
        if d1[0] == "gb":
            continue            # needs no path
        tn = ref.target_nets(src, d1)[0]
        for p in range(len(ref.stations)):
            if p == src or (not wide and ref.stations[p][0] != tn):
                continue
            for d2 in routed_scenarios(ref, p):
                if wide or d2[0] == "gb" or (d2[0] == "u" and d2[1] == src) or (d2[0] == "rb" and d2[1] == sn):
                    out.append((d1, p, d2))
    return out


def plan(tier, seed):
    items = []
    quick = (tier == "quick")
    nmax = 4 if quick else 5
    shapes = F.tree_shapes(2, nmax)
    caches = ("warm", "cold", "rwarm", "rcold")
    # T
    for (n, routers) in shapes:
        vecs = F.station_vectors(n, routers, one_big=None if (quick or n > 4) else 3)
        for v in vecs:
            if n == 5 and sum(v) > 7:
                continue
            topo = F.concrete(n, routers, v, seed, F.shape_label(n, routers, v))
            big = max(v) > 2
            if quick:
                modes = [("K", "now", 1), ("U", "now", 1)]
            elif n == 5:
                modes = [("K", "now", 1), ("U", "now", 1)]
            elif big:
                modes = [("K", "now", 1), ("U", "now", 1), ("M0", "now", 1)]
            else:
                modes = [("K", "now", 2), ("U", "now", 2), ("K", "late", 2), ("U", "late", 2),
                         ("M0", "now", 1), ("M1", "now", 1), ("B", "now", 1), ("M0", "late", 1)]
            for cache in caches:
                for (know, reply, d) in modes:
                    for src in range(sum(v)):
                        items.append(("tree", topo, cache, know, reply, d, src))
            # stations that learn their network number after they learned their routes
            if n <= 4 and not big:
                for src in range(sum(v)):
                    items.append(("tree", topo, "nwarm", "U", "now", 1, src))
    # A: one router of the tree carries an application (it is a router and a station of its home network)
    for (n, routers) in shapes:
        if n > 4:
            continue
        for v in F.station_vectors(n, routers):
            if quick and sum(v) > (n + 1 if n <= 3 else n):
                continue
            for (j, h) in F.app_placements(n, routers, v):
                topo = F.concrete(n, routers, v, seed, F.shape_label(n, routers, v) + ":app%d.%d" % (j, h), apps={j: h})
                for cache in (("warm", "cold", "rcold") if quick else caches):
                    for know in ("K", "U"):
                        for src in range(sum(v) + 1):
                            items.append(("tree", topo, cache, know, "now", 1 if (quick or sum(v) > n) else 2, src))
    # L: the routers come up after the first request was handed down
    for (n, routers) in shapes:
        if n > 4:
            continue
        for v in F.station_vectors(n, routers):
            if quick and sum(v) > (n + 1 if n <= 3 else n):
                continue
            topo = F.concrete(n, routers, v, seed, F.shape_label(n, routers, v))
            for cache in ("late", "lcall", "lask"):
                if quick and cache == "lcall" and n == 4:
                    d = 0       # the same frames as 'late' come from another entry point of the library
                elif not quick and n <= 3 and sum(v) == n:
                    d = 2
                else:
                    d = 1
                for know in ("K", "U"):
                    for src in range(sum(v)):
                        items.append(("tree", topo, cache, know, "now", d, src))
    # N: an I-Am-Router-To-Network may be lost; traffic from the far side shows the way instead
    for (n, routers) in shapes:
        if n > 4:
            continue
        for v in F.station_vectors(n, routers):
            if sum(v) > (n + 1 if n <= 3 else n):
                continue
            topo = F.concrete(n, routers, v, seed, F.shape_label(n, routers, v))
            # (deviations, cost of a delivery out of turn, any far traffic)
            if quick:
                # up to 3 networks with one station each: one lost announcement or one delivery out of turn, any far traffic;
                # otherwise FIFO with one lost announcement and far traffic that comes past the originator
                how = (1, 1, True) if (n <= 3 and sum(v) == n) else (1, 99, False)
            else:
                how = (2, 1, True) if n <= 3 else (1, 1, True)
            for cache in ("cold",) if quick else ("cold", "rwarm"):
                for know in ("K", "U"):
                    for src in range(sum(v)):
                        items.append(("loss", topo, cache, know, "now", how, src))
    # P
    for (n, routers) in shapes:
        if n > (3 if quick else 4):
            continue
        for v in F.station_vectors(n, routers):
            if quick and sum(v) > n:
                continue
            if not quick and sum(v) > (n + 1 if n <= 3 else n):
                continue
            topo = F.concrete(n, routers, v, seed, F.shape_label(n, routers, v))
            d = 1 if (quick or sum(v) > n or n == 4) else 2
            for cache in ("cold", "rwarm", "warm") if n <= 3 else ("cold", "rwarm"):
                for know in ("K", "U"):
                    for src in range(sum(v)):
                        items.append(("pair", topo, cache, know, "now", d, src))
    # H
    for (n, routers) in shapes:
        if quick and n < 4:
            continue
        for v in F.station_vectors(n, routers, counts=(1,) if quick else (1, 2)):
            if not quick and sum(v) > n + 1:
                continue
            topo = F.concrete(n, routers, v, seed, F.shape_label(n, routers, v))
            for know in ("K", "U"):
                for src in range(sum(v)):
                    items.append(("craft", topo, know, 1 if quick or n == 5 else 2, src))
    # R
    for n in (3, 4):
        for tail in (False, True):
            for v in ((1,) * n, (2,) + (1,) * (n - 1)) if not quick else ((1,) * n,):
                topo = F.ring(n, v, seed, tail)
                for src in range(len(topo["stations"])):
                    items.append(("ring", topo, n, 1 if quick else 2, src))
    # simplest first across all parts (stable): when a loaded machine hits the deadline the largest topologies are cut
    items.sort(key=lambda it: (len(it[1]["nets"]), len(it[1]["stations"])))
    return items


# ----------------------------------------------------------------------------- judging

def _mac(src_str):
    try:
        return int(src_str)
    except ValueError:
        return None


def _show(f):
    n = f["n"]
    return {"serial": f["serial"], "net": f["net"], "src": f["src"], "dst": f["dst"], "dnet": n.get("dnet"),
            "dadr": n.get("dadr"), "snet": n.get("snet"), "sadr": n.get("sadr"), "hop": n.get("hop"),
            "netmsg": n.get("netmsg"), "apdu": f["apdu"]}


def wire_rules(sysm, ref, frames, problems, loop_free=True, originated=None):
    """Causal rules on every application-layer frame (requests and replies alike): a router emits such a frame only
    as the forwarded copy of a frame that was delivered to it -- normally the very frame whose delivery made it emit,
    otherwise (a router may hold a packet while it looks for the path) an earlier one with the same octets --, onto
    another LAN, only if that frame carried a DNET and a hop count above 0, and with the hop count lowered by exactly
    one (or without DNET on the final leg), carrying the same octets.  originated: {router: octets its own application
    handed down} -- those frames are not forwarded copies.  -> (frames forwarded, of those released after having been held)"""
    by_serial = {f["serial"]: f for f in frames}
    position = {serial: i for i, serial in enumerate(sysm.order)}
    forwarded = held = 0
    for c in frames:
        if c["apdu"] is None:
            continue
        own = ref.owner.get((c["net"], _mac(c["src"])))
        par = by_serial.get(c["parent"]) if c["parent"] is not None else None
        if own is None:
            problems.append(("wire:frame-from-unknown-mac", {"frame": _show(c)}))
            continue
        if own[0] == "S":
            if par is not None and par["apdu"] == c["apdu"]:
                problems.append(("wire:station-re-emitted-a-packet-it-received", {"frame": _show(c), "cause": _show(par)}))
            continue
        if originated and c["apdu"] in originated.get(own[1], ()):
            continue
        forwarded += 1
        if par is not None and par["apdu"] == c["apdu"]:
            cands = [par]
        else:
            # released later: any frame with these octets that had reached this router by then
            upto = position.get(c["parent"], -1)
            ports = dict(ref.routers[own[1]])
            cands = [f for f in frames if f["apdu"] == c["apdu"] and position.get(f["serial"], 1 << 30) <= upto
                     and f["net"] in ports and f["dst"] in ("*", str(ports[f["net"]]))
                     and ref.owner.get((f["net"], _mac(f["src"]))) != own]
            if not cands:
                # the delivery that made the router emit was itself a packet for forwarding: the copy is not the original
                altered = (par is not None and par["apdu"] is not None and par["n"].get("dnet") is not None
                           and par["net"] in ports and par["net"] != c["net"] and par["dst"] in ("*", str(ports[par["net"]])))
                if altered:
                    how = "emptied" if not c["apdu"] else ("truncated" if par["apdu"].startswith(c["apdu"]) else "altered")
                    problems.append(("wire:forwarded-copy-octets-%s" % how, {"frame": _show(c), "cause": _show(par)}))
                else:
                    problems.append(("wire:router-emitted-a-packet-it-had-not-received", {"frame": _show(c), "cause": _show(par) if par else None}))
                continue
            held += 1
        verdicts = [_forward_problems(c, f, loop_free, sysm) for f in cands]
        if not any(not v for v in verdicts):
            problems.extend(verdicts[-1])
    return forwarded, held


def _forward_problems(c, par, loop_free, sysm):
    out = []
    if par["net"] == c["net"]:
        # with two equally short ways round a ring a router's table may legitimately point back through the
        # arrival LAN (the packet still arrives and still loses a hop); judged in loop-free topologies only
        if loop_free:
            out.append(("wire:forwarded-back-onto-the-lan-it-arrived-from", {"frame": _show(c), "cause": _show(par)}))
        else:
            sysm.turned_back = getattr(sysm, "turned_back", 0) + 1
    ph = par["n"].get("hop")
    ch = c["n"].get("hop")
    if ph is None:
        out.append(("wire:forwarded-a-frame-that-had-no-dnet", {"frame": _show(c), "cause": _show(par)}))
        return out
    if ph == 0:
        out.append(("wire:forwarded-at-hop-count-0", {"frame": _show(c), "cause": _show(par)}))
    if ch is not None and ch != ph - 1:
        out.append(("wire:hop-count-%s-instead-of-one-less" % ("unchanged" if ch == ph else ("raised" if ch > ph else "lowered-by-%d" % (ph - ch))),
                    {"frame": _show(c), "cause": _show(par)}))
    return out


def _iam_router_nets(f):
    """Network numbers listed by an I-Am-Router-To-Network frame (clause 6.4.2), [] for anything else."""
    return F.iam_router_nets(f["n"])


def _released_later(f, frames, apdu, ref):
    """A router that received frame f put the same octets on another LAN at some later time (it had held the packet)."""
    for c in frames:
        if c["apdu"] != apdu or c["serial"] <= f["serial"] or c["net"] == f["net"]:
            continue
        own = ref.owner.get((c["net"], _mac(c["src"])))
        if own is not None and own[0] == "R":
            ports = dict(ref.routers[own[1]])
            if f["net"] in ports and f["dst"] in ("*", str(ports[f["net"]])):
                return True
    return False


def loss_hint(sysm, frames, apdu, target_nets, ref=None, origin=None, known=None):
    """Where a packet that should have been handed up was lost (root-cause part of the signature)."""
    carriers = [f for f in frames if f["apdu"] == apdu]
    if not carriers:
        if ref is not None and origin is not None and len(target_nets) == 1:
            # the originator kept it: did an I-Am-Router-To-Network naming the network reach its LAN meanwhile?
            delivered = set(sysm.order)
            on = ref.stations[origin][0]
            if any(f["net"] == on and f["serial"] in delivered and ref.nets[target_nets[0]] in _iam_router_nets(f) for f in frames):
                return "never-put-on-the-wire-although-a-router-to-the-network-was-heard"
            if F.path_shown(ref, frames, delivered, origin, target_nets[0]) == "routed-traffic":
                return "never-put-on-the-wire-although-routed-traffic-from-the-network-was-heard"
        return "never-put-on-the-wire"
    hints = set()
    delivered = set(sysm.order)
    for f in carriers:
        kids = [c for c in frames if c["parent"] == f["serial"]]
        if any(c["apdu"] == apdu for c in kids):
            continue
        if ref is not None and _released_later(f, frames, apdu, ref):
            continue
        if f["serial"] not in delivered:
            hints.add("frame-still-in-flight")
        elif known is not None and any(c["apdu"] is not None and c["apdu"] not in known and c["net"] != f["net"] for c in kids):
            hints.add("forwarded-with-other-octets")
        elif f["net"] in target_nets:
            hints.add("on-the-final-lan-but-not-handed-up")
        elif any(c["n"].get("netmsg") == 0 for c in kids):
            hints.add("router-asked-who-is-router-and-dropped-it")
        else:
            hints.add("dropped-before-the-final-lan")
    return "+".join(sorted(hints)) or "copies-exist-elsewhere"


def legs_match(frames, ref, src, dest, apdu):
    """Outcome label only: are the payload-carrying frames exactly those of the clause-6 reference?"""
    exp = ref.legs(src, dest)
    got = {}
    for f in frames:
        if f["apdu"] != apdu:
            continue
        if f["net"] in got:
            return False
        n = f["n"]
        got[f["net"]] = {"hop": n["hop"], "dnet": n["dnet"], "dadr": n["dadr"], "snet": n["snet"], "sadr": n["sadr"],
                         "mac_dst": "bcast" if f["dst"] == "*" else _mac(f["dst"])}
    if dest[0] == "xn":
        return not got
    return got == exp


def source_problem(shown, accept):
    if shown in accept:
        return None
    full = accept[-1]
    if shown is None:
        return "none"
    if shown[0] == "ls":
        return "bare-mac-of-%s-for-routed-traffic" % ("the-originator" if shown[2] == full[2] else "somebody-else")
    if shown[0] == "rs":
        if shown[1] != full[1] and shown[2] != full[2]:
            return "wrong-network-and-mac"
        return "wrong-network" if shown[1] != full[1] else "wrong-mac"
    return "kind-%s" % shown[0]


def expected(ref, part, cache, wave, src, dest, hop):
    """-> (exp, must, may): who the statement addresses, who has to be handed the packet, who may be."""
    exp = ref.recipients(src, dest)
    if part == "craft":
        reach = {r: ref.hop_reach(src, r, hop) for r in exp}
        return exp, [r for r in exp if reach[r] == "yes"], [r for r in exp if reach[r] != "no"]
    if cache in NetSystem.LATE:
        sn = ref.stations[src][0]
        if wave == 0 and dest[0] == "gb":
            # no router was there when the broadcast went out: it is a broadcast on the sender's network
            exp = [r for r in exp if ref.stations[r][0] == sn]
        elif cache == "lask":
            # the answers to a Who-Is-Router-To-Network without a network number name the networks directly behind
            # the routers of the asker's own network; nobody announces what lies further away, and whether a node asks
            # again for a network it once asked for in vain is not something the statement rules on
            return exp, [r for r in exp if ref.distance(sn, ref.stations[r][0]) <= 1], exp
    return exp, exp, exp


def judge(sysm, ref, part, sends, frame_bound=None, waves=None, cache=None):
    """sends: [(src, dest, hop or None, payload)].  -> (problems, info)"""
    problems = []
    frames = sysm.frames()
    # exceptions the event loop (or a delivery) swallowed; the network layer's own "path error" warnings are not exceptions
    sw = sorted(set("%s: %s" % (n, m[:60]) for (n, m) in sysm.swallowed() if n in ("wire", "driver") or "error has occurred" in m))
    if sysm.horizon_hit:
        problems.append(("%s:no-quiescence-within-%s" % ("cycle" if part == "ring" else "tree",
                                                         "one-instant" if sysm.livelock else "the-frame-bound"),
                         {"frames": len(frames), "bound": frame_bound}))
    known_payloads = {}
    originated = {j: set() for j in ref.router_app}
    for (src, dest, hop, payload) in sends:
        known_payloads[payload] = "req"
        if src in ref.app_router:
            originated[ref.app_router[src]].add(REQ_APDU_HDR + payload)
        for r in range(len(ref.stations)):
            known_payloads[reply_of(r, payload)] = "rpl"
            if r in ref.app_router:
                originated[ref.app_router[r]].add(RPL_APDU_HDR + reply_of(r, payload))
    forwarded, held = wire_rules(sysm, ref, frames, problems, loop_free=(part != "ring"), originated=originated)
    known_apdus = set((REQ_APDU_HDR if v == "req" else RPL_APDU_HDR) + k for k, v in known_payloads.items())
    for d in sysm.deliveries:
        if d[5] not in known_payloads:
            problems.append(("deliver:octets-handed-up-that-nobody-sent", {"station": d[0], "octets": d[5]}))
        elif (d[3], d[4]) != ((1, 8) if known_payloads[d[5]] == "req" else (1, 0)):
            problems.append(("deliver:apdu-header-altered", {"station": d[0], "type": d[3], "service": d[4]}))
    info = {"forwarded": forwarded, "held": held, "handed_to": [], "repliers": [], "copies": 0, "lost": len(getattr(sysm, "dropped", ())),
            "shown": [], "left_waiting": 0}
    delivered_serials = set(sysm.order)
    for si, (src, dest, hop, payload) in enumerate(sends):
        kind = dest[0]
        req_apdu = REQ_APDU_HDR + payload
        copies = sum(1 for f in frames if f["apdu"] == req_apdu)
        info["copies"] = max(info["copies"], copies)
        if frame_bound is not None and copies > frame_bound and not sysm.horizon_hit:
            problems.append(("cycle:more-copies-than-the-frame-bound", {"copies": copies, "bound": frame_bound}))
        got = [d for d in sysm.deliveries if d[5] == payload]
        got_at = sorted(d[0] for d in got)
        info["handed_to"].extend(got_at)
        info["repliers"].extend(sorted(set(got_at)))
        if part == "ring":
            continue
        exp, must, may = expected(ref, part, cache, waves[si] if waves else 0, src, dest, hop)
        tn = ref.target_nets(src, dest)
        if info["lost"] and len(tn) == 1 and tn[0] != ref.stations[src][0]:
            # an announcement was lost in this execution and nobody repeats one: the request has to arrive if its
            # originator has been shown the way by anything its LAN delivered to it, otherwise it may wait for ever
            shown = F.path_shown(ref, frames, delivered_serials, src, tn[0])
            info["shown"].append(shown)
            if shown is None:
                must = []
                info["left_waiting"] += 1
        # what a router's own application originates (a request here, a reply below) is a root cause of its own
        mark = len(problems)
        for r in must:
            if r not in got_at:
                problems.append(("deliver:%s:missing:%s" % (kind, loss_hint(sysm, frames, req_apdu, tn, ref, src, known_apdus)),
                                 {"station": r, "handed_to": got_at, "expected": exp, "originator": src}))
        for r in sorted(set(got_at)):
            if r not in may:
                why = "handed-up-although-the-hop-count-was-exhausted" if (part == "craft" and r in exp) else "handed-to-a-station-not-addressed"
                problems.append(("deliver:%s:%s" % (kind, why), {"station": r, "expected": exp, "originator": src}))
            elif got_at.count(r) > 1:
                problems.append(("deliver:%s:handed-up-%s" % (kind, "twice" if got_at.count(r) == 2 else "more-than-twice"),
                                 {"station": r, "times": got_at.count(r), "originator": src}))
        # the source address shown, and the way back
        good_source = set()
        for d in got:
            if d[0] not in may:
                continue
            bad = source_problem(d[1], ref.shown_sources(src, d[0]))
            if bad:
                problems.append(("source:%s:%s" % (kind, bad), {"station": d[0], "shown": d[1], "accept": ref.shown_sources(src, d[0])}))
            else:
                good_source.add(d[0])
        if src in ref.app_router:
            problems[mark:] = [(ROUTER_APP + p, d) for (p, d) in problems[mark:]]
        for r in sorted(good_source):
            mark = len(problems)
            rp = reply_of(r, payload)
            at = sorted(d[0] for d in sysm.deliveries if d[5] == rp)
            if at != [src] * got_at.count(r):
                if not at:
                    what = "lost:" + loss_hint(sysm, frames, RPL_APDU_HDR + rp, [ref.stations[src][0]], ref, r, known_apdus)
                elif src not in at:
                    what = "handed-to-somebody-else"
                elif set(at) == {src}:
                    what = "handed-up-%d-times-for-%d-sent" % (at.count(src), got_at.count(r))
                else:
                    what = "also-handed-to-somebody-else"
                problems.append(("reply:%s:%s" % (kind, what), {"replier": r, "handed_to": at, "originator": src}))
            for d in sysm.deliveries:
                if d[5] == rp and d[0] == src:
                    bad = source_problem(d[1], ref.shown_sources(r, src))
                    if bad:
                        problems.append(("source:reply:%s" % bad, {"station": src, "shown": d[1], "accept": ref.shown_sources(r, src)}))
            if r in ref.app_router:
                problems[mark:] = [(ROUTER_APP + p, d) for (p, d) in problems[mark:]]
    info["reported"] = []
    if not JUDGE_ROUTER_APP_ORIGIN:
        info["reported"] = sorted(set(p for (p, _) in problems if p.startswith(ROUTER_APP)))
        problems = [(p, d) for (p, d) in problems if not p.startswith(ROUTER_APP)]
    if problems and sw:
        problems = [(p + "|swallowed", dict(d, swallowed=sw)) if not p.startswith("wire:") else (p, d) for (p, d) in problems]
    info["frames"] = frames
    return problems, info


# ----------------------------------------------------------------------------- one shard = one (configuration, source)

def _learn(topo, know):
    """What the startup announcements teach: run them once through the real handlers on recording tables."""
    s = NetSystem(topo, "warm", know, "now", record=True)
    s.start()
    learned = s.recorded()
    t1 = s.tables_now()
    s2 = NetSystem(topo, "warm", know, "now", learned=learned)
    s2.start()
    if s2.tables_now() != t1:
        raise HarnessError("tables written from the learned calls differ from the announced ones (%s)" % topo["label"])
    return learned


def shard(item, deadline):
    vclock.install()
    acc = Acc()
    part = item[0]
    topo = item[1]
    ref = F.Ref(topo)
    nodes = len(ref.stations) + len(ref.routers)
    base = {"part": part, "topo": topo}
    if part == "tree":
        _, _, cache, know, reply, bound, src = item
        base.update({"cache": cache, "know": know, "reply": reply})
        learned = _learn(topo, know) if cache in ("warm", "rwarm", "rcold", "nwarm") else None
        late = cache in NetSystem.LATE
        for di, dest in enumerate(tree_scenarios(ref, know, src)):
            if time.time() > deadline:
                acc.cap("deadline inside a (configuration, source) shard of the tree part")
                break
            if late:
                # the same request once before the routers are there and once after their announcements have come to rest
                case = dict(base, sends=[[src, list(dest), None], [src, list(dest), None]], waves=[0, 1])
            else:
                case = dict(base, sends=[[src, list(dest), None]])
            _explore(acc, ref, case, bound, deadline, (120 if late else 60) * nodes, learned, None, first=(di == 0))
    elif part == "pair":
        _, _, cache, know, reply, bound, src = item
        base.update({"cache": cache, "know": know, "reply": reply})
        learned = _learn(topo, know) if cache in ("warm", "rwarm", "rcold") else None
        first = True
        for d1 in routed_scenarios(ref, src):
            for s2 in range(len(ref.stations)):
                for d2 in routed_scenarios(ref, s2):
                    if time.time() > deadline:
                        acc.cap("deadline inside a shard of the pair part")
                        return acc
                    _explore(acc, ref, dict(base, sends=[[src, list(d1), None], [s2, list(d2), None]]), bound, deadline,
                             120 * nodes, learned, None, first=first)
                    first = False
    elif part == "loss":
        _, _, cache, know, reply, (bound, reorder, wide), src = item
        base.update({"cache": cache, "know": know, "reply": reply, "lossy": reorder})
        learned = _learn(topo, know) if cache in ("warm", "rwarm", "rcold") else None
        first = True
        for (d1, p, d2) in loss_scenarios(ref, src, wide):
            if time.time() > deadline:
                acc.cap("deadline inside a shard of the lost-announcement part")
                return acc
            _explore(acc, ref, dict(base, sends=[[src, list(d1), None], [p, list(d2), None], [src, list(d1), None]], waves=[0, 1, 2]),
                     bound, deadline, 120 * nodes, learned, None, first=first)
            first = False
    elif part == "craft":
        _, _, know, bound, src = item
        base.update({"cache": "warm", "know": know, "reply": "now"})
        learned = _learn(topo, know)
        first = True
        for dest in routed_scenarios(ref, src):
            for hop in (0, 1, 2, 3):
                if time.time() > deadline:
                    acc.cap("deadline inside a shard of the hop-count part")
                    return acc
                _explore(acc, ref, dict(base, sends=[[src, list(dest), hop]]), bound, deadline, 60 * nodes, learned, None, first=first)
                first = False
    elif part == "ring":
        _, _, ring_len, bound, src = item
        base.update({"cache": "preset", "know": "K", "reply": "first", "ring": ring_len})
        tables = ref.routing_tables()
        frame_bound = 255 * ring_len * 2
        first = True
        for dest in routed_scenarios(ref, src):
            if time.time() > deadline:
                acc.cap("deadline inside a shard of the cycle part")
                break
            # a global broadcast that enters the ring from the tail circles both ways until its hop count is used up
            circles = dest[0] == "gb" and ref.stations[src][0] >= ring_len
            _explore(acc, ref, dict(base, sends=[[src, list(dest), None]]), max(0, bound - 1) if circles else bound, deadline,
                     frame_bound + REPLY_ALLOWANCE, None, tables, first=first, frame_bound=frame_bound)
            first = False
    return acc


def _sends_of(case):
    return [(s[0], tuple(s[1]), s[2], payload_of(i, s[0], tuple(s[1]), s[2])) for i, s in enumerate(case["sends"])]


def _maker(ref, case, learned, tables):
    topo = case["topo"]
    sends = _sends_of(case)

    waves = case.get("waves") or [0] * len(sends)
    late = case["cache"] in NetSystem.LATE

    def make():
        s = NetSystem(topo, case["cache"], case["know"], case["reply"], tables=tables, learned=learned, lossy=case.get("lossy"))
        s.start()

        def hand_down(wave):
            for w, (src, dest, hop, payload) in zip(waves, sends):
                if w != wave:
                    continue
                if case["part"] == "craft":
                    leg0 = ref.legs(src, dest)[ref.stations[src][0]]
                    octets = F.build_npdu(REQ_APDU_HDR + payload, dnet=leg0["dnet"], dadr=leg0["dadr"], hop=hop)
                    s.inject(src, octets, None if leg0["mac_dst"] == "bcast" else leg0["mac_dst"])
                else:
                    s.send(src, dest, payload)

        hand_down(0)
        # whatever comes later happens each time the network has come to rest (run_execution pops the phases)
        if late:
            s.phases.append(lambda: s.routers_up(sorted(set(sn[0] for w, sn in zip(waves, sends) if w == 0))))
        for wave in range(1, max(waves) + 1):
            s.phases.append(lambda wave=wave: hand_down(wave))
        return s
    return make, sends


def _label(part, case, sends, info, frames, ref, sysm):
    if part == "ring":
        return "ring:%s:copies<=%d%s" % (sends[0][1][0], 10 ** len(str(info["copies"])),
                                         ":table-pointed-back-through-arrival-lan" if getattr(sysm, "turned_back", 0) else "")
    kinds = "+".join(s[1][0] if s[2] is None else "%s-hop%d" % (s[1][0], s[2]) for s in sends)
    n = len(info["handed_to"])
    if part == "loss":
        if not info["lost"]:
            wire = "nothing-lost"
        else:
            wire = "announcement-lost:" + ("nobody-had-to-wait" if not info["shown"] else
                                           "way-shown-by-" + "+".join(sorted(set(x or "nothing" for x in info["shown"]))))
    elif part in ("tree", "pair") and any(s[0] in ref.app_router for s in sends):
        wire = "from-a-routers-application"
    elif part == "tree":
        wire = "wire=clause6" if all(legs_match(frames, ref, s[0], s[1], REQ_APDU_HDR + s[3]) for s in sends) else "wire-differs"
    elif part == "pair":
        wire = "wire=clause6" if all(legs_match(frames, ref, s[0], s[1], REQ_APDU_HDR + s[3]) for s in sends) else "wire-differs"
    else:
        wire = "crafted"
    return "%s:%s:%s:handed-to-%s:%s%s" % (part, kinds, case["cache"], "nobody" if not n else ("one" if n == 1 else "several"), wire,
                                          ":held-by-router" if info["held"] else "")


def _explore(acc, ref, case0, bound, deadline, max_steps, learned, tables, first=False, frame_bound=None):
    make, sends = _maker(ref, case0, learned, tables)
    part = case0["part"]
    salt = (case0["topo"]["label"], case0["cache"], case0["know"], case0["reply"])
    key0 = (part, salt, tuple((s[0], s[1], s[2]) for s in sends))

    def run(prefix):
        return run_execution(make, prefix, max_steps, want_states=acc.states, salt=salt)

    def on_exec(sysm, points, prefix):
        choices = tuple(idx for (m, idx) in points)
        problems, info = judge(sysm, ref, part, sends, frame_bound, case0.get("waves"), case0["cache"])
        acc.case((key0, choices))
        acc.traces += 1
        acc.transitions += len(points)
        acc.max_depth = max(acc.max_depth, len(points))
        for name, msg in sysm.swallowed():
            acc.swallowed["%s: %s" % (name, msg[:80])] += 1
        acc.outcome(_label(part, case0, sends, info, info["frames"], ref, sysm) + (":router-app-origination-failed" if info["reported"] else ""))
        for sig in info["reported"]:
            acc.add_info("reported, not judged: " + sig)
        acc.add_info("%s executions" % part)
        if ref.router_app:
            acc.add_info("of those in topologies where a router carries an application (n=%d)" % len(ref.nets))
        if case0["cache"] in NetSystem.LATE:
            acc.add_info("of those with routers that come up after the first request (%s, n=%d)" % (case0["cache"], len(ref.nets)))
        if info["lost"]:
            acc.add_info("of those with a lost I-Am-Router-To-Network")
            acc.add_info("requests for a network whose announcement may have been lost: way shown to the originator by routed traffic",
                         info["shown"].count("routed-traffic"))
            acc.add_info("requests for a network whose announcement may have been lost: way shown by another announcement",
                         info["shown"].count("announcement"))
            acc.add_info("requests for a network whose announcement may have been lost: way never shown (may wait for ever, not judged)",
                         info["left_waiting"])
        acc.add_info("frames forwarded by routers", info["forwarded"])
        acc.add_info("of those released by a router after it had held them for path discovery", info["held"])
        if problems:
            # a failing execution is repeated twice; a different observation is a harness error, not a finding
            obs = sysm.observation()
            for _ in range(2):
                again, _p = run_execution(make, choices, max_steps)
                if again.observation() != obs:
                    raise HarnessError("failing execution of %r is not reproducible" % (key0,))
            case = dict(case0, choices=list(choices))
            seen = set()
            for sig, detail in problems:
                if sig in seen:
                    continue
                seen.add(sig)
                acc.fail(sig, {"problem": sig, "detail": detail, "topology": case0["topo"]["label"], "tables": case0["cache"],
                               "population": case0["know"], "reply": case0["reply"], "requests": case0["sends"],
                               "schedule": explorer.labels(points)[:60]}, case)

    if first:
        a, pa = run_execution(make, (), max_steps)
        b, pb = run_execution(make, (), max_steps)
        if a.observation() != b.observation() or pa != pb:
            raise HarnessError("default execution of %r is not reproducible" % (key0,))
    n, capped = explorer.explore(run, bound, on_exec, deadline)
    if capped:
        acc.cap("deadline inside the exploration of one scenario")


# ----------------------------------------------------------------------------- entry points

def run(tier, seed, deadline):
    vclock.install()
    acc = Acc()
    items = plan(tier, seed)
    acc.info["shards (configuration x source)"] = len(items)
    acc.info["tree shapes"] = len(F.tree_shapes(2, 4 if tier == "quick" else 5))
    acc.info["what a router's own application originates"] = "judged" if JUDGE_ROUTER_APP_ORIGIN else "reported, not judged"
    acc.info["configurations (part x topology x tables x population x reply)"] = len(set(
        (it[0], it[1]["label"]) + tuple(it[2:-2]) for it in items))
    run_shards(shard, items, deadline, into=acc)
    # a written-out sample: line of three networks, cold tables
    topo = F.concrete(3, ((0, 1), (0, 2)), (1, 1, 1), seed, "sample")
    ref = F.Ref(topo)
    case = {"part": "tree", "topo": topo, "cache": "cold", "know": "U", "reply": "now", "sends": [[1, ["u", 2, "remote"], None]]}
    make, sends = _maker(ref, case, None, None)
    s, pts = run_execution(make, (), 500)
    acc.sample({"topology": topo, "case": {k: v for k, v in case.items() if k != "topo"}, "schedule": explorer.labels(pts),
                "wire": [_show(f) for f in s.frames()], "handed_up": s.deliveries})
    return acc


def replay(case):
    vclock.install()
    topo = case["topo"]
    ref = F.Ref(topo)
    part = case["part"]
    learned = _learn(topo, case["know"]) if case["cache"] in ("warm", "rwarm", "rcold", "nwarm") else None
    tables = ref.routing_tables() if case["cache"] == "preset" else None
    nodes = len(ref.stations) + len(ref.routers)
    if part == "ring":
        frame_bound = 255 * case["ring"] * 2
        max_steps = frame_bound + REPLY_ALLOWANCE
    else:
        frame_bound = None
        max_steps = (120 if (part in ("pair", "loss") or case["cache"] in NetSystem.LATE) else 60) * nodes
    make, sends = _maker(ref, case, learned, tables)
    sysm, points = run_execution(make, tuple(case.get("choices", ())), max_steps)
    problems, info = judge(sysm, ref, part, sends, frame_bound, case.get("waves"), case["cache"])
    frames = info["frames"]
    text = "topology=%r\ntables=%s population=%s reply=%s requests=%r\nschedule=%r\nlost on the wire (serials)=%r\nwire (%d frames)=%s\nhanded up=%r\nswallowed=%r\nproblems=%r%s" % (
        topo, case["cache"], case["know"], case["reply"], case["sends"],
        explorer.labels(points)[:80], list(sysm.dropped), len(frames), "\n   ".join([""] + [repr(_show(f)) for f in frames[:40]]),
        sysm.deliveries[:40], sysm.swallowed()[:10], [p for p, _ in problems],
        "\nreported, not judged=%r" % (info["reported"],) if info["reported"] else "")
    return not problems, text
