"""C14 Scheduled work runs once, in order, never early; failures stay isolated.

Part 1 (E2): breadth-first search over operation histories on the real TaskManager
        (virtual clock), deduplicated on a canonical state, against a sorted-list reference.
Part 2 (E3): recurring tasks over an interval x offset x install-instant grid.
Part 3 (E3): deferred batches / due tasks with every subset raising, under core.run_once()
        and under the real core.run() loop (asyncore.loop replaced by a clock-advancing stub).
Part 4 (E3): heap shapes: every installation order of 5..7 (thorough 8) tasks with distinct due times, every single
        suspension (for n<=6 also every pair and every suspension + move), then everything fires.
"""
import functools
import itertools
import math
import time

import bv  # noqa: F401
from bacpypes import core, task
from bv.engine import vclock
from bv.engine.acc import Acc, h64
from bv.engine.pool import run_shards, chunks, HarnessError

PROPERTY = "C14"
LEVEL = "model_checking"
BUDGET = {"quick": 90.0, "thorough": 900.0}
RULE = ("part1: BFS over all operation histories (install at now+{-1,0,1,2}, install after {0,1}, suspend, resume, "
        "advance to next due, advance 1s; optional callback that re-installs a peer) on N one-shot tasks of the real "
        "TaskManager, deduplicated on (per task: scheduled flag, taskTime-now; heap order); a state is non-trivial/distinct "
        "by that canonical form; part2: every (interval, offset, install instant, base) of the grid, 50 periods; "
        "part3: every (batch size<=6, raising subset, child-deferring member, due tasks raising subset, loop kind); "
        "part4: every (installation order of n distinct due times, suspended task(s), moved task); in parts 1 and 2 the "
        "loop is also polled half a microsecond before every due time it advances to and at the last float below it, where "
        "nothing may fire")
ASSUMPTIONS = [
    "single thread; the only clock the scheduler reads is bacpypes.task._time (rebound to a virtual clock)",
    "core.run() is driven with asyncore.loop replaced by a stub that advances the virtual clock by the requested timeout",
    "a recurring slot within 2 us (or 8 ulp of the clock value) after the installation instant may or may not be taken",
    "operation histories beyond the stated depth and clock values outside the grid are not covered",
]
BOUNDS = {
    "quick": "part1 depth<=7 on 3 tasks (6 with callbacks that re-install a peer) and depth<=6 on 4 tasks; part2 grid x 50 periods; part3 batches<=5; part4 n=5..7",
    "thorough": "part1 depth<=9 on 3 tasks (8 with callbacks) and depth<=8 on 4 tasks (7 with callbacks); part2 grid x 50 periods x 3 bases; part3 batches<=6; part4 n=5..8",
}

# ----------------------------------------------------------------------------- part 1


class LogTask(task.OneShotTask):
    def __init__(self, name, log, peer=None):
        task.OneShotTask.__init__(self)
        self.name = name
        self.log = log
        self.peer = peer        # (task, delta): re-install that task from inside the callback

    def process_task(self):
        self.log.append((self.name, vclock.tm().get_time()))
        if self.peer is not None:
            other, delta = self.peer
            other.install_task(delta=delta)


class RefSched(object):
    """Reference: a plain list of (time, rank, name); newest install replaces; stable order."""

    def __init__(self, n, chain):
        self.now = 0.0
        self.rank = 0
        self.entries = []                 # (time, rank, name)
        self.task_time = [None] * n       # remembered taskTime per task (resume uses it)
        self.chain = chain                # name -> (other, delta) or None
        self.log = []

    def install(self, i, when):
        self.entries = [e for e in self.entries if e[2] != i]
        self.task_time[i] = when
        self.entries.append((when, self.rank, i))
        self.rank += 1

    def suspend(self, i):
        self.entries = [e for e in self.entries if e[2] != i]

    def next_due(self):
        return min(e[0] for e in self.entries) if self.entries else None

    def run_due(self):
        while True:
            due = [e for e in self.entries if e[0] <= self.now]
            if not due:
                return
            e = min(due)
            self.entries.remove(e)
            self.log.append((e[2], self.now))
            peer = self.chain.get(e[2])
            if peer is not None:
                self.install(peer[0], self.now + peer[1])


def p1_ops(n):
    ops = []
    for i in range(n):
        for d in (0, 1, -1, 2):
            ops.append(("at", i, d))
        for d in (0, 1):
            ops.append(("after", i, d))
        ops.append(("suspend", i))
        ops.append(("resume", i))
    ops.append(("next",))
    ops.append(("adv1",))
    return ops


def p1_run(n, chain, hist):
    """Replay a history on fresh real objects and on the reference.  Returns (mismatch or None, canon, enabled-info)."""
    vclock.reset(0.0)
    log = []
    tasks = [LogTask(i, log) for i in range(n)]
    for i, peer in chain.items():
        tasks[i].peer = (tasks[peer[0]], peer[1])
    ref = RefSched(n, chain)
    tmgr = vclock.tm()
    for step, op in enumerate(hist):
        kind = op[0]
        try:
            if kind == "at":
                when = vclock.clock.now + op[2]
                tasks[op[1]].install_task(when=when)
                ref.install(op[1], when)
            elif kind == "after":
                tasks[op[1]].install_task(delta=op[2])
                ref.install(op[1], ref.now + op[2])
            elif kind == "suspend":
                tasks[op[1]].suspend_task()
                ref.suspend(op[1])
            elif kind == "resume":
                if ref.task_time[op[1]] is None:
                    continue            # never installed: resume has no defined meaning (taskTime None raises by contract)
                tasks[op[1]].resume_task()
                ref.install(op[1], ref.task_time[op[1]])
            elif kind in ("next", "adv1"):
                if kind == "next":
                    nd = ref.next_due()
                    if nd is not None and nd > ref.now:
                        # a hair before the due time (half a microsecond, and the last float below it) nothing may fire
                        for hair in (nd - 5e-7, math.nextafter(nd, -math.inf)):
                            if ref.now < hair < nd:
                                vclock.clock.now = hair
                                before = len(log)
                                core.run_once()
                                if len(log) != before:
                                    return ("fired-before-its-time", step, hair, nd), None
                        ref.now = nd
                else:
                    ref.now += 1.0
                vclock.clock.now = ref.now
                # real loop: run_once until a call fires nothing (independent of the heap top)
                for _ in range(64):
                    before = len(log)
                    core.run_once()
                    if len(log) == before:
                        break
                else:
                    return ("loop-does-not-quiesce", step), None
                ref.run_due()
        except Exception as err:
            return ("exception:%s:%s" % (kind, type(err).__name__), step), None
        # oracle after every operation
        if log != ref.log:
            return ("fired-sequence-differs", step, list(log), list(ref.log)), None
        sched_real = sorted((when, rank, t.name) for (when, rank, t) in tmgr.tasks)
        sched_ref = sorted(ref.entries)
        if [(w, nme) for (w, r, nme) in sched_real] != [(w, nme) for (w, r, nme) in sched_ref]:
            return ("pending-set-differs", step, sched_real, sched_ref), None
        if len(set(t.name for (_, _, t) in tmgr.tasks)) != len(tmgr.tasks):
            return ("duplicate-pending-entry", step), None
        for t in tasks:
            if t.isScheduled != any(e[2] == t.name for e in ref.entries):
                return ("scheduled-flag-differs", step, t.name), None
    # canonical state: per task (scheduled, taskTime-now), order of pending entries by (time, rank)
    now = vclock.clock.now
    per = tuple((t.isScheduled, None if t.taskTime is None else round(t.taskTime - now, 6)) for t in tasks)
    order = tuple(nme for (w, r, nme) in sorted((when, rank, t.name) for (when, rank, t) in tmgr.tasks))
    return None, (per, order)


def p1_expand(item, deadline):
    """Expand one chunk of the frontier: returns Acc with info['next'] = [(canon hash, hist)]"""
    n, chain_items, hists = item
    chain = dict(chain_items)
    acc = Acc()
    ops = p1_ops(n)
    nxt = []
    for hist in hists:
        if time.time() > deadline:
            acc.cap("part1: deadline inside frontier expansion")
            break
        for op in ops:
            h2 = hist + (op,)
            bad, canon = p1_run(n, chain, h2)
            acc.transitions += 1
            acc.evaluations += 1
            if bad is not None:
                acc.fail("sched:%s" % bad[0], {"mismatch": bad, "history": h2}, {"part": 1, "n": n, "chain": chain_items, "hist": h2})
                continue
            nxt.append((h64(("p1", n, chain_items, canon)), h2))
    acc.info["next"] = nxt
    return acc


def part1(acc, n, chain, depth, deadline):
    chain_items = tuple(sorted(chain.items()))
    bad, canon = p1_run(n, chain, ())
    seen = {h64(("p1", n, chain_items, canon))}
    frontier = [()]
    label = "part1[n=%d,chain=%s]" % (n, chain_items)
    closed = False
    for d in range(1, depth + 1):
        if not frontier:
            closed = True
            break
        shards = [(n, chain_items, c) for c in chunks(frontier, 64)]
        sub = run_shards(p1_expand, shards, deadline, persistent=True)
        nxt = sub.info.pop("next", [])
        acc.merge(sub)
        frontier = []
        for k, h2 in nxt:
            if k not in seen:
                seen.add(k)
                frontier.append(h2)
        acc.max_depth = max(acc.max_depth, d)
        if time.time() > deadline:
            acc.cap("%s: deadline at depth %d" % (label, d))
            break
    for k in seen:
        acc.states.add(k)
        acc.keys.add(k)
    acc.info["%s states" % label] = len(seen)
    acc.info["%s closed" % label] = closed or not frontier
    acc.sample({"part": 1, "n": n, "a_frontier_history": list(frontier[0]) if frontier else "frontier empty (closure)"})


# ----------------------------------------------------------------------------- part 2

class RecLog(task.RecurringTask):
    def __init__(self, log):
        task.RecurringTask.__init__(self)
        self.log = log

    def process_task(self):
        self.log.append(vclock.tm().get_time())


def p2_case(interval_ms, offset_ms, t_install, periods=50, prior=None):
    """prior=(interval, offset): the task was installed with those parameters before (same instant) and is installed
    again with the given ones, None meaning "not given" (the earlier value stays).  Returns (mismatch or None, observation)"""
    vclock.reset(t_install)
    log = []
    rt = RecLog(log)
    if prior is not None:
        rt.install_task(interval=prior[0], offset=prior[1])
        rt.install_task(interval=interval_ms, offset=offset_ms)
        interval_ms = prior[0] if interval_ms is None else interval_ms
        offset_ms = prior[1] if offset_ms is None else offset_ms
    else:
        rt.install_task(interval=interval_ms, offset=offset_ms)
    I = interval_ms / 1000.0
    off = (offset_ms or 0) / 1000.0
    ulp = math.ulp(max(1.0, abs(t_install) + periods * I))
    tol = max(2e-6, 8 * ulp)
    # reference slots: off + n*I strictly after t_install
    n0 = math.floor((t_install - off) / I) - 2
    slots = []
    n = n0
    while len(slots) < periods + 2:
        s = off + n * I
        n += 1
        if s > t_install + tol:
            slots.append(s)
        elif s > t_install - tol:
            slots.append(("maybe", s))      # within tolerance of the installation instant: may or may not be taken
    # drive: advance to each pending task time as the real heap reports it
    tmgr = vclock.tm()
    for _ in range(periods):
        if not tmgr.tasks:
            return ("recurring-task-not-rearmed", len(log)), log
        when = tmgr.tasks[0][0]
        # a hair before the slot (half a microsecond, and the last float below it) the task may not fire
        for hair in (when - 5e-7, math.nextafter(when, -math.inf)):
            if vclock.clock.now < hair < when:
                vclock.clock.now = hair
                before = len(log)
                core.run_once()
                if len(log) != before:
                    return ("fired-before-its-time", hair, when), log
        vclock.clock.now = max(vclock.clock.now, when)
        before = len(log)
        core.run_once()
        if len(log) == before:
            return ("due-task-did-not-fire", when), log
        if len(log) > before + 1:
            return ("fired-more-than-once-in-one-instant", when), log
    # compare
    exp = list(slots)
    if exp and isinstance(exp[0], tuple):
        maybe = exp.pop(0)[1]
        if log and abs(log[0] - maybe) <= tol:
            exp.insert(0, maybe)
    exp = [e for e in exp if not isinstance(e, tuple)]
    for k, got in enumerate(log):
        if k >= len(exp):
            break
        if abs(got - exp[k]) > tol:
            return ("slot-mismatch", k, got, exp[k]), log
        if got <= t_install - 1e-12 and k == 0:
            return ("fires-not-after-installation", got, t_install), log
    for a, b in zip(log, log[1:]):
        if b - a < I - tol:
            return ("two-firings-in-one-slot", a, b), log
    return None, log


def p2_grid(tier):
    intervals = [1, 3, 7, 10, 100, 333, 1000, 1500]
    bases = [0.0, 1.7e9] if tier == "quick" else [0.0, 86400.0 * 365, 1.7e9]
    for base in bases:
        for I in intervals:
            for off in sorted(set([0, 1, 50, I - 1])):
                if off >= I and off != 0:
                    continue
                Is = I / 1000.0
                inst = set()
                for k in (0, 1, 7, 1000):
                    for eps in (0.0, 1e-7, -1e-7, 1e-3, -1e-3):
                        inst.add(k * Is + eps)
                        inst.add(k * Is + off / 1000.0 + eps)
                for x in (0.0004, 0.123456, 2.5, 12.3456789):
                    inst.add(x)
                for t in sorted(inst):
                    if t < 0:
                        continue
                    yield (I, off, base + t)


def p2_regrid(tier):
    """A recurring task that already has an interval and an offset is installed again: with another interval or none, with
    another offset, offset 0 (the only way to take an offset away) or none."""
    for base in (0.0, 1.7e9):
        for I0, off0 in ((100, 25), (1000, 250), (1000, 0), (300, 299)):
            for I in (None, I0, 700):
                for off in (None, 0, 1, 50):
                    for t in (0.0, 0.25, 2.5, 12.3456789):
                        yield (I, off, base + t, (I0, off0))


def p2_shard(item, deadline):
    acc = Acc()
    for it_ in item:
        I, off, t = it_[:3]
        prior = it_[3] if len(it_) > 3 else None
        bad, log = p2_case(I, off, t, prior=prior)
        if prior is not None:
            acc.case(("p2", I, off, t, prior))
            acc.transitions += len(log)
            acc.traces += 1
            acc.outcome("p2:reinstalled:%s" % ("ok" if bad is None else bad[0]))
            if bad is not None:
                acc.fail("recurring:reinstalled:%s" % bad[0], {"mismatch": bad, "installed_first_with": prior, "then_interval_ms": I,
                                                                 "then_offset_ms": off, "install_at": t, "first_fires": log[:4]},
                         {"part": 2, "interval_ms": I, "offset_ms": off, "t": t, "prior": list(prior)})
            continue
        acc.case(("p2", I, off, t))
        acc.transitions += len(log)
        acc.traces += 1
        acc.outcome("p2:%s" % ("ok" if bad is None else bad[0]))
        if bad is not None:
            acc.fail("recurring:%s" % bad[0], {"mismatch": bad, "interval_ms": I, "offset_ms": off, "install_at": t, "first_fires": log[:4]},
                     {"part": 2, "interval_ms": I, "offset_ms": off, "t": t})
    if item and len(item[0]) == 3:
        I, off, t = item[0]
        acc.sample({"part": 2, "interval_ms": I, "offset_ms": off, "install_at": t, "first_fires": p2_case(I, off, t)[1][:3]})
    return acc


# ----------------------------------------------------------------------------- part 3

class Boom(Exception):
    pass


def p3_case(n, raising, parent, n_tasks, task_raising, loop_kind, kind="function", stopper=None):
    """n deferred functions; those in `raising` raise; `parent` (index or None) defers two children (the second
    child defers a grandchild); n_tasks due tasks of which task_raising raise.  kind: what sort of callable is handed
    to core.deferred (a plain function, a functools.partial, an object with __call__, a bound method - the last three
    with positional and keyword arguments).  Returns (mismatch or None, calls)."""
    vclock.reset(0.0)
    calls = []

    def body(name, *args, **kwargs):
        if kind in ("partial", "instance", "method") and (args != (1, 2) or kwargs != {"k": 3}):
            calls.append(("wrong-arguments", name, args, kwargs))
        calls.append(name)
        if name == stopper:
            core.stop()         # the application asks the loop to end: what is queued is still owed its call
        if name == parent:
            defer("c0")
            defer("c1")
        if name == "c1":
            defer("g0")
        if name in raising:
            raise Boom(name)

    class Callable(object):
        def __init__(self, name):
            self.name = name

        def __call__(self, *args, **kwargs):
            body(self.name, *args, **kwargs)

        def method(self, *args, **kwargs):
            body(self.name, *args, **kwargs)

    def defer(name):
        if kind == "function":
            core.deferred(make(name))
        elif kind == "partial":
            core.deferred(functools.partial(body, name, 1), 2, k=3)
        elif kind == "instance":
            core.deferred(Callable(name), 1, 2, k=3)
        else:
            core.deferred(Callable(name).method, 1, 2, k=3)

    def make(name):
        def fn():
            body(name)
        return fn

    class T(task.OneShotTask):
        def __init__(self, name):
            task.OneShotTask.__init__(self)
            self.name = name

        def process_task(self):
            calls.append(self.name)
            if self.name in task_raising:
                raise Boom(self.name)

    ts = [T("t%d" % i) for i in range(n_tasks)]
    for t in ts:
        t.install_task(when=0.0)
    if kind == "same-callable":
        # the SAME callable with the same arguments handed over n times (an application that asks n times for one action):
        # it is owed n calls, like n different ones
        shared = make("same")
        bound = Callable("same").method
        for i in range(n):
            if i % 2 == 0:
                core.deferred(shared)
            else:
                core.deferred(bound, 1, 2, k=3)
    else:
        for i in range(n):
            defer(i)

    if loop_kind == "run_once":
        for _ in range(4 * (n + n_tasks) + 16):
            core.run_once()
            if not core.deferredFns and not vclock.tm().tasks:
                break
    else:
        drive_core_run(horizon=1.0)

    exp_fns = list(range(n)) if kind != "same-callable" else ["same"] * n
    if parent is not None:
        exp_fns += ["c0", "c1", "g0"]
    got_fns = [c for c in calls if not (isinstance(c, str) and c.startswith("t"))]
    got_tasks = [c for c in calls if isinstance(c, str) and c.startswith("t")]
    if kind == "same-callable" and got_fns != exp_fns:
        return ("same-callable-handed-over-%d-times-called-%d-times" % (len(exp_fns), len(got_fns)), got_fns), calls
    if sorted(map(str, got_fns)) != sorted(map(str, exp_fns)):
        missing = [f for f in exp_fns if f not in got_fns]
        dup = [f for f in set(got_fns) if got_fns.count(f) > 1]
        if dup:
            return ("deferred-function-called-twice", dup), calls
        return ("deferred-function-never-called", missing), calls
    if got_fns != exp_fns:
        return ("deferred-order-differs", got_fns, exp_fns), calls
    if got_tasks != ["t%d" % i for i in range(n_tasks)]:
        return ("due-task-not-run-once-in-order", got_tasks), calls
    return None, calls


def drive_core_run(horizon, max_loops=5000):
    """Run the real core.run() loop with asyncore.loop replaced by a virtual-time stub."""
    loops = [0]
    real_loop = core.asyncore.loop

    def fake_loop(timeout=0.0, count=1, **kw):
        loops[0] += 1
        vclock.clock.now += max(timeout, 0.0)
        idle = not core.deferredFns and (not vclock.tm().tasks or vclock.tm().tasks[0][0] > horizon)
        if (vclock.clock.now >= horizon and idle) or loops[0] > max_loops:
            core.running = False

    core.asyncore.loop = fake_loop
    try:
        core.run(spin=0.25, sigterm=None, sigusr1=None)
    finally:
        core.asyncore.loop = real_loop
    if loops[0] > max_loops:
        raise vclock.Livelock("core.run did not go idle within %d loops" % max_loops)


def p3_cases(tier):
    nmax = 5 if tier == "quick" else 6
    for loop_kind in ("run_once", "run"):
        for n in range(1, nmax + 1):
            for r in range(0, n + 1):
                for raising in itertools.combinations(range(n), r):
                    for parent in [None] + list(range(n)):
                        # children/grandchild raising patterns: none, or c0 raises
                        for extra in ((), ("c0",)) if parent is not None else ((),):
                            for n_tasks, traise in ((0, ()), (2, ()), (2, ("t0",)), (3, ("t0", "t2")), (3, ("t1",))):
                                if n >= 5 and n_tasks == 3:
                                    continue
                                yield (n, tuple(raising) + extra, parent, n_tasks, traise, loop_kind)
    # the same callable handed over several times in one batch
    for loop_kind in ("run_once", "run"):
        for n in range(2, nmax + 1):
            for n_tasks, traise in ((0, ()), (2, ("t0",))):
                yield (n, (), None, n_tasks, traise, loop_kind, "same-callable")
    # one member of the batch calls core.stop() (real run() loop): everything handed over before the loop ends is called
    for n in range(2, nmax):
        for stopper in range(n):
            for r in (0, 1):
                for raising in itertools.combinations(range(n), r):
                    for parent in [None] + list(range(n)):
                        for n_tasks, traise in ((0, ()), (2, ("t0",))):
                            yield (n, tuple(raising), parent, n_tasks, traise, "run", "function", stopper)
    # the same batches made of other kinds of callables (applications defer partials, callable objects and bound methods
    # with arguments), with fewer task backgrounds
    for kind in ("partial", "instance", "method"):
        for loop_kind in ("run_once", "run"):
            for n in range(1, nmax):
                for r in range(0, n + 1):
                    for raising in itertools.combinations(range(n), r):
                        for parent in [None] + list(range(n)):
                            for n_tasks, traise in ((0, ()), (2, ("t0",))):
                                yield (n, tuple(raising), parent, n_tasks, traise, loop_kind, kind)


def p3_shard(item, deadline):
    acc = Acc()
    for c in item:
        n, raising, parent, n_tasks, traise, loop_kind = c[:6]
        kind = c[6] if len(c) > 6 else "function"
        stopper = c[7] if len(c) > 7 else None
        bad, calls = p3_case(n, set(raising), parent, n_tasks, set(traise), loop_kind, kind, stopper)
        if bad is None and any(isinstance(x, tuple) and x and x[0] == "wrong-arguments" for x in calls):
            bad = ("deferred-callable-got-other-arguments", [x for x in calls if isinstance(x, tuple)][:2])
        acc.case(("p3",) + c)
        acc.traces += 1
        acc.transitions += len(calls)
        acc.outcome("p3:%s" % ("ok" if bad is None else bad[0]))
        if bad is not None:
            where = "deferred" if raising else "task"
            acc.fail("isolation:%s:%s:raiser-in-%s%s" % (loop_kind, bad[0], where if (raising or traise) else "nobody",
                                                         ":a-member-calls-stop" if stopper is not None else ""),
                     {"mismatch": bad, "case": c, "calls": calls}, {"part": 3, "case": c})
    if item:
        acc.sample({"part": 3, "case": item[0], "calls": p3_case(item[0][0], set(item[0][1]), item[0][2], item[0][3], set(item[0][4]), *item[0][5:])[1]})
    return acc


# ----------------------------------------------------------------------------- part 4: heap shapes

def p4_case(order, removes, moves):
    """n one-shot tasks installed in `order` (a permutation of due times 1..n), then the tasks with the due times in
    `removes` are suspended and those in `moves` re-installed at (time + 0.5); then everything fires.  The heap has
    more entries than part 1 can hold, so damage that needs a deeper tree shows.  Returns (mismatch or None, log)."""
    vclock.reset(0.0)
    log = []
    tasks = {}
    for due in order:
        t = LogTask(due, log)
        tasks[due] = t
        t.install_task(when=float(due))
    expect = {due: float(due) for due in order}
    for due in removes:
        tasks[due].suspend_task()
        del expect[due]
    for due in moves:
        tasks[due].install_task(when=due + 0.5)
        expect[due] = due + 0.5
    # fire: advance through every expected instant in order; the loop runs until a pass fires nothing
    want = sorted(expect.items(), key=lambda kv: kv[1])
    for due, when in want:
        vclock.clock.now = when
        for _ in range(16):
            before = len(log)
            core.run_once()
            if len(log) == before:
                break
    vclock.clock.now = len(order) + 2.0
    for _ in range(16):
        before = len(log)
        core.run_once()
        if len(log) == before:
            break
    got = [(name, when) for (name, when) in log]
    exp = [(due, when) for (due, when) in want]
    if got != exp:
        late = [g for g, e in zip(got, exp) if g != e][:1]
        return ("fired-order-or-instant-differs", late), got
    if vclock.tm().tasks:
        return ("entries-left-in-the-heap", len(vclock.tm().tasks)), got
    return None, got


def p4_cases(tier):
    nmax = 7 if tier == "quick" else 8
    for n in range(5, nmax + 1):
        perms = itertools.permutations(range(1, n + 1))
        for order in perms:
            for r in range(1, n + 1):
                yield (order, (r,), ())
            if n <= 6:
                for r1, r2 in itertools.combinations(range(1, n + 1), 2):
                    yield (order, (r1, r2), ())
                for r in range(1, n + 1):
                    for mv in range(1, n + 1):
                        if mv != r:
                            yield (order, (r,), (mv,))


def p4_shard(item, deadline):
    acc = Acc()
    for k, (order, removes, moves) in enumerate(item):
        if k % 2000 == 0 and time.time() > deadline:
            acc.cap("part4: deadline inside the heap-shape sweep")
            break
        bad, got = p4_case(order, removes, moves)
        acc.case(("p4", order, removes, moves))
        acc.traces += 1
        acc.transitions += len(order) + len(removes) + len(moves) + len(got)
        acc.outcome("p4:%s" % ("ok" if bad is None else bad[0]))
        if bad is not None:
            acc.fail("sched:heap-shape:%s" % bad[0], {"mismatch": bad, "installed_in_order_of_due_times": order, "suspended": removes,
                                                      "moved_by_half_a_second": moves, "fired": got},
                     {"part": 4, "order": list(order), "removes": list(removes), "moves": list(moves)})
    return acc



# ----------------------------------------------------------------------------- part 5: installs before the manager exists

def p5_case(ops, late):
    """ops: operations on tasks 0..3 while no task manager exists yet (module-level declarations, constructors that
    install their timers before the application creates the manager): ("at", k, t) install / re-install task k for time
    t, ("suspend", k).  Then the manager comes into being (its own initialisation takes the waiting tasks over), `late`
    more tasks are installed for time 5, and everything fires.  Order: by time, equal times in the order of (the last)
    installation, early installs before later ones.  Returns (mismatch or None, log)."""
    vclock.reset(0.0)
    mgr = vclock.tm()
    log = []
    tasks = {}
    rank = {}
    n = 0
    task._task_manager = None
    try:
        for op in ops:
            k = op[1]
            t = tasks.get(k)
            if t is None:
                t = tasks[k] = LogTask("e%d" % k, log)
            if op[0] == "at":
                t.install_task(when=float(op[2]))
                n += 1
                rank[k] = (float(op[2]), n)
            elif k in rank:
                t.suspend_task()
                del rank[k]
    finally:
        # the application creates the manager: TaskManager() runs the real initialisation, which takes the waiting tasks over
        # (the singleton trap is told that no instance exists, as in a fresh process)
        task.TaskManager._singleton_instance = None
        mgr = task.TaskManager()
        core.taskManager = mgr
        if mgr.trigger is not None:
            try:
                mgr.trigger.close() if hasattr(mgr.trigger, "close") else None
            except Exception:
                pass
            mgr.trigger = None
    expect = [("e%d" % k, tm_) for k, (tm_, _) in sorted(rank.items(), key=lambda kv: kv[1])]
    for j in range(late):
        LogTask("l%d" % j, log).install_task(when=5.0)
    lates = [("l%d" % j, 5.0) for j in range(late)]
    expect = sorted(expect + lates, key=lambda e: (e[1], 0 if e[0].startswith("e") else 1))
    # stable: early ones keep their rank order, late ones their order
    early_sorted = [e for e in expect if e[0].startswith("e")]
    early_sorted.sort(key=lambda e: (e[1], rank[int(e[0][1:])][1]))
    merged = sorted(early_sorted + lates, key=lambda e: e[1])      # Python's sort is stable: early before late at equal times
    try:
        vclock.run_until(20.0)
    except vclock.Livelock as err:
        return ("livelock", str(err)), log
    if log != merged:
        return ("early-installs:fired-sequence-differs", merged, list(log)), log
    return None, log


def p5_cases(tier):
    times = (5, 7)
    ops1 = [("at", k, t) for k in range(3) for t in times] + [("suspend", k) for k in range(3)]
    maxlen = 4 if tier == "quick" else 5
    for nops in range(1, maxlen + 1):
        for ops in itertools.product(ops1, repeat=nops):
            # only histories in which tasks appear in index order (symmetry) and suspend hits an installed task
            seen = []
            ok = True
            for op in ops:
                if op[1] not in seen:
                    if op[1] != len(seen) or op[0] == "suspend":
                        ok = False
                        break
                    seen.append(op[1])
            if ok:
                for late in (0, 2):
                    yield (ops, late)


def p5_shard(item, deadline):
    acc = Acc()
    for (ops, late) in item:
        bad, log = p5_case(ops, late)
        acc.case(("p5", ops, late))
        acc.traces += 1
        acc.transitions += len(ops) + late + len(log)
        acc.outcome("p5:%s" % ("ok" if bad is None else bad[0]))
        if bad is not None:
            acc.fail("sched:%s" % bad[0], {"mismatch": bad, "early_operations": [list(o) for o in ops], "late_installs_at_5": late},
                     {"part": 5, "ops": [list(o) for o in ops], "late": late})
    return acc


# ----------------------------------------------------------------------------- part 6: a handler acts on a task due at the same poll

def p6_case(action, n_between, loop_kind):
    """Tasks a, x0..x(n-1), b are installed in that order for time 1; a's handler suspends b, moves b to time 3, or
    installs b again for the same time 1.  Under run_once() and under the real run() loop: b does not fire after being
    suspended, fires once at its new time, never before it.  Returns (mismatch or None, log)."""
    vclock.reset(0.0)
    log = []

    class Acting(task.OneShotTask):
        def __init__(self, name, victim=None):
            task.OneShotTask.__init__(self)
            self.name = name
            self.victim = victim

        def process_task(self):
            log.append((self.name, vclock.tm().get_time()))
            if self.victim is not None:
                if action == "suspend":
                    self.victim.suspend_task()
                elif action == "move":
                    self.victim.install_task(when=3.0)
                else:
                    self.victim.install_task(when=1.0)

    b = Acting("b")
    a = Acting("a", b)
    a.install_task(when=1.0)
    xs = [Acting("x%d" % i) for i in range(n_between)]
    for x in xs:
        x.install_task(when=1.0)
    b.install_task(when=1.0)
    if loop_kind == "run_once":
        try:
            vclock.run_until(5.0)
        except vclock.Livelock as err:
            return ("livelock", str(err)), log
    else:
        drive_core_run(horizon=5.0)
    expect = [("a", 1.0)] + [("x%d" % i, 1.0) for i in range(n_between)]
    if action == "move":
        expect.append(("b", 3.0))
    elif action == "again":
        expect.append(("b", 1.0))
    got = [(n, round(t, 6)) for n, t in log]
    if got != expect:
        nb = sum(1 for n, t in got if n == "b")
        what = ("fired-after-being-suspended" if action == "suspend" and nb else
                "re-installed-task-fired-%d-times" % nb if nb != 1 else "re-installed-task-fired-at-another-time")
        return ("handler-acts-on-a-task-due-at-the-same-poll:%s" % what, expect, got), log
    return None, log


def p6_cases():
    for loop_kind in ("run_once", "run"):
        for action in ("suspend", "move", "again"):
            for n_between in (0, 1, 3):
                yield (action, n_between, loop_kind)


def p6_shard(item, deadline):
    acc = Acc()
    for c in item:
        bad, log = p6_case(*c)
        acc.case(("p6",) + c)
        acc.traces += 1
        acc.transitions += len(log)
        acc.outcome("p6:%s" % ("ok" if bad is None else bad[0]))
        if bad is not None:
            acc.fail("sched:%s:%s" % (c[2], bad[0]), {"mismatch": bad, "case": c}, {"part": 6, "case": list(c)})
    return acc

# ----------------------------------------------------------------------------- entry points

def run(tier, seed, deadline):
    acc = Acc()
    vclock.install()
    t0 = time.time()
    span = deadline - t0
    # determinism self-check: same history twice -> same canonical state
    probe = (("at", 0, 1), ("at", 1, 1), ("after", 2, 1), ("suspend", 1), ("next",), ("resume", 1), ("adv1",))
    a = p1_run(3, {}, probe)
    b = p1_run(3, {}, probe)
    if a != b:
        # the clock and every operation are the harness's own: a difference means that something of the first run
        # survived in the task manager and changed the second - reported, not a harness fault
        acc.fail("sched:history-dependent:same-operations-give-another-result-the-second-time",
                 {"history": [list(x) for x in probe], "first": repr(a)[:300], "second": repr(b)[:300]}, {"part": "twice"})

    cases6 = list(p6_cases())
    run_shards(p6_shard, chunks(cases6, 3), deadline, into=acc)
    acc.info["part6 cases (a handler acts on a task due at the same poll)"] = len(cases6)
    cases5 = list(p5_cases(tier))
    run_shards(p5_shard, chunks(cases5, 256), deadline, into=acc)
    acc.info["part5 cases (installs before the manager exists)"] = len(cases5)
    # part 2 and 3 first (cheap, bounded), then part 1 with the remaining budget
    cases2 = list(p2_grid(tier))
    run_shards(p2_shard, chunks(cases2, 32), deadline, into=acc)
    acc.info["part2 cases"] = len(cases2)
    cases2b = list(p2_regrid(tier))
    run_shards(p2_shard, chunks(cases2b, 32), deadline, into=acc)
    acc.info["part2 cases with a re-installed recurring task"] = len(cases2b)
    cases3 = list(p3_cases(tier))
    run_shards(p3_shard, chunks(cases3, 32), deadline, into=acc)
    acc.info["part3 cases"] = len(cases3)
    cases4 = list(p4_cases(tier))
    run_shards(p4_shard, chunks(cases4, 64), t0 + span * 0.5, into=acc)
    acc.info["part4 cases"] = len(cases4)

    if tier == "quick":
        plans = [(3, {}, 7), (3, {0: (1, 0)}, 6), (3, {0: (1, 1), 1: (2, 0)}, 6), (4, {}, 6),
                 (3, {0: (0, 1)}, 6), (3, {0: (0, 1), 1: (0, 0)}, 5)]       # a task that re-arms itself from its own handler
    else:
        plans = [(3, {}, 9), (3, {0: (1, 0)}, 8), (3, {0: (1, 1), 1: (2, 0)}, 8), (4, {}, 8), (4, {0: (3, 0), 2: (1, 1)}, 7),
                 (3, {0: (0, 1)}, 8), (3, {0: (0, 1), 1: (0, 0)}, 7), (4, {0: (0, 2), 1: (1, 1)}, 7)]
    for k, (n, chain, depth) in enumerate(plans):
        # split the remaining budget between the remaining plans
        remaining = deadline - time.time()
        sub_deadline = time.time() + remaining / (len(plans) - k)
        part1(acc, n, chain, depth, sub_deadline)
    acc.traces += acc.transitions
    return acc


def replay(case):
    vclock.install()
    part = case["part"]
    if part == 1:
        hist = tuple(tuple(op) for op in case["hist"])
        chain = {int(k): tuple(v) for k, v in (case.get("chain") or [])}
        bad, canon = p1_run(case["n"], chain, hist)
        return bad is None, "history=%r -> %r" % (hist, bad or canon)
    if part == 2:
        bad, log = p2_case(case["interval_ms"], case["offset_ms"], case["t"],
                           prior=tuple(case["prior"]) if case.get("prior") else None)
        return bad is None, "recurring %r -> %r first fires %r" % (case, bad, log[:5])
    if part == 4:
        bad, got = p4_case(tuple(case["order"]), tuple(case["removes"]), tuple(case["moves"]))
        return bad is None, "install due times %r, suspend %r, move %r -> %r fired %r" % (case["order"], case["removes"], case["moves"], bad, got)
    if part == 6:
        vclock.install()
        bad, log = p6_case(*case["case"])
        return bad is None, "a's handler does %r to b (both due at 1, %d tasks between) under %s -> fired %r %s" % (
            case["case"][0], case["case"][1], case["case"][2], log, bad or "")
    if part == 5:
        vclock.install()
        bad, log = p5_case(tuple(tuple(o) for o in case["ops"]), case["late"])
        return bad is None, "before the manager exists: %r, then %d installs at 5 -> fired %r %s" % (case["ops"], case["late"], log, bad or "")
    if part == "twice":
        vclock.install()
        probe = (("at", 0, 1), ("at", 1, 1), ("after", 2, 1), ("suspend", 1), ("next",), ("resume", 1), ("adv1",))
        a = p1_run(3, {}, probe)
        b = p1_run(3, {}, probe)
        return a == b and a[0] is None, "the same history twice: %r / %r" % (a, b)
    if part == 3:
        n, raising, parent, n_tasks, traise, loop_kind = case["case"][:6]
        kind = case["case"][6] if len(case["case"]) > 6 else "function"
        stopper = case["case"][7] if len(case["case"]) > 7 else None
        bad, calls = p3_case(n, set(raising), parent, n_tasks, set(traise), loop_kind, kind, stopper)
        return bad is None, "deferred batch %r -> %r calls=%r" % (case["case"], bad, calls)
    return False, "unknown part"
