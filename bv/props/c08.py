"""C08 Network-layer headers and messages encode and decode faithfully.

Pure input enumeration (E3) against bv/refs/npciref.py (clauses 6.2 and 6.4, written from the standard).

part hdr   every header the encoder's contract admits: NPDU.encode -> octets == reference;
           reference octets -> NPDU.decode -> same fields and payload; re-encode of the decoded == octets
part types every message type 0..255 (and vendor ids) through the same loop on a reduced address set
part maclen every MAC length 1..255 for DADR and for SADR through the same loop
part raw   headers generated directly as octets: all 256 control octets x specifier shapes including the
           forbidden ones (SLEN 0, SNET 0xFFFF), other versions; reference classification
           (well-formed / must be refused / unspecified) against NPDU.decode; every truncation
part msg   the twelve message classes: class.encode -> NPDU.encode == reference; reference octets ->
           NPDU.decode -> npdu_types[...]().decode -> same parameters and header; every truncation
part short every octet string of length <= 3
part mut   single-octet substitutions in the header region of valid frames
"""
import time

import bv  # noqa: F401
from bacpypes.errors import DecodingError
from bacpypes.pdu import PDU, Address, RemoteStation, RemoteBroadcast, GlobalBroadcast
from bacpypes import npdu as N
from bv.engine.acc import Acc, h64
from bv.engine.pool import run_shards, chunks
from bv.refs import npciref as R

PROPERTY = "C08"
LEVEL = "exploration"
BUDGET = {"quick": 90.0, "thorough": 900.0}
RULE = ("cross products of boundary values per header field (DADR none/remote station of each MAC length/remote "
        "broadcast/global, SADR none/station, hop count, expecting-reply, priority, message type, vendor id, payload), "
        "all 256 control octets on the decode side, per message class its parameter grid (network lists 0..20, routing "
        "tables 0..5 x port-info lengths) under every encoder-admitted control octet, every strict prefix of every generated "
        "frame (deduplicated), every octet string of length <= 3, every single-octet substitution in the header region of "
        "base frames; a case is distinct by its octet string (decode side) or by the reference octets of its fields "
        "(encode side); strings whose first octet is not 0x01 are refused at the version octet and are counted as one "
        "non-trivial case per (length, first octet) in part short"
        "  Every header case is also copied with NPCI.update into a fresh NPDU before encoding and after decoding: the "
        "copy must encode to the same octets / hold the same fields.")
ASSUMPTIONS = [
    "values between the listed boundaries of each field (interior network numbers, MAC lengths, hop counts) are not enumerated",
    "the encoder is only given what its contract admits: DADR a RemoteStation/RemoteBroadcast/GlobalBroadcast, SADR a "
    "RemoteStation with 1..255 octets, hop count set iff DADR is set, vendor id set iff message type >= 0x80",
    "not judged (accepted either way, but never allowed to be misread): reserved control bits 6/4 set, DNET or SNET 0, "
    "DNET 0xFFFF with DLEN != 0, an APDU header followed by no octet, octets after a complete fixed-size message body",
    "MAC and payload contents are position-dependent patterns rotated by the seed, not cross-producted",
]
BOUNDS = {
    "quick": "nets {1,65534}, MAC lengths {1,2,6,7,255}, hops {0,1,254,255}, message types {none,0..0x14,0x7F,0x80,0xFF} "
             "x vendor {0,1,65535} full cross, all message types 0..255 on 5x3 address shapes, all MAC lengths 1..255 on 6 "
             "address combinations, payload lengths {0,1,50}; "
             "all 256 control octets x 10 DNET shapes x 7 SNET shapes; lists 0..20, tables 0..5 entries x port-info {0,1,255}, "
             "port-info 0..255 in one-entry tables; all strings <= 2 octets, 3-octet strings starting 0x01 or one of 8 other "
             "version octets (all), other 3-octet strings with 16 third octets",
    "thorough": "nets {1,255,256,65534}, MAC lengths {1,2,3,6,7,8,254,255}, hops {0,1,2,127,128,254,255}, vendor "
                "{0,1,255,256,65535}, payload lengths {0,1,50,1497}, 15 DNET x 12 SNET shapes on the decode side, every octet "
                "string of length <= 3; otherwise as quick",
}

TWELVE = sorted(R.MESSAGES)


# ----------------------------------------------------------------------------- alphabets

def mac(length, seed, salt=0):
    """position-dependent MAC octets (a shifted or shortened copy never equals the original)"""
    return bytes(((i * 7 + length * 3 + seed + salt + 1) & 0xFF) for i in range(length))


def payload(length, seed):
    return bytes(((i * 13 + 0x81 + seed) & 0xFF) for i in range(length))


def alphabet(tier, seed):
    q = tier == "quick"
    a = {
        "nets": [1, 0xFFFE] if q else [1, 255, 256, 0xFFFE],
        "maclens": [1, 2, 6, 7, 255] if q else [1, 2, 3, 6, 7, 8, 254, 255],
        "hops": [0, 1, 254, 255] if q else [0, 1, 2, 127, 128, 254, 255],
        "msgs": [None] + list(range(0x00, 0x15)) + [0x7F, 0x80, 0xFF],
        "vendors": [0, 1, 65535] if q else [0, 1, 255, 256, 65535],
        "paylens": [0, 1, 50] if q else [0, 1, 50, 1497],
    }
    dadrs = [None]
    for net in a["nets"]:
        for ln in a["maclens"]:
            dadrs.append(("station", net, mac(ln, seed)))
    for net in a["nets"]:
        dadrs.append(("rbcast", net))
    dadrs.append(("global",))
    sadrs = [None]
    for net in a["nets"]:
        for ln in a["maclens"]:
            sadrs.append(("station", net, mac(ln, seed, salt=0x40)))
    a["dadrs"] = dadrs
    a["sadrs"] = sadrs
    return a


def msg_vendor_pairs(msgs, vendors):
    out = []
    for m in msgs:
        if m is not None and m >= 0x80:
            for v in vendors:
                out.append((m, v))
        else:
            out.append((m, None))
    return out


# ----------------------------------------------------------------------------- bacpypes <-> canonical form

def mk_addr(a):
    if a is None:
        return None
    if a[0] == "station":
        return RemoteStation(a[1], bytes(a[2]))
    if a[0] == "rbcast":
        return RemoteBroadcast(a[1])
    if a[0] == "global":
        return GlobalBroadcast()
    raise ValueError(a)


def canon_addr(x):
    if x is None:
        return None
    t = getattr(x, "addrType", "no-addrType")
    if t == Address.remoteStationAddr:
        m = x.addrAddr
        if not isinstance(m, (bytes, bytearray)):
            return ("station-without-octets", x.addrNet, repr(m))
        if x.addrLen != len(m):
            return ("station-addrLen-wrong", x.addrNet, bytes(m), x.addrLen)
        return ("station", x.addrNet, bytes(m))
    if t == Address.remoteBroadcastAddr:
        return ("rbcast", x.addrNet)
    if t == Address.globalBroadcastAddr:
        return ("global",)
    return ("address-type-%r" % (t,), getattr(x, "addrNet", None), repr(getattr(x, "addrAddr", None)))


FIELDS = ("version", "control", "der", "prio", "dadr", "sadr", "hop", "msg", "vendor", "payload")


def got_header(x, with_payload=True):
    g = {"version": x.npduVersion, "control": x.npduControl, "der": x.pduExpectingReply, "prio": x.pduNetworkPriority,
         "dadr": canon_addr(x.npduDADR), "sadr": canon_addr(x.npduSADR), "hop": x.npduHopCount,
         "msg": x.npduNetMessage, "vendor": x.npduVendorID}
    if with_payload:
        g["payload"] = bytes(x.pduData)
    return g


def diff_header(want, got):
    """first field of `got` that is not what the reference says, or None"""
    for f in FIELDS:
        if f not in got:
            continue
        if f == "version":
            w = R.VERSION
        elif f == "control":
            w = want["control"] if "control" in want else R.control_octet(want)
        else:
            w = want[f]
        g = got[f]
        if f == "der":
            ok = g is not None and isinstance(g, (bool, int)) and bool(g) == bool(w)
        elif f in ("dadr", "sadr"):
            ok = (g is None and w is None) or (g is not None and w is not None and tuple(g) == tuple(w))
        else:
            ok = (g == w) and (type(g) is type(w) or isinstance(g, int) and isinstance(w, int))
        if not ok:
            return f, w, g
    return None


def set_header(x, h):
    x.pduExpectingReply = 1 if h["der"] else 0
    x.pduNetworkPriority = h["prio"]
    x.npduDADR = mk_addr(h["dadr"])
    x.npduSADR = mk_addr(h["sadr"])
    x.npduHopCount = h["hop"]


def build_npdu(h):
    x = N.NPDU()
    set_header(x, h)
    x.npduNetMessage = h["msg"]
    x.npduVendorID = h["vendor"]
    x.put_data(bytes(h["payload"]))
    return x


def short(b, n=48):
    b = bytes(b)
    return b[:n].hex() + ("..(%d octets)" % len(b) if len(b) > n else "")


def show_h(h):
    out = {}
    for k, v in h.items():
        if isinstance(v, (bytes, bytearray)):
            out[k] = short(v)
        elif isinstance(v, tuple) and v and v[0] == "station":
            out[k] = ("station", v[1], short(v[2], 16))
        else:
            out[k] = v
    return out


# ----------------------------------------------------------------------------- message classes

def _entries(table):
    return [N.RoutingTableEntry(d, p, bytes(i)) for (d, p, i) in table]


def _table(entries):
    return [(e.rtDNET, e.rtPortID, bytes(e.rtPortInfo)) for e in entries]


MSGCLS = {
    R.WHO_IS_ROUTER: ("WhoIsRouterToNetwork", lambda p: N.WhoIsRouterToNetwork(p["net"]),
                      lambda m: {"net": m.wirtnNetwork}),
    R.I_AM_ROUTER: ("IAmRouterToNetwork", lambda p: N.IAmRouterToNetwork(list(p["nets"])),
                    lambda m: {"nets": list(m.iartnNetworkList)}),
    R.I_COULD_BE_ROUTER: ("ICouldBeRouterToNetwork", lambda p: N.ICouldBeRouterToNetwork(p["net"], p["perf"]),
                          lambda m: {"net": m.icbrtnNetwork, "perf": m.icbrtnPerformanceIndex}),
    R.REJECT_MESSAGE: ("RejectMessageToNetwork", lambda p: N.RejectMessageToNetwork(p["reason"], p["dnet"]),
                       lambda m: {"reason": m.rmtnRejectionReason, "dnet": m.rmtnDNET}),
    R.ROUTER_BUSY: ("RouterBusyToNetwork", lambda p: N.RouterBusyToNetwork(list(p["nets"])),
                    lambda m: {"nets": list(m.rbtnNetworkList)}),
    R.ROUTER_AVAILABLE: ("RouterAvailableToNetwork", lambda p: N.RouterAvailableToNetwork(list(p["nets"])),
                         lambda m: {"nets": list(m.ratnNetworkList)}),
    R.INIT_RT: ("InitializeRoutingTable", lambda p: N.InitializeRoutingTable(_entries(p["table"])),
                lambda m: {"table": _table(m.irtTable)}),
    R.INIT_RT_ACK: ("InitializeRoutingTableAck", lambda p: N.InitializeRoutingTableAck(_entries(p["table"])),
                    lambda m: {"table": _table(m.irtaTable)}),
    R.ESTABLISH_CONNECTION: ("EstablishConnectionToNetwork",
                             lambda p: N.EstablishConnectionToNetwork(p["dnet"], p["term"]),
                             lambda m: {"dnet": m.ectnDNET, "term": m.ectnTerminationTime}),
    R.DISCONNECT_CONNECTION: ("DisconnectConnectionToNetwork", lambda p: N.DisconnectConnectionToNetwork(p["dnet"]),
                              lambda m: {"dnet": m.dctnDNET}),
    R.WHAT_IS_NETWORK_NUMBER: ("WhatIsNetworkNumber", lambda p: N.WhatIsNetworkNumber(), lambda m: {}),
    R.NETWORK_NUMBER_IS: ("NetworkNumberIs", lambda p: N.NetworkNumberIs(p["net"], p["flag"]),
                          lambda m: {"net": m.nniNet, "flag": m.nniFlag}),
}


def norm_params(p):
    """canonical, comparable form of a parameter dict"""
    out = {}
    for k, v in p.items():
        if k == "table":
            out[k] = [(d, pid, bytes(info)) for (d, pid, info) in v]
        elif k == "nets":
            out[k] = list(v)
        else:
            out[k] = v
    return out


def diff_params(want, got):
    want, got = norm_params(want), norm_params(got)
    for k in sorted(want):
        if k not in got or got[k] != want[k] or type(got[k]) is not type(want[k]):
            return k, want[k], got.get(k)
    return None


NETVALS = [0, 1, 255, 256, 0xFFFE, 0xFFFF]
OCTVALS = [0, 1, 127, 128, 255]


def message_params(seed):
    """(message type, parameters) for all twelve classes."""
    out = []
    rot = seed % len(NETVALS)
    nv = NETVALS[rot:] + NETVALS[:rot]
    out.append((R.WHO_IS_ROUTER, {"net": None}))
    for n in NETVALS:
        out.append((R.WHO_IS_ROUTER, {"net": n}))
    for t in (R.I_AM_ROUTER, R.ROUTER_BUSY, R.ROUTER_AVAILABLE):
        for ln in range(0, 21):
            for start in range(len(nv)):
                out.append((t, {"nets": [nv[(start + i) % len(nv)] for i in range(ln)]}))
                if ln == 0:
                    break
    for n in NETVALS:
        for o in OCTVALS:
            out.append((R.I_COULD_BE_ROUTER, {"net": n, "perf": o}))
            out.append((R.ESTABLISH_CONNECTION, {"dnet": n, "term": o}))
            out.append((R.NETWORK_NUMBER_IS, {"net": n, "flag": o}))
        for reason in (0, 1, 2, 3, 4, 5, 6, 7, 255):
            out.append((R.REJECT_MESSAGE, {"reason": reason, "dnet": n}))
        out.append((R.DISCONNECT_CONNECTION, {"dnet": n}))
    out.append((R.WHAT_IS_NETWORK_NUMBER, {}))
    # single-entry routing tables with every port-info length 0..255
    for t in (R.INIT_RT, R.INIT_RT_ACK):
        for ln in range(256):
            out.append((t, {"table": [(nv[ln % len(nv)], OCTVALS[ln % len(OCTVALS)], mac(ln, seed, salt=3))]}))
    # routing tables: 0..5 entries, every combination of port-info lengths {0,1,255}
    infolens = (0, 1, 255)
    for t in (R.INIT_RT, R.INIT_RT_ACK):
        for count in range(0, 6):
            combos = [()]
            for _ in range(count):
                combos = [c + (ln,) for c in combos for ln in infolens]
            for ci, c in enumerate(combos):
                table = []
                for i, ln in enumerate(c):
                    dnet = nv[(ci + i) % len(nv)]
                    port = OCTVALS[(ci + 2 * i + seed) % len(OCTVALS)]
                    table.append((dnet, port, mac(ln, seed, salt=i * 5 + 9)))
                out.append((t, {"table": table}))
    return out


TRUNC_VARIANTS = (0, 119)     # header variants (no specifier / DADR global + SADR 6 octets) whose frames are truncated


def header_variants(seed):
    """the 64 control octets the encoder can produce (NLM is always set for messages: 32), one address per shape,
    plus every DADR kind"""
    d_all = [None, ("station", 1, mac(1, seed)), ("station", 0xFFFE, mac(6, seed)), ("rbcast", 258), ("global",)]
    s_all = [None, ("station", 0xFFFE, mac(1, seed, 0x40)), ("station", 2, mac(6, seed, 0x40))]
    out = []
    k = 0
    for d in d_all:
        for s in s_all:
            for der in (False, True):
                for prio in (0, 1, 2, 3):
                    k += 1
                    out.append({"der": der, "prio": prio, "dadr": d, "sadr": s,
                                "hop": None if d is None else (255, 0, 1, 254)[k % 4]})
    return out


# ----------------------------------------------------------------------------- the oracles

def check_header(h):
    """encode-side case (generic NPDU).  -> list of (signature, detail)"""
    fails = []
    seg = R.encode_segments(h)
    want = b"".join(o for (_, o) in seg)
    try:
        x = build_npdu(h)
        pdu = PDU()
        x.encode(pdu)
        got = bytes(pdu.pduData)
    except Exception as err:
        fails.append(("npci:encode:raises-%s" % type(err).__name__, {"fields": show_h(h), "error": repr(err)}))
        got = None
    if got is not None and got != want:
        field, off = R.first_difference(seg, got)
        fails.append(("npci:encode:octets-differ-at:%s" % field,
                      {"fields": show_h(h), "offset": off, "want": short(want), "got": short(got)}))
    if got == want:
        # the header handed on with NPCI.update (the step between every message class and the NPDU, and what a router
        # does with a frame it relays): every field has to arrive
        try:
            z = N.NPDU()
            z.update(build_npdu(h))
            z.put_data(bytes(h["payload"]))
            pdu3 = PDU()
            z.encode(pdu3)
            relayed = bytes(pdu3.pduData)
        except Exception as err:
            fails.append(("npci:update:copy-of-the-header-does-not-encode:raises-%s" % type(err).__name__,
                          {"fields": show_h(h), "error": repr(err)}))
            relayed = want
        if relayed != want:
            field, off = R.first_difference(seg, relayed)
            fails.append(("npci:update:copy-of-the-header-encodes-differently-at:%s" % field,
                          {"fields": show_h(h), "offset": off, "want": short(want), "got": short(relayed)}))
    try:
        y = N.NPDU()
        y.decode(PDU(want))
    except Exception as err:
        if isinstance(err, DecodingError) and R.decode(want)[0] == R.EITHER:
            return fails            # e.g. an APDU header followed by no octet: refusing it is not judged
        fails.append(("npci:decode:well-formed-header-raises-%s" % type(err).__name__,
                      {"fields": show_h(h), "octets": short(want), "error": repr(err)}))
        return fails
    d = diff_header(h, got_header(y))
    if d is not None:
        fails.append(("npci:decode:field-differs:%s" % d[0],
                      {"octets": short(want), "field": d[0], "want": show_h({"v": d[1]})["v"], "got": show_h({"v": d[2]})["v"]}))
        return fails
    try:
        z = N.NPDU()
        z.update(y)
        z.pduData = y.pduData
        d = diff_header(h, got_header(z))
    except Exception as err:
        d = ("raises-%s" % type(err).__name__, None, None)
    if d is not None:
        fails.append(("npci:update:copy-of-the-decoded-header:field-differs:%s" % d[0],
                      {"octets": short(want), "field": d[0], "want": show_h({"v": d[1]})["v"], "got": show_h({"v": d[2]})["v"]}))
    try:
        pdu2 = PDU()
        y.encode(pdu2)
        again = bytes(pdu2.pduData)
    except Exception as err:
        fails.append(("npci:reencode-of-decoded:raises-%s" % type(err).__name__, {"octets": short(want), "error": repr(err)}))
        return fails
    if again != want:
        field, off = R.first_difference(seg, again)
        fails.append(("npci:reencode-of-decoded:octets-differ-at:%s" % field,
                      {"octets": short(want), "got": short(again), "offset": off}))
    return fails


def check_message(msg, p, hv):
    """encode-side case through a message class.  -> (list of (signature, detail), reference octets)"""
    fails = []
    name, ctor, params_of = MSGCLS[msg]
    h = dict(hv)
    h.update({"msg": msg, "vendor": None, "payload": R.encode_body(msg, p)})
    seg = R.encode_segments(h)
    want = b"".join(o for (_, o) in seg)
    where = {"message": name, "params": show_h(norm_params(p)), "header": show_h(hv)}
    try:
        m = ctor(p)
        set_header(m, hv)
        x = N.NPDU()
        m.encode(x)
        pdu = PDU()
        x.encode(pdu)
        got = bytes(pdu.pduData)
        # the same message object sent again (an announcement repeated on every port): same octets
        x2 = N.NPDU()
        m.encode(x2)
        pdu2 = PDU()
        x2.encode(pdu2)
        if bytes(pdu2.pduData) != got:
            fails.append(("msg:%s:second-encoding-of-the-same-message-differs" % name,
                          dict(where, first=short(got), again=short(bytes(pdu2.pduData)))))
    except Exception as err:
        fails.append(("msg:%s:encode-raises-%s" % (name, type(err).__name__), dict(where, error=repr(err))))
        got = None
    if got is not None and got != want:
        field, off = R.first_difference(seg, got)
        sig = "msg:%s:encode-body-differs" % name if field == "payload" else "npci:encode:octets-differ-at:%s" % field
        fails.append((sig, dict(where, offset=off, want=short(want), got=short(got))))
    # decode the reference octets
    label, f = judge(want, expect_ok=True)
    if f is not None:
        fails.append(f)
    return fails, want


def judge(octets, expect_ok=False):
    """decode-side case: any octet string.  -> (outcome label, None | (signature, detail))"""
    octets = bytes(octets)
    st, h, why = R.decode(octets)
    if expect_ok and st != R.OK:
        raise AssertionError("reference refuses its own encoding: %s %s" % (why, octets.hex()))
    what = {"octets": short(octets, 64)}
    try:
        x = N.NPDU()
        x.decode(PDU(octets))
        accepted = True
    except DecodingError:
        accepted = False
    except Exception as err:
        return "hdr:other-exception", ("npci:decode:raises-%s-on:%s" % (type(err).__name__, why or "well-formed"),
                                       dict(what, error=repr(err), reference=why))
    if st == R.REFUSE:
        if accepted:
            return "hdr:accepted-forbidden", ("npci:decode:accepts:%s" % why,
                                              dict(what, reference="must be refused: " + why,
                                                   decoded=show_h(got_header(x))))
        return "refused:%s" % why, None
    if not accepted:
        if st == R.OK:
            return "hdr:refused-valid", ("npci:decode:refuses-well-formed-header", dict(what, fields=show_h(h)))
        return "unspecified-refused:%s" % why, None
    d = diff_header(h, got_header(x))
    if d is not None:
        return "hdr:misread", ("npci:decode:field-differs:%s" % d[0],
                               dict(what, field=d[0], want=show_h({"v": d[1]})["v"], got=show_h({"v": d[2]})["v"],
                                    reference=why or "well-formed"))
    pre = "unspecified-accepted:" if st == R.EITHER else ""
    msg = h["msg"]
    if msg is None:
        return pre + "apdu", None
    if msg not in R.MESSAGES:
        return pre + ("msg:vendor" if msg >= 0x80 else "msg:no-class-in-6.4-scope"), None
    name, ctor, params_of = MSGCLS[msg]
    klass = N.npdu_types.get(msg)
    if klass is None:
        return "msg:not-registered", ("registry:no-class-for-message-0x%02X" % msg, dict(what, message=name))
    stb, p, trailing = R.decode_body(msg, h["payload"])      # on REFUSE the third element is the reason
    try:
        m = klass()
        m.decode(x)
        acc_b = True
    except DecodingError:
        acc_b = False
    except Exception as err:
        return "msg:other-exception", ("msg:%s:decode-raises-%s" % (name, type(err).__name__),
                                       dict(what, error=repr(err), body=short(h["payload"])))
    if stb == R.REFUSE:
        if acc_b:
            return "msg:accepted-truncated", ("msg:%s:accepts-%s" % (name, trailing), dict(what, body=short(h["payload"])))
        return pre + "msg:0x%02X:refused:%s" % (msg, trailing), None
    if not acc_b:
        if trailing:
            return pre + "msg:0x%02X:trailing-octets-refused" % msg, None
        return "msg:refused-valid", ("msg:%s:refuses-well-formed-body" % name, dict(what, body=short(h["payload"])))
    if type(m).__name__ != name:
        return "msg:wrong-class", ("registry:message-0x%02X-decoded-by-%s" % (msg, type(m).__name__), dict(what, message=name))
    try:
        gp = params_of(m)
    except Exception as err:
        return "msg:params-unreadable", ("msg:%s:decoded-object-lacks-parameter" % name, dict(what, error=repr(err)))
    dp = diff_params(p, gp)
    if dp is not None:
        return "msg:misread", ("msg:%s:param-differs:%s" % (name, dp[0]),
                               dict(what, want=show_h({"v": dp[1]})["v"], got=repr(dp[2])[:200]))
    dh = diff_header(h, got_header(m, with_payload=False))
    if dh is not None:
        return "msg:header-lost", ("msg:%s:header-field-differs-after-message-decode:%s" % (name, dh[0]),
                                   dict(what, want=repr(dh[1])[:120], got=repr(dh[2])[:120]))
    return pre + "msg:0x%02X:ok%s" % (msg, "+trailing" if trailing else ""), None


def record(acc, label, f, case):
    acc.outcome(label)
    if f is not None:
        acc.fail(f[0], f[1], case)


def truncations(acc, seen, frame, upto, tick):
    """every strict prefix of frame[:upto+1] not seen before in this shard"""
    frame = bytes(frame)
    for k in range(min(upto + 1, len(frame))):
        pre = frame[:k]
        if pre in seen:
            continue
        seen.add(pre)
        label, f = judge(pre)
        acc.case(h64(b"D" + pre))
        record(acc, "dec:" + label, f, {"k": "dec", "octets": pre})
        acc.add_info("truncations judged")
        tick[0] += 1


# ----------------------------------------------------------------------------- shards

class Stop(Exception):
    pass


def poll(acc, deadline, what):
    if time.time() > deadline:
        acc.cap("%s: deadline reached inside a shard" % what)
        raise Stop()


class Poller(object):
    """polls the deadline every `every` judged cases"""

    def __init__(self, acc, deadline, what, every=1000):
        self.acc, self.deadline, self.what, self.every, self.last = acc, deadline, what, every, 0

    def __call__(self, done):
        if done - self.last >= self.every:
            self.last = done
            poll(self.acc, self.deadline, self.what)


def shard_hdr(item, deadline):
    """part hdr / types: item = (part, list of (dadr, sadr), hops, msg-vendor pairs, payload lengths, seed)"""
    part, pairs, hops, mvs, paylens, seed = item
    acc = Acc()
    n = 0
    try:
        for dadr, sadr in pairs:
            for hop in (hops if dadr is not None else [None]):
                for der in (False, True):
                    for prio in (0, 1, 2, 3):
                        for msg, vendor in mvs:
                            for pl in paylens:
                                h = {"der": der, "prio": prio, "dadr": dadr, "sadr": sadr, "hop": hop,
                                     "msg": msg, "vendor": vendor, "payload": payload(pl, seed)}
                                fails = check_header(h)
                                acc.case(h64(b"E" + R.encode(h)))
                                acc.outcome("%s:%s" % (part, "ok" if not fails else "mismatch"))
                                for sig, det in fails:
                                    acc.fail(sig, det, {"k": "hdr", "h": h})
                                n += 1
                                if n % 2000 == 0:
                                    poll(acc, deadline, part)
    except Stop:
        pass
    acc.add_info("%s cases" % part, n)
    return acc


D_SHAPES = [(1, 1), (0xFFFE, 2), (5, 6), (5, 7), (0x0102, 255), (1, 0), (0xFFFF, 0), (0xFFFF, 1), (0, 1), (0, 0)]
S_SHAPES = [(1, 1), (0xFFFE, 6), (0x0201, 255), (1, 0), (0xFFFF, 0), (0xFFFF, 6), (0, 1)]
D_SHAPES_T = D_SHAPES + [(256, 3), (255, 8), (7, 254), (0xFFFE, 0), (0xFFFF, 255)]
S_SHAPES_T = S_SHAPES + [(256, 2), (255, 7), (0xFFFE, 0), (0xFFFF, 255), (0, 0)]


def raw_frames(control, tier, seed, version=1):
    """octet strings for one control octet: specifier shapes x hops x message type x vendor x payload"""
    q = tier == "quick"
    dsh = (D_SHAPES if q else D_SHAPES_T) if control & R.BIT_DNET else [None]
    ssh = (S_SHAPES if q else S_SHAPES_T) if control & R.BIT_SNET else [None]
    hops = [0, 1, 254, 255] if control & R.BIT_DNET else [None]
    if control & R.BIT_NLM:
        mvs = msg_vendor_pairs(list(range(0x00, 0x15)) + [0x7F, 0x80, 0xFF], [0, 1, 65535])
    else:
        mvs = [(None, None)]
    pays = [b"", payload(3, seed)]
    if version != 1:
        hops, mvs, pays = hops[:1], mvs[:1] + mvs[-1:], pays[1:]
    for d in dsh:
        dpart = b"" if d is None else R.u16(d[0]) + bytes([d[1]]) + mac(d[1], seed)
        for s in ssh:
            spart = b"" if s is None else R.u16(s[0]) + bytes([s[1]]) + mac(s[1], seed, 0x40)
            for hop in hops:
                hpart = b"" if hop is None else bytes([hop])
                for msg, vendor in mvs:
                    mpart = b"" if msg is None else bytes([msg]) + (b"" if vendor is None else R.u16(vendor))
                    head = bytes([version, control]) + dpart + spart + hpart + mpart
                    for pl in pays:
                        yield head, head + pl


def shard_raw(item, deadline):
    controls, tier, seed = item
    acc = Acc()
    n = 0
    tick = [0]
    poller = Poller(acc, deadline, "raw")
    try:
        for control in controls:
            seen = set()
            for version in (1, 0, 2, 0x81, 0xFF):
                for head, frame in raw_frames(control, tier, seed, version):
                    label, f = judge(frame)
                    acc.case(h64(b"D" + frame))
                    record(acc, "dec:" + label, f, {"k": "dec", "octets": frame})
                    n += 1
                    if version == 1:
                        truncations(acc, seen, frame, len(head), tick)
                    poller(n + tick[0])
    except Stop:
        pass
    acc.add_info("raw frames", n)
    return acc


def shard_msg(item, deadline):
    cases, hvs, seed = item
    acc = Acc()
    n = 0
    tick = [0]
    seen = set()
    poller = Poller(acc, deadline, "msg", 500)
    try:
        for msg, p in cases:
            for hi, hv in enumerate(hvs):
                fails, want = check_message(msg, p, hv)
                acc.case(h64(b"M" + want))
                acc.outcome("msg:0x%02X:%s" % (msg, "ok" if not fails else "mismatch"))
                for sig, det in fails:
                    acc.fail(sig, det, {"k": "msg", "msg": msg, "p": p, "hv": hv})
                n += 1
                if hi in TRUNC_VARIANTS:
                    truncations(acc, seen, want, len(want), tick)
                poller(n + tick[0])
    except Stop:
        pass
    acc.add_info("msg cases", n)
    return acc


SHORT_FULL_FIRST = (0x00, 0x02, 0x03, 0x7F, 0x80, 0x81, 0xFE, 0xFF)
SHORT_THIRD = (0x00, 0x01, 0x02, 0x03, 0x04, 0x08, 0x20, 0x28, 0x7F, 0x80, 0x81, 0xA8, 0xAC, 0xFD, 0xFE, 0xFF)


def shard_short(item, deadline):
    """item = list of (length, prefix[, last octets]); each prefix is extended by every string (or by each of the
    listed last octets) so that the total length is `length`"""
    acc = Acc()
    n = 0
    try:
        for ent in item:
            length, prefix = ent[0], ent[1]
            free = length - len(prefix)
            trivial = bool(prefix) and prefix[0] != R.VERSION
            if trivial:
                acc.keys.add(h64(b"S" + bytes([length]) + prefix[:1]))
            tails = [bytes([o]) for o in ent[2]] if len(ent) > 2 else (v.to_bytes(free, "big") for v in range(256 ** free))
            for tail in tails:
                s = prefix + tail
                label, f = judge(s)
                acc.evaluations += 1
                if not trivial:
                    acc.keys.add(h64(b"D" + s))
                record(acc, "dec:" + label, f, {"k": "dec", "octets": s})
                n += 1
                if n % 4096 == 0:
                    poll(acc, deadline, "short")
    except Stop:
        pass
    acc.add_info("short strings", n)
    return acc


def shard_mut(item, deadline):
    frames, values = item
    acc = Acc()
    n = 0
    try:
        for frame in frames:
            hl = R.header_length(frame)
            for pos in range(min(len(frame), hl + 3)):
                for v in values:
                    if v == frame[pos]:
                        continue
                    s = frame[:pos] + bytes([v]) + frame[pos + 1:]
                    label, f = judge(s)
                    acc.case(h64(b"D" + s))
                    record(acc, "dec:" + label, f, {"k": "dec", "octets": s})
                    n += 1
                    if n % 1000 == 0:
                        poll(acc, deadline, "mut")
    except Stop:
        pass
    acc.add_info("mutated frames", n)
    return acc


def base_frames(seed):
    """valid frames whose header region is mutated octet by octet"""
    out = []
    hv_full = {"der": True, "prio": 2, "dadr": ("station", 0x0102, mac(2, seed)), "sadr": ("station", 0x0304, mac(3, seed, 0x40)),
               "hop": 200}
    hv_bc = {"der": False, "prio": 0, "dadr": ("rbcast", 0x0506), "sadr": None, "hop": 255}
    hv_none = {"der": False, "prio": 1, "dadr": None, "sadr": None, "hop": None}
    hv_src = {"der": True, "prio": 3, "dadr": None, "sadr": ("station", 0x0708, mac(6, seed, 0x40)), "hop": None}
    hv_gl = {"der": False, "prio": 0, "dadr": ("global",), "sadr": ("station", 9, mac(1, seed, 0x40)), "hop": 1}
    picks = {
        R.WHO_IS_ROUTER: {"net": 0x1234}, R.I_AM_ROUTER: {"nets": [1, 0x0203, 0xFFFE]},
        R.I_COULD_BE_ROUTER: {"net": 0x0102, "perf": 7}, R.REJECT_MESSAGE: {"reason": 3, "dnet": 0x0405},
        R.ROUTER_BUSY: {"nets": [0x0a0b]}, R.ROUTER_AVAILABLE: {"nets": []},
        R.INIT_RT: {"table": [(0x0102, 3, b"\x09"), (0x0304, 4, b"")]}, R.INIT_RT_ACK: {"table": [(5, 6, b"\x01\x02")]},
        R.ESTABLISH_CONNECTION: {"dnet": 0x0607, "term": 9}, R.DISCONNECT_CONNECTION: {"dnet": 0x0809},
        R.WHAT_IS_NETWORK_NUMBER: {}, R.NETWORK_NUMBER_IS: {"net": 0x0a0b, "flag": 1},
    }
    for hv in (hv_full, hv_bc, hv_none, hv_src, hv_gl):
        for msg in TWELVE:
            h = dict(hv)
            h.update({"msg": msg, "vendor": None, "payload": R.encode_body(msg, picks[msg])})
            out.append(R.encode(h))
        for msg, vendor, pl in ((None, None, payload(5, seed)), (0x80, 0x0102, payload(4, seed)), (0x0A, None, payload(3, seed))):
            h = dict(hv)
            h.update({"msg": msg, "vendor": vendor, "payload": pl})
            out.append(R.encode(h))
    return out


# ----------------------------------------------------------------------------- entry points

def timed(acc, name, t0):
    acc.info["wall_s " + name] = round(time.time() - t0, 1)


def run(tier, seed, deadline):
    acc = Acc()
    a = alphabet(tier, seed)
    q = tier == "quick"

    # reference self-check (harness sanity, not a verdict): reference decode inverts reference encode
    probe = {"der": True, "prio": 2, "dadr": ("station", 0x0102, b"\x05\x06"), "sadr": ("station", 3, b"\x07"), "hop": 9,
             "msg": 0x80, "vendor": 0x0a0b, "payload": b"\x01\x02"}
    st, back, _ = R.decode(R.encode(probe))
    assert st == R.OK and R.encode(back) == R.encode(probe) == bytes.fromhex("01ae0102020506000301070980" "0a0b0102"), R.encode(probe).hex()

    # part msg (simplest, most specific first)
    cases = message_params(seed)
    hvs = header_variants(seed)
    t0 = time.time()
    run_shards(shard_msg, [(c, hvs, seed) for c in chunks(cases, 64)], deadline, into=acc)
    acc.info["msg parameter sets"] = len(cases)
    acc.info["msg header variants"] = len(hvs)
    timed(acc, "msg", t0)

    # part mut
    frames = base_frames(seed)
    values = list(range(256))
    t0 = time.time()
    run_shards(shard_mut, [(c, values) for c in chunks(frames, 48)], deadline, into=acc)
    timed(acc, "mut", t0)

    # part raw: all 256 control octets
    t0 = time.time()
    run_shards(shard_raw, [(c, tier, seed) for c in chunks(list(range(256)), 64)], deadline, into=acc)
    timed(acc, "raw", t0)

    # part types: every message type 0..255 on a reduced address set
    d_red = [None, ("station", 1, mac(1, seed)), ("station", 0xFFFE, mac(6, seed)), ("rbcast", 0xFFFE), ("global",)]
    s_red = [None, ("station", 0xFFFE, mac(1, seed, 0x40)), ("station", 1, mac(6, seed, 0x40))]
    mv_all = msg_vendor_pairs([None] + list(range(256)), a["vendors"])
    pairs = [(d, s) for d in d_red for s in s_red]
    items = [("types", [pr], [0, 255], mvc, [1] if q else [0, 1], seed) for pr in pairs for mvc in chunks(mv_all, 4)]
    t0 = time.time()
    run_shards(shard_hdr, items, deadline, into=acc)
    timed(acc, "types", t0)

    # part maclen: every MAC length 1..255 for DADR and for SADR
    pairs = []
    for ln in range(1, 256):
        d = ("station", 0x0102, mac(ln, seed))
        for s_ in (None, ("station", 0x0304, mac(256 - ln, seed, 0x40)), ("station", 5, mac(1, seed, 0x40))):
            pairs.append((d, s_))
        s2 = ("station", 0x0607, mac(ln, seed, 0x40))
        for d_ in (None, ("rbcast", 0x0809), ("global",)):
            pairs.append((d_, s2))
    items = [("maclen", c, [0, 255], msg_vendor_pairs([None, 0x01, 0x80], [0x0a0b]), [1], seed) for c in chunks(pairs, 64)]
    t0 = time.time()
    run_shards(shard_hdr, items, deadline, into=acc)
    timed(acc, "maclen", t0)

    # part hdr: full cross product
    mvs = msg_vendor_pairs(a["msgs"], a["vendors"])
    pairs = [(d, s) for d in a["dadrs"] for s in a["sadrs"]]
    items = [("hdr", c, a["hops"], mvs, a["paylens"], seed) for c in chunks(pairs, max(64, len(pairs) // 4))]
    t0 = time.time()
    run_shards(shard_hdr, items, deadline, into=acc)
    timed(acc, "hdr", t0)

    # part short: every octet string of length <= 3 (quick: a 16-value third octet after most wrong version octets)
    items = [[(0, b""), (1, b""), (2, b"")]]
    for first in range(256):
        if first == R.VERSION:
            for second in range(0, 256, 16):
                items.append([(3, bytes([first, s2])) for s2 in range(second, second + 16)])
        elif not q or first in SHORT_FULL_FIRST:
            items.append([(3, bytes([first]))])
        else:
            items.append([(3, bytes([first, s2]), SHORT_THIRD) for s2 in range(256)])
    t0 = time.time()
    run_shards(shard_short, items, deadline, into=acc)
    timed(acc, "short", t0)
    samples(acc, a, cases, hvs, frames, tier, seed)
    return acc


def ref_verdict(octets):
    """what the reference says about an octet string, header and (for the twelve messages) body"""
    st, h, why = R.decode(octets)
    out = "header %s%s" % (st, (" (" + why + ")") if why else "")
    if h is not None and h["msg"] in R.MESSAGES:
        stb, p, extra = R.decode_body(h["msg"], h["payload"])
        out += "; body of %s %s%s" % (R.MESSAGES[h["msg"]], stb, (" (" + extra + ")") if stb == R.REFUSE else "")
    return out


def samples(acc, a, cases, hvs, frames, tier, seed):
    """a few written-out cases, one per part (rotated by the seed)"""
    h = {"der": True, "prio": 3, "dadr": a["dadrs"][(3 + seed) % len(a["dadrs"])], "sadr": a["sadrs"][(2 + seed) % len(a["sadrs"])],
         "hop": 254, "msg": 0x80, "vendor": 65535, "payload": payload(1, seed)}
    if h["dadr"] is None:
        h["hop"] = None
    acc.sample({"part": "hdr", "fields": show_h(h), "reference_octets": short(R.encode(h), 40),
                "failures": check_header(h)})
    msg, p = cases[(40 + 97 * seed) % len(cases)]
    hv = hvs[(77 + seed) % len(hvs)]
    fails, want = check_message(msg, p, hv)
    acc.sample({"part": "msg", "message": MSGCLS[msg][0], "params": show_h(norm_params(p)), "header": show_h(hv),
                "reference_octets": short(want, 40), "failures": fails})
    fr = None
    for head, fr in raw_frames((0x2C + seed) & 0xFF, tier, seed):
        if len(fr) > len(head) and head[5:6] == b"\x00":
            break
    acc.sample({"part": "raw", "octets": short(fr, 40), "reference": ref_verdict(fr), "observed": judge(fr)[0]})
    base = frames[(7 + seed) % len(frames)]
    mutated = base[:3] + bytes([base[3] ^ 0xFF]) + base[4:]
    acc.sample({"part": "mut", "base_frame": short(base, 40), "mutated": short(mutated, 40),
                "reference": ref_verdict(mutated), "observed": judge(mutated)[0]})
    s3 = bytes([1, 0x80, 0x12])
    acc.sample({"part": "short", "octets": s3.hex(), "reference": ref_verdict(s3), "observed": judge(s3)[0]})
    pre = want[:len(want) - 1]
    acc.sample({"part": "truncation", "octets": short(pre, 40), "reference": ref_verdict(pre), "observed": judge(pre)[0]})


def _tuplify_addr(a):
    if a is None:
        return None
    return tuple(a)


def replay(case):
    k = case["k"]
    if k == "dec":
        label, f = judge(case["octets"])
        st, h, why = R.decode(case["octets"])
        return f is None, "octets=%s reference=%s %s -> %s %s" % (bytes(case["octets"]).hex(), st, why, label, f or "")
    if k == "hdr":
        h = dict(case["h"])
        h["dadr"], h["sadr"] = _tuplify_addr(h["dadr"]), _tuplify_addr(h["sadr"])
        fails = check_header(h)
        return not fails, "fields=%r reference octets=%s -> %r" % (show_h(h), short(R.encode(h), 64), fails or "agrees")
    if k == "msg":
        hv = dict(case["hv"])
        hv["dadr"], hv["sadr"] = _tuplify_addr(hv["dadr"]), _tuplify_addr(hv["sadr"])
        p = dict(case["p"])
        if "table" in p:
            p["table"] = [tuple(e) for e in p["table"]]
        fails, want = check_message(int(case["msg"]), p, hv)
        return not fails, "message=%s params=%r header=%r reference octets=%s -> %r" % (
            MSGCLS[int(case["msg"])][0], show_h(norm_params(p)), show_h(hv), short(want, 64), fails or "agrees")
    return False, "unknown case kind %r" % (k,)
