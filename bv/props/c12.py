"""C12 What is sent respects what the peer said it can accept.

Fault-free, deterministic sweep over capability configurations of two real stacks (E3 over configurations,
each configuration one complete execution on the controlled LAN), judged by an independent wire monitor
against what each receiver *announced* (request header for responses; I-Am / device record for requests).
"""
import time

import bv  # noqa: F401
from bv.engine import vclock
from bv.engine.acc import Acc
from bv.engine.ctlnet import run_quiet as ctlnet_run_quiet
from bv.engine.pool import run_shards, chunks, HarnessError
from bv.refs import ssmwire, segmon
from bv.stacks import app as A
from bv.stacks import apporacle as O
from bacpypes.pdu import Address
from bv.stacks.appsys import Cfg, run_execution, frame_label

PROPERTY = "C12"
LEVEL = "model_checking"
BUDGET = {"quick": 95.0, "thorough": 1500.0}
RULE = ("every configuration of the pruned product (max-APDU 6x6, max-segments, segmentation support 4x4, proposed windows, "
        "peer knowledge none / I-Am / device record) x payload lengths around every boundary the pair creates x direction "
        "(request / response) is executed once, fault free, on two real stacks; every frame on the LAN is parsed "
        "independently and compared with what its receiver announced.  Distinct = configuration.")
ASSUMPTIONS = [
    "fault-free network (faults are C04/C05); single thread; virtual clock",
    "a peer that announced nothing (no I-Am seen, no record) imposes no limit on requests sent to it",
    "a message counts as sendable only with slack (one spare segment / 8 spare octets) when the check insists on success",
    "the device record mode writes DeviceInfo into the cache the way an application with its own persistence would",
]
BOUNDS = {
    "quick": "all 36 max-APDU pairs at 16 boundary lengths x 2 directions x 3 knowledge modes; 4x4 segmentation support; max-segments {None,2,4,8,64,65}^2 on 50-octet links; windows {1,2,16,127}^2",
    "thorough": "same product with every length offset -8..+2 around k*limit for k=1..3 and all four window values on 3 sizes",
}

SIZES = (50, 128, 206, 480, 1024, 1476)
OVERHEAD = 9                    # service-data octets around the payload (vendor, service number, open/close, string tag)
ABORT_OK = (1, 4, 11)           # bufferOverflow, segmentationNotSupported, apduTooLong
REQ_HDR_SEG, REQ_HDR = 6, 4
ACK_HDR_SEG, ACK_HDR = 5, 3


def payload_for(total):
    """payload length whose service data is `total` octets long (total >= 9)"""
    n = total - OVERHEAD
    if n < 5:
        n = total - 8
    if n >= 254:
        n = total - 11
    return max(0, n)


def code_floor(n, table):
    best = None
    for code, val in table.items():
        if val is not None and val <= n and (best is None or val > table[best]):
            best = code
    return best


def cases(tier):
    out = []
    seen = set()

    def add(**kw):
        c = Cfg(**kw)
        k = c.key()
        if k not in seen:
            seen.add(k)
            out.append(c.to_json())

    offs = (-7, -6, -5, -4, -3, -1, 0, 1) if tier == "quick" else tuple(range(-8, 3))
    ks = (1, 2) if tier == "quick" else (1, 2, 3, 4)
    modes = ("none", "iam", "record")
    # (A) sizes
    for mc in SIZES:
        for ms in SIZES:
            for k in ks:
                for d in offs:
                    for lim in sorted(set((mc, ms))):
                        total = k * lim + d
                        if total < 9:
                            continue
                        n = payload_for(total)
                        for mode in modes:
                            if tier == "quick" and mode == "record" and (mc, ms) not in ((50, 50), (50, 480), (480, 50), (1476, 1476), (206, 128)):
                                continue
                            add(c={"maxapdu": mc, "window": 4}, s={"maxapdu": ms, "window": 4}, reqs=[(n, 0)], peerinfo=mode)
                        add(c={"maxapdu": mc, "window": 4}, s={"maxapdu": ms, "window": 4}, reqs=[(0, n)], peerinfo="none")
                        if tier != "quick":
                            for mode in ("iam", "record"):
                                add(c={"maxapdu": mc, "window": 4}, s={"maxapdu": ms, "window": 4}, reqs=[(0, n)], peerinfo=mode)
                            add(c={"maxapdu": mc, "window": 4}, s={"maxapdu": ms, "window": 4}, reqs=[(n, n)], peerinfo="iam")
    # (B) segmentation support
    segs = ("segmentedBoth", "segmentedTransmit", "segmentedReceive", "noSegmentation")
    for sc in segs:
        for ss in segs:
            for n in (10, payload_for(50 - 4), payload_for(50 - 3), payload_for(120)):
                for mode in modes:
                    add(c={"seg": sc}, s={"seg": ss}, reqs=[(n, 0)], peerinfo=mode)
                    add(c={"seg": sc}, s={"seg": ss}, reqs=[(0, n)], peerinfo=mode)
                    # the same through the IOCB interface: being told "it cannot be sent" must reach the IOCB too
                    if n >= payload_for(50 - 3):
                        add(c={"seg": sc}, s={"seg": ss}, reqs=[(n, 0)], peerinfo=mode, via="iocb")
            if tier != "quick":
                for size in (128, 480, 1476):
                    for n in (payload_for(size - 4), payload_for(size - 3), payload_for(size - 2), payload_for(3 * size)):
                        for mode in modes:
                            add(c={"seg": sc, "maxapdu": size}, s={"seg": ss, "maxapdu": size}, reqs=[(n, 0)], peerinfo=mode)
                            add(c={"seg": sc, "maxapdu": size}, s={"seg": ss, "maxapdu": size}, reqs=[(0, n)], peerinfo=mode)
    # (C) max segments
    for xc in (None, 2, 4, 8, 64, 65):
        for xs in (None, 2, 4, 8, 64, 65):
            for lim in sorted(set(x for x in (xc, xs) if x)):
                for k in (lim - 1, lim, lim + 1):
                    for d in (-1, 0, 1):
                        for per in (44, 45, 50):
                            total = k * per + d
                            n = payload_for(total)
                            for mode in ("none", "record"):
                                add(c={"maxsegs": xc, "window": 8}, s={"maxsegs": xs, "window": 8}, reqs=[(n, 0)], peerinfo=mode)
                            add(c={"maxsegs": xc, "window": 8}, s={"maxsegs": xs, "window": 8}, reqs=[(0, n)], peerinfo="none")
    # (C') the request itself arrives in segments and the answer is around the client's segment limit, the server's own
    # limit being larger
    for xc in (2, 4, 8, 16):
        for k in (xc - 1, xc, xc + 1):
            for d in (-1, 0, 1):
                for rq_total in (2 * 44 - 1, 3 * 44):
                    add(c={"maxsegs": xc, "window": 8}, s={"maxsegs": 64, "window": 8},
                        reqs=[(payload_for(rq_total), payload_for(k * 45 + d))], peerinfo="none")
    # (E) the server's record of the client is stale: it says more than the request being answered allows
    for true_c in ({"seg": "noSegmentation", "maxapdu": 206}, {"seg": "segmentedTransmit", "maxapdu": 50},
                   {"seg": "segmentedBoth", "maxapdu": 128}, {"seg": "segmentedBoth", "maxapdu": 50, "maxsegs": 2}):
        for believed in ({"seg": "segmentedBoth", "maxapdu": 1476}, {"seg": "segmentedReceive", "maxapdu": 480},
                         {"seg": "segmentedBoth", "maxapdu": 1476, "maxsegs": 64}):
            for n in (20, payload_for(true_c["maxapdu"] - 3), payload_for(true_c["maxapdu"] - 2), payload_for(true_c["maxapdu"] + 40),
                      payload_for(3 * true_c["maxapdu"]), payload_for(480), payload_for(1400)):
                for mode in ("record", "iam"):
                    add(c=dict(true_c, window=4), s={"maxapdu": 1476, "window": 4}, reqs=[(0, n)], peerinfo=mode,
                        views={"s_of_c": believed})
    # (F) the application has filled in what the path to the peer carries (DeviceInfo.maxNpduLength): more or less than the
    # peer's own limit, with the client's own limit above both
    for ms in (206, 50):
        for path in (1497, 480, 128):
            lim = min(ms, path)
            for k in (1, 2, 3):
                for d in (-4, -3, -2, 0, 40):
                    n = payload_for(max(9, k * lim + d))
                    add(c={"maxapdu": 1024, "window": 4}, s={"maxapdu": ms, "window": 4}, reqs=[(n, 0)], peerinfo="record",
                        views={"c_of_s": {"maxnpdu": path}})
    # (D) windows
    for wc in (1, 2, 16, 127):
        for ws in (1, 2, 16, 127):
            for size in ((50,) if tier == "quick" else (50, 128, 480)):
                n = payload_for(20 * (size - 6))
                add(c={"window": wc, "maxapdu": size}, s={"window": ws, "maxapdu": size}, reqs=[(n, 0)], peerinfo="none")
                add(c={"window": wc, "maxapdu": size}, s={"window": ws, "maxapdu": size}, reqs=[(0, n)], peerinfo="none")
    return out


# ----------------------------------------------------------------------------- oracle

def judge(sysm):
    cfg = sysm.cfg
    problems = []
    mode = cfg.peerinfo if cfg.peerinfo not in (True, False) else ("record" if cfg.peerinfo else "none")
    rq_len, rs_len = cfg.reqs[0]
    # what the server announced to the client: updated while walking the events ("told" = record given / I-Am delivered)
    srv_max = srv_seg = srv_maxsegs = None
    cm, sm = str(sysm.client.address), str(sysm.server.address)
    # frames emitted, in causal order
    req_hdr = None          # header of the request the response answers (as seen on the wire)
    req_segments = set()
    ack_segments = set()
    proposed = {}           # (sender, type) -> proposed window of the first segment
    first_told = None
    attempt = (None, None, None)    # what the server had announced when the current transmission attempt of the request began
    prev_req = None                 # previous request frame of the client
    for ev in sysm.events:
        if ev[0] == "told":
            srv_max, srv_seg, srv_maxsegs = ev[3], ev[4], ev[5]
            if first_told is None:
                first_told = (srv_max, srv_seg, srv_maxsegs)
            continue
        if ev[0] != "emit":
            continue
        src, data = ev[2], ev[4]
        try:
            n, a = ssmwire.parse_frame(data)
        except ssmwire.WireError as err:
            problems.append(("unparsable-frame-on-the-wire", {"err": str(err)}))
            continue
        if a is None:
            continue
        if a["type"] == 0 and src == cm:
            if req_hdr is None or not a["seg"] or a["seq"] == 0:
                req_hdr = a
            # a new attempt begins with an unsegmented request, or with segment 0 after the whole request had been sent
            # (retry after the APDU timeout); a transfer under way is judged by what was announced when it began
            if (not a["seg"]) or (a["seq"] == 0 and (prev_req is None or not prev_req["seg"] or not prev_req["mor"])):
                attempt = (srv_max, srv_seg, srv_maxsegs)
                req_segments = set()
            prev_req = a
            a_max, a_seg, a_maxsegs = attempt
            if a_max is not None and a["length"] > a_max:
                problems.append(("request-apdu-longer-than-peer-announced:%s" % ("segment" if a["seg"] else "unsegmented"),
                                 {"length": a["length"], "announced": a_max, "via": mode, "over_by": a["length"] - a_max}))
            if a["seg"]:
                req_segments.add(a["seq"])
                if a_seg is not None and a_seg not in ("segmentedReceive", "segmentedBoth"):
                    problems.append(("segmented-request-to-peer-that-cannot-receive-segments", {"peer": a_seg, "via": mode}))
                if a_maxsegs and len(req_segments) > a_maxsegs:
                    problems.append(("request-in-more-segments-than-peer-accepts", {"segments": len(req_segments), "limit": a_maxsegs}))
                _window(a, proposed, (src, 0), problems)
        elif a["type"] == 3 and src == sm:
            if req_hdr is None:
                problems.append(("response-without-request", {}))
                continue
            limit = ssmwire.MAX_APDU_CODES.get(req_hdr["maxresp"])
            if limit is not None and a["length"] > limit:
                problems.append(("response-apdu-longer-than-request-allows:%s" % ("segment" if a["seg"] else "unsegmented"),
                                 {"length": a["length"], "max_response": limit, "over_by": a["length"] - limit}))
            if a["seg"]:
                ack_segments.add(a["seq"])
                if not req_hdr["sa"]:
                    problems.append(("segmented-response-although-request-does-not-accept-it", {}))
                ms = ssmwire.MAX_SEGS_CODES.get(req_hdr["maxsegs"])
                if ms is not None and ms <= 64 and len(ack_segments) > ms:
                    problems.append(("response-in-more-segments-than-request-allows", {"segments": len(ack_segments), "limit": ms}))
                _window(a, proposed, (src, 3), problems)
        elif a["type"] == 4:
            # ack of the other side's data: actual window within 1..127 and not above what the sender proposed
            data_sender = (sm, 3) if src == cm and not a["srv"] else (cm, 0)
            if not (1 <= a["win"] <= 127):
                problems.append(("actual-window-outside-1..127", {"win": a["win"]}))
            p = proposed.get(data_sender)
            if p is not None and a["win"] > p:
                problems.append(("actual-window-larger-than-proposed", {"actual": a["win"], "proposed": p}))
    # outcome vs feasibility (independent arithmetic)
    got = O.judge_outcomes(sysm, problems)
    O.judge_payloads(sysm, got, problems)
    c = got.get(1)
    if first_told is not None:
        srv_max, srv_seg, srv_maxsegs = first_told
    if c is not None and cfg.reannounce:
        # capabilities change under way: only the wire rules above are insisted on, plus a proper outcome kind
        if c[1] not in ("ack", "abort"):
            problems.append(("unexpected-outcome:%s" % c[1], {}))
    elif c is not None:
        path = cfg.views.get("c_of_s", {}).get("maxnpdu")
        feas_req = feasible(len(segmon.private_transfer_data(1, b"\0" * rq_len)),
                            srv_max if (path is None or srv_max is None) else min(srv_max, path), REQ_HDR, REQ_HDR_SEG,
                            cfg.c["seg"] in ("segmentedTransmit", "segmentedBoth"),
                            None if srv_seg is None else srv_seg in ("segmentedReceive", "segmentedBoth"), srv_maxsegs)
        if req_hdr is not None:
            lim = ssmwire.MAX_APDU_CODES.get(req_hdr["maxresp"])
            ms = ssmwire.MAX_SEGS_CODES.get(req_hdr["maxsegs"])
            feas_rsp = feasible(len(segmon.private_transfer_data(1, b"\0" * rs_len)), lim, ACK_HDR, ACK_HDR_SEG,
                                cfg.s["seg"] in ("segmentedTransmit", "segmentedBoth"), bool(req_hdr["sa"]),
                                ms if (ms is not None and ms <= 64) else None)
        else:
            feas_rsp = "unknown"
        if c[1] == "ack":
            if feas_req == "no":
                problems.append(("request-completed-although-it-cannot-fit-the-peers-limits", {"via": mode}))
            if feas_rsp == "no":
                problems.append(("response-completed-although-it-cannot-fit-the-request-limits", {}))
        elif c[1] == "abort":
            if c[4] not in ABORT_OK and (feas_req == "no" or feas_rsp == "no"):
                problems.append(("does-not-fit-but-abort-reason-is:%s" % c[4], {}))
            if feas_req == "yes" and feas_rsp == "yes":
                problems.append(("aborted-although-sendable-with-slack:reason=%s" % c[4], {"via": mode}))
        else:
            problems.append(("unexpected-outcome:%s" % c[1], {}))
    return got, problems


def _window(a, proposed, key, problems):
    if not (1 <= a["win"] <= 127):
        problems.append(("window-octet-outside-1..127", {"win": a["win"], "seq": a["seq"]}))
    if a["seq"] == 0 and key not in proposed:
        proposed[key] = a["win"]
    elif key in proposed and a["win"] > proposed[key]:
        problems.append(("segment-window-larger-than-proposed", {"win": a["win"], "proposed": proposed[key]}))


def feasible(length, limit, hdr, hdr_seg, can_transmit, peer_can_receive, max_segs):
    """'yes' (sendable even with slack), 'no' (cannot be sent within the limits), 'edge' (not insisted on)."""
    if limit is None:
        return "edge"           # nothing announced: nothing to insist on
    if length + hdr <= limit:
        return "yes"            # fits in one unsegmented APDU: nothing can stand in the way
    # needs segmentation
    if not can_transmit or peer_can_receive is False:
        return "no"
    per = limit - hdr_seg
    n = (length + per - 1) // per
    if max_segs is not None:
        if n > max_segs:
            return "no"
        if n == max_segs:
            return "edge"
    if peer_can_receive is None:
        return "edge"
    return "yes"


def shard(item, deadline):
    acc = Acc()
    for cfg_json in item:
        if time.time() > deadline:
            acc.cap("deadline inside the configuration sweep")
            break
        cfg = Cfg.from_json(cfg_json)
        sysm, points = run_execution(cfg, (), max_steps=3000, want_states=None)
        got, problems = judge(sysm)
        acc.case(cfg.key())
        acc.traces += 1
        acc.transitions += len(points)
        acc.state(sysm.canon_state())
        acc.outcome("%s" % (got[1][1] + (":%s" % got[1][4] if got[1][1] == "abort" else "") if 1 in got else "none"))
        for name, msg in sysm.swallowed():
            acc.swallowed["%s: %s" % (name, msg[:80])] += 1
        kinds = O.swallowed_kinds(sysm)
        for prob, detail in problems:
            sig = "cap:%s" % prob
            if prob.startswith("no-outcome") and kinds:
                sig += "|swallowed=" + ";".join(kinds)[:120]
            acc.fail(sig, {"problem": prob, "detail": detail, "cfg": cfg.describe(),
                           "wire": [(frame_label(f[4]), len(f[4]) - 2) for f in sysm.wire.log][:12]},
                     {"cfg": cfg_json})
    return acc


def e1_cfgs(tier):
    """The server shrinks its capabilities and re-announces them while a request is under way (drop / late / re-announce
    as deviations): whatever the client sends after the new I-Am was delivered must respect it."""
    out = []
    for new in ({"maxapdu": 206, "seg": "noSegmentation"}, {"maxapdu": 50, "seg": "segmentedBoth"}, {"maxapdu": 128, "seg": "segmentedTransmit"}):
        for n in (payload_for(480 - 4 - 60), payload_for(1000), payload_for(150)):
            out.append(Cfg(c={"maxapdu": 480, "retries": 2}, s={"maxapdu": 480, "retries": 2}, reqs=[(n, 0)], peerinfo="iam",
                           reannounce=new, label="reannounce"))
    if tier != "quick":
        for new in ({"maxapdu": 50, "seg": "noSegmentation"},):
            for n in (payload_for(100), payload_for(300)):
                out.append(Cfg(c={"maxapdu": 128, "retries": 3}, s={"maxapdu": 128, "retries": 3}, reqs=[(n, n)], peerinfo="iam",
                               reannounce=new, label="reannounce"))
    return out


def e1_plan(item, deadline):
    cfg_json, bound = item
    cfg = Cfg.from_json(cfg_json)
    acc = Acc()
    sysm, points = run_execution(cfg, ())
    from bv.engine import explorer
    acc.info["kids"] = [(cfg_json, bound, list(k)) for k in explorer.children(points, 0, bound)]
    return acc


def e1_subtree(item, deadline):
    from bv.engine import explorer
    cfg_json, bound, root = item
    cfg = Cfg.from_json(cfg_json)
    acc = Acc()

    def run_(prefix):
        return run_execution(cfg, prefix, want_states=acc.states)

    def on_exec(sysm, points, prefix):
        got, problems = judge(sysm)
        choices = [idx for (m, idx) in points]
        acc.case(("e1", cfg.key(), tuple(choices)))
        acc.traces += 1
        acc.transitions += len(points)
        acc.outcome("e1:%s" % (got[1][1] if 1 in got else "none"))
        for prob, detail in problems:
            acc.fail("cap:e1:%s" % prob, {"problem": prob, "detail": detail, "cfg": cfg.describe(), "schedule": explorer.labels(points),
                                          "wire": [(frame_label(f[4]), len(f[4]) - 2) for f in sysm.wire.log][:16]},
                     {"cfg": cfg_json, "choices": choices})

    n, capped = explorer.explore(run_, bound, on_exec, deadline, roots=(tuple(root),))
    if capped:
        acc.cap("E1: deadline inside a subtree")
    return acc



# ----------------------------------------------------------------------------- part W: a scripted client changes the window

def window_case(schedule, nsegs=9):
    """A raw scripted client (crafted frames, no stack) asks the real server stack for a response of `nsegs` segments and
    acknowledges every burst with the next window size of `schedule` (cycled).  After an ack that allows w segments the
    server must not send more than w before the next ack.  Returns (problems, facts)."""
    from bacpypes.pdu import PDU
    from bacpypes.vlan import Network
    from bv.engine.ctlnet import Wire, CtlNetwork
    from bv.stacks.appsys import _device, side
    from bv.props.c05 import rs
    vclock.reset(0.0)
    wire = Wire()
    net = CtlNetwork(wire, "lan")
    sd = side(window=8, retries=1)
    server = A.PlainApp(_device("server", 2, sd), 2, net, window=8)
    server.resp_len = rs(nsegs)
    vclock.settle()
    problems = []

    def send(apdu, expecting_reply):
        pdu = PDU(bytes([0x01, 0x04 if expecting_reply else 0x00]) + apdu, source=Address(1), destination=Address(2))
        try:
            Network.process_pdu(net, pdu)
        except Exception as err:
            problems.append(("scripted-client:delivery-raised:%s" % type(err).__name__, {"error": str(err)[:120]}))
        vclock.settle()

    def take():
        """frames the server put on the wire since the last call (the scripted client receives them all)"""
        out = []
        while wire.inflight:
            fr = wire.drop(0)
            try:
                n, a = ssmwire.parse_frame(fr.data)
            except ssmwire.WireError:
                continue
            if a is not None:
                out.append(a)
        return out

    req = bytes([0x02, 0x00, 0x07, 18]) + segmon.private_transfer_data(1, b"")     # SA, max-resp 50, invoke 7
    send(req, True)
    got = take()
    segs = [a for a in got if a["type"] == 3 and a["seg"]]
    if len(segs) != 1 or segs[0]["seq"] != 0:
        return [("scripted-client:first-burst-is-not-segment-0", {"got": [(a["name"], a["seq"]) for a in got]})], {}
    last = 0
    k = 0
    bursts = []
    done = not segs[0]["mor"]
    guard = 0
    while not done and guard < 200:
        guard += 1
        w = schedule[k % len(schedule)]
        k += 1
        send(bytes([0x40, 0x07, last % 256, w]), False)
        got = take()
        if not got:
            # the server may treat an ack as a duplicate (window cut below what is outstanding): its timer retransmits
            nd = vclock.next_due()
            if nd is None:
                break
            vclock.advance_to(nd)
            got = take()
        data = [a for a in got if a["type"] == 3 and a["seg"]]
        if any(a["type"] == 7 for a in got):
            bursts.append(("abort", w))
            break
        bursts.append((len(data), w))
        if len(data) > w:
            problems.append(("more-segments-after-an-ack-than-its-window-allows",
                             {"ack_window": w, "segments_sent": len(data), "sequence": [a["seq"] for a in data], "schedule": list(schedule)}))
        for a in data:
            if a["win"] > 127 or a["win"] < 1:
                problems.append(("window-octet-outside-1..127", {"win": a["win"]}))
            if a["seq"] == (last + 1) % 256:
                last += 1
            if not a["mor"] and a["seq"] == last % 256:
                done = True
    if done:
        send(bytes([0x40, 0x07, last % 256, schedule[k % len(schedule)]]), False)
    return problems, {"schedule": list(schedule), "bursts": bursts, "completed": done}


def window_cases(tier):
    import itertools as it
    ws = (1, 2, 4) if tier == "quick" else (1, 2, 3, 4, 8)
    for n in (2, 3):
        for sched in it.product(ws, repeat=n):
            yield tuple(sched)


def shard_window(item, deadline):
    acc = Acc()
    for sched in item:
        problems, facts = window_case(sched)
        acc.case(("W", sched))
        acc.traces += 1
        acc.transitions += len(facts.get("bursts", ())) + 1
        acc.outcome("W:%s" % ("completed" if facts.get("completed") else "stalled-or-aborted"))
        acc.state(("W", tuple(facts.get("bursts", ()))))
        for prob, detail in problems:
            acc.fail("cap:scripted-client:%s" % prob, {"problem": prob, "detail": detail, "facts": facts}, {"window_schedule": list(sched)})
    return acc


# ----------------------------------------------------------------------------- part I: who lives at that address now

def identity_case(history, req_len=100):
    """The client hears a sequence of I-Am announcements (device, station, capability set), then sends one request to
    station 10.  What it sends must respect the *last announcement heard from station 10* (that is what the peer at that
    address announced).  Returns (problems, facts)."""
    from bacpypes.pdu import PDU, LocalBroadcast
    from bacpypes.vlan import Network
    from bv.engine.ctlnet import Wire, CtlNetwork
    from bv.stacks.appsys import _device, side
    vclock.reset(0.0)
    wire = Wire()
    net = CtlNetwork(wire, "lan")
    client = A.PlainApp(_device("client", 1, side(maxapdu=1476, retries=0)), 1, net)
    vclock.settle()
    CAPS = {"big": (1476, 0), "small": (50, 3)}          # (max APDU, segmentation enumeration: 0 both, 3 none)
    at = {}             # station -> (device, capabilities) as far as the announcements heard so far say
    problems = []
    for (dev, station, caps) in history:
        maxapdu, seg = CAPS[caps]
        # I-Am, hand encoded: device object identifier, unsigned max-APDU, enumerated segmentation, unsigned vendor
        oid = (8 << 22) | dev
        body = bytes([0x10, 0x00, 0xC4]) + oid.to_bytes(4, "big") + bytes([0x22, maxapdu >> 8, maxapdu & 0xFF, 0x91, seg, 0x22, 0x03, 0xE7])
        pdu = PDU(bytes([0x01, 0x00]) + body, source=Address(station), destination=LocalBroadcast())
        try:
            Network.process_pdu(net, pdu)
        except Exception as err:
            problems.append(("identity:i-am-raised:%s" % type(err).__name__, {"error": str(err)[:120]}))
        vclock.settle()
        # the device now lives at `station`: whatever was known about that station before is superseded, and the
        # device no longer lives where it announced itself earlier
        for st in [st for st, (d, c) in at.items() if d == dev]:
            del at[st]
        at[station] = (dev, (maxapdu, seg))
    told = at[10][1] if 10 in at else None
    del wire.inflight[:]
    n0 = len(wire.log)
    try:
        client.submit(Address(10), req_len)
    except Exception as err:
        problems.append(("submitting-the-request-raised:%s" % type(err).__name__, {"error": str(err)[:120]}))
    vclock.settle()
    sent = []
    for (t, netname, src, dst, data) in wire.log[n0:]:
        try:
            n, a = ssmwire.parse_frame(data)
        except ssmwire.WireError:
            continue
        if a is not None and a["type"] == 0 and dst == "10":
            sent.append(a)
    outcome = [(c[1], c[4]) for c in client.confirmations]
    if told is not None:
        maxapdu, seg = told
        for a in sent:
            if a["length"] > maxapdu:
                problems.append(("request-apdu-longer-than-the-device-now-at-that-address-announced",
                                 {"length": a["length"], "announced": maxapdu}))
            if a["seg"] and seg == 3:
                problems.append(("segmented-request-to-the-device-now-at-that-address-which-cannot-receive-segments", {}))
        needs = len(segmon.private_transfer_data(1, b"\0" * req_len)) + 4 > maxapdu
        if needs and seg == 3 and not any(o[0] == "abort" for o in outcome):
            problems.append(("does-not-fit-the-device-now-at-that-address-but-no-abort", {"outcome": outcome}))
    return problems, {"history": [list(h) for h in history], "told_by_station_10": told, "sent": [(a["length"], a["seg"]) for a in sent], "outcome": outcome}


def identity_cases(tier):
    import itertools as it
    events = [(dev, st, caps) for dev in (100, 200) for st in (10, 20) for caps in ("big", "small")]
    # (length 4 is the shortest history in which a displaced record is updated again: it belongs in the quick tier)
    for n in ((1, 2, 3, 4) if tier == "quick" else (1, 2, 3, 4, 5)):
        for h in it.product(events, repeat=n):
            # a device keeps its capability set within one history (it is the same device), two devices differ
            caps = {}
            ok = True
            for dev, st, c in h:
                if caps.setdefault(dev, c) != c:
                    ok = False
            if ok and len(set(caps.values())) == len(caps):
                yield h


def shard_identity(item, deadline):
    acc = Acc()
    for h in item:
        problems, facts = identity_case(h)
        acc.case(("I", h))
        acc.traces += 1
        acc.transitions += len(h) + 1
        acc.outcome("I:%s:%s" % (facts.get("told_by_station_10"), facts.get("outcome") and facts["outcome"][0][0]))
        acc.state(("I", repr(facts.get("told_by_station_10")), repr(facts.get("sent")), repr(facts.get("outcome"))))
        for prob, detail in problems:
            acc.fail("cap:identity:%s" % prob, {"problem": prob, "detail": detail, "facts": facts}, {"identity_history": [list(x) for x in h]})
    return acc



# ----------------------------------------------------------------------------- part S: a scripted server with its own windows

def _iam_octets(dev, maxapdu, seg):
    oid = (8 << 22) | dev
    return bytes([0x01, 0x00, 0x10, 0x00, 0xC4]) + oid.to_bytes(4, "big") + bytes([0x22, maxapdu >> 8, maxapdu & 0xFF, 0x91, seg, 0x22, 0x03, 0xE7])


def server_script_case(wc, wg, wr, final_ack, resp_segs, req_segs=4, first_ack=True, stray=False):
    """The real client stack (proposes window wc) sends a request of req_segs segments to a raw scripted server that
    grants min(wc, wg) per SegmentACK, then answers with a response of resp_segs segments proposing window wr; final_ack
    False: the SegmentACK for the last request segment is lost (the response follows at once).  The client may send at most
    the granted number of request segments per ack, and every SegmentACK it sends for the response must carry a window in
    1..127 that does not exceed wr.  Returns (problems, facts)."""
    from bacpypes.pdu import PDU, LocalBroadcast
    from bacpypes.vlan import Network
    from bv.engine.ctlnet import Wire, CtlNetwork
    from bv.stacks.appsys import _device, side
    from bv.props.c05 import rq
    vclock.reset(0.0)
    wire = Wire()
    net = CtlNetwork(wire, "lan")
    client = A.PlainApp(_device("client", 1, side(window=wc, retries=1)), 1, net, window=wc)
    vclock.settle()
    problems = []

    def send(octets, dest=None):
        pdu = PDU(octets, source=Address(2), destination=dest or Address(1))
        try:
            Network.process_pdu(net, pdu)
        except Exception as err:
            problems.append(("scripted-server:delivery-raised:%s" % type(err).__name__, {"error": str(err)[:120]}))
        vclock.settle()

    def take():
        out = []
        while wire.inflight:
            fr = wire.drop(0)
            try:
                n, a = ssmwire.parse_frame(fr.data)
            except ssmwire.WireError:
                continue
            if a is not None and str(fr.dst) == "2":
                out.append(a)
        return out

    send(_iam_octets(2, 50, 0), LocalBroadcast())
    take()
    try:
        client.submit(Address(2), rq(req_segs))
    except Exception as err:
        return [("submitting-the-request-raised:%s" % type(err).__name__, {"error": str(err)[:120]})], {}
    vclock.settle()
    got = take()
    segs = [a for a in got if a["type"] == 0 and a["seg"]]
    if len(segs) != 1 or segs[0]["seq"] != 0:
        return [("scripted-server:first-burst-is-not-request-segment-0", {"got": [(a["name"], a["seq"]) for a in got]})], {}
    invoke = segs[0]["invoke"]
    proposed = segs[0]["win"]
    granted = max(1, min(proposed, wg))
    if not first_ack:
        # the acknowledgement of the first segment is lost: nothing has been granted yet, so whatever the client's timer
        # makes it send is the first segment again and nothing else
        nd = vclock.next_due()
        if nd is not None:
            vclock.advance_to(nd)
        again = [a for a in take() if a["type"] == 0 and a["seg"]]
        if [a["seq"] for a in again] != [0]:
            problems.append(("segments-sent-before-any-window-was-granted",
                             {"after_the_timeout": [a["seq"] for a in again], "client_proposed": proposed}))
    if stray:
        # a SegmentACK of the OTHER direction (server flag clear: it belongs to an exchange in which the client stack was
        # the server) with the same invoke ID and a large window: it grants nothing for this request
        send(bytes([0x01, 0x00, 0x40, invoke, 0x00, 0x08]))
        got = [a for a in take() if a["type"] == 0 and a["seg"]]
        if got:
            problems.append(("request-segments-sent-on-a-segment-ack-of-the-other-direction",
                             {"segments_sent": [a["seq"] for a in got], "stray_window": 8}))
    last, more, guard, bursts = 0, segs[0]["mor"], 0, []
    while more and guard < 50:
        guard += 1
        send(bytes([0x01, 0x00, 0x41, invoke, last % 256, granted]))
        data = [a for a in take() if a["type"] == 0 and a["seg"]]
        bursts.append(len(data))
        if not data:
            break
        if len(data) > granted:
            problems.append(("more-request-segments-after-an-ack-than-its-window-allows",
                             {"granted": granted, "segments_sent": len(data), "sequence": [a["seq"] for a in data]}))
        for a in data:
            if a["seq"] == (last + 1) % 256:
                last += 1
                more = a["mor"]
    if more:
        return problems + [("scripted-server:request-did-not-complete", {"bursts": bursts})], {"bursts": bursts}
    if final_ack:
        send(bytes([0x01, 0x00, 0x41, invoke, last % 256, granted]))
        take()
    # the response: resp_segs segments of 40 octets of service data each, proposing window wr
    body = segmon.private_transfer_data(1, bytes(40 * resp_segs - 8))
    chunks_ = [body[i:i + 40] for i in range(0, len(body), 40)]
    acks = []
    k = 0
    guard = 0
    resent = 0
    while k < len(chunks_) and guard < 50:
        guard += 1
        burst_end = min(len(chunks_), k + (1 if k == 0 else max(1, min(wr, acks[-1]["win"] if acks else wr))))
        for j in range(k, burst_end):
            mor = j < len(chunks_) - 1
            send(bytes([0x01, 0x04 if False else 0x00, 0x38 | (0x04 if mor else 0), invoke, j % 256, wr, 18]) + chunks_[j])
        new = [a for a in take() if a["type"] == 4]
        if not new and resent < 2:
            # no acknowledgement: the server's segment timer (2 s) expires and it sends the burst again
            resent += 1
            vclock.run_until(vclock.clock.now + 2.0)
            new = [a for a in take() if a["type"] == 4]
            if not new:
                continue
        for a in new:
            acks.append(a)
            if not (1 <= a["win"] <= 127):
                problems.append(("response-ack-window-outside-1..127", {"win": a["win"]}))
            elif a["win"] > wr:
                problems.append(("response-ack-window-exceeds-what-the-server-proposed",
                                 {"ack_window": a["win"], "server_proposed": wr, "granted_for_the_request": granted,
                                  "client_proposed": proposed, "final_request_ack": "delivered" if final_ack else "lost"}))
        if any(a["type"] == 7 for a in new) or not new:
            break
        k = (new[-1]["seq"] + 1) if new[-1]["seq"] < burst_end else burst_end
    outcome = [(c[1], len(c[4]) if isinstance(c[4], bytes) else c[4]) for c in client.confirmations]
    return problems, {"client_proposed": proposed, "granted": granted, "server_proposed": wr, "final_ack": final_ack,
                      "request_bursts": bursts, "response_acks": [(a["seq"], a["win"]) for a in acks], "outcome": outcome}


def server_script_cases(tier):
    ws = (1, 2, 3, 8)
    for wc in ((2, 8) if tier == "quick" else (1, 2, 5, 8, 127)):
        for wg in ws:
            for wr in ws:
                for final_ack in (True, False):
                    for resp_segs in (2, 5):
                        yield (wc, wg, wr, final_ack, resp_segs, 4, True)
                        if resp_segs == 2 and final_ack:
                            yield (wc, wg, wr, final_ack, resp_segs, 4, False)
                            yield (wc, wg, wr, final_ack, resp_segs, 4, True, True)


def shard_server_script(item, deadline):
    acc = Acc()
    for c in item:
        problems, facts = server_script_case(*c)
        acc.case(("S", c))
        acc.traces += 1
        acc.transitions += len(facts.get("request_bursts", ())) + len(facts.get("response_acks", ())) + 1
        acc.outcome("S:%s" % (facts.get("outcome") and facts["outcome"][0][0]))
        acc.state(("S", repr(facts.get("request_bursts")), repr(facts.get("response_acks"))))
        for prob, detail in problems:
            acc.fail("cap:scripted-server:%s" % prob, {"problem": prob, "detail": detail, "facts": facts}, {"server_script": list(c)})
    return acc


# ----------------------------------------------------------------------------- part R: both devices ask each other

def reversal_case(history, y_seg):
    """Two real stacks X (station 1, can do everything) and Y (station 2, segmentation support y_seg, max APDU 50).
    history: events "iam" (Y announces itself), "y-short", "y-long" (Y asks X; long = needs segments), "x-short", "x-long"
    (X asks Y).  Whatever Y has asked before, what X sends to Y respects what Y *announced*: no APDU over 50 octets, and
    segments only if Y can receive them; a request that does not fit ends in an abort.  Returns (problems, facts)."""
    from bacpypes.pdu import LocalBroadcast
    from bv.engine.ctlnet import Wire, CtlNetwork
    from bv.stacks.appsys import _device, side
    from bv.props.c05 import rq
    vclock.reset(0.0)
    wire = Wire()
    wire.auto = True
    net = CtlNetwork(wire, "lan")
    x = A.PlainApp(_device("x", 1, side(maxapdu=50, retries=0)), 1, net)
    y = A.PlainApp(_device("y", 2, side(maxapdu=50, seg=y_seg, retries=0)), 2, net)
    vclock.settle()
    problems = []
    announced = False
    can_receive = y_seg in ("segmentedBoth", "segmentedReceive")
    facts = []
    sn = 0
    for ev in history:
        n0 = len(wire.log)
        c0 = len(x.confirmations)
        if ev == "iam":
            from bacpypes.apdu import IAmRequest
            iam = IAmRequest(iAmDeviceIdentifier=y.localDevice.objectIdentifier, maxAPDULengthAccepted=50,
                             segmentationSupported=y_seg, vendorID=999)
            iam.pduDestination = LocalBroadcast()
            y.request(iam)
            announced = True
        else:
            who, size = ev.split("-")
            src, dst = (x, 2) if who == "x" else (y, 1)
            sn += 1
            try:
                src.submit(Address(dst), rq(3) if size == "long" else 0, service_number=sn)
            except Exception as err:
                problems.append(("submitting-the-request-raised:%s" % type(err).__name__, {"event": ev, "error": str(err)[:120]}))
        try:
            ctlnet_run_quiet(wire, vclock.clock.now + 60.0)
        except vclock.Livelock as err:
            problems.append(("livelock", {"event": ev}))
            break
        sent = []
        for (t, netname, s_, d_, data) in wire.log[n0:]:
            try:
                n, a = ssmwire.parse_frame(data)
            except ssmwire.WireError:
                continue
            if a is not None and s_ == "1" and d_ == "2":
                sent.append(a)
        outcome = [(c[1], c[4] if not isinstance(c[4], bytes) else len(c[4])) for c in x.confirmations[c0:]]
        facts.append((ev, [(a["name"], a["length"], bool(a.get("seg"))) for a in sent], outcome))
        if announced:
            for a in sent:
                if a["length"] > 50:
                    problems.append(("apdu-to-the-peer-longer-than-it-announced", {"event": ev, "length": a["length"], "type": a["name"]}))
                if a["type"] == 0 and a["seg"] and not can_receive:
                    problems.append(("segmented-request-to-a-peer-that-announced-it-cannot-receive-segments",
                                     {"event": ev, "announced": y_seg, "history": list(history)}))
            if ev == "x-long" and not can_receive and not any(o[0] == "abort" for o in outcome):
                problems.append(("request-does-not-fit-the-peer-but-no-abort", {"event": ev, "outcome": outcome}))
        if ev == "x-short" and not any(o[0] == "ack" for o in outcome):
            problems.append(("short-request-not-answered", {"event": ev, "outcome": outcome}))
    return problems, {"history": list(history), "y_segmentation": y_seg, "steps": facts}


def reversal_cases(tier):
    import itertools as it
    evs = ("iam", "y-short", "y-long", "x-short", "x-long")
    for y_seg in ("segmentedBoth", "segmentedTransmit", "segmentedReceive", "noSegmentation"):
        for n in ((1, 2, 3) if tier == "quick" else (1, 2, 3, 4)):
            for h in it.product(evs, repeat=n):
                if any(e.startswith("x-") for e in h):
                    yield (h, y_seg)


def shard_reversal(item, deadline):
    acc = Acc()
    for (h, y_seg) in item:
        problems, facts = reversal_case(h, y_seg)
        acc.case(("R", h, y_seg))
        acc.traces += 1
        acc.transitions += len(h)
        acc.outcome("R:%s" % ",".join("%s" % (st[2][0][0] if st[2] else "-") for st in facts["steps"]))
        acc.state(("R", y_seg, repr(facts["steps"])))
        for prob, detail in problems:
            acc.fail("cap:reversal:%s" % prob, {"problem": prob, "detail": detail, "facts": facts}, {"reversal_history": list(h), "y_seg": y_seg})
    return acc


def run(tier, seed, deadline):
    vclock.install()
    acc = Acc()
    cs = cases(tier)
    a = run_execution(Cfg.from_json(cs[5]), ())[0]
    b = run_execution(Cfg.from_json(cs[5]), ())[0]
    if a.wire.log != b.wire.log:
        raise HarnessError("C12: one configuration gave two different wire logs")
    run_shards(shard, chunks(cs, 128), deadline, into=acc)
    acc.info["configurations"] = len(cs)
    bound = 2 if tier == "quick" else 3
    plan = run_shards(e1_plan, [(c.to_json(), bound) for c in e1_cfgs(tier)], deadline)
    kids = plan.info.pop("kids", [])
    acc.info["E1 re-announce first-level deviations"] = len(kids)
    run_shards(e1_subtree, kids, deadline, into=acc)
    wc = list(window_cases(tier))
    run_shards(shard_window, chunks(wc, 16), deadline, into=acc)
    acc.info["scripted-client window schedules"] = len(wc)
    ic = list(identity_cases(tier))
    run_shards(shard_identity, chunks(ic, 32), deadline, into=acc)
    acc.info["identity histories"] = len(ic)
    sc = list(server_script_cases(tier))
    run_shards(shard_server_script, chunks(sc, 16), deadline, into=acc)
    acc.info["scripted-server cases"] = len(sc)
    rc = list(reversal_cases(tier))
    run_shards(shard_reversal, chunks(rc, 32), deadline, into=acc)
    acc.info["role-reversal histories"] = len(rc)
    s = run_execution(Cfg.from_json(cs[7]), ())[0]
    acc.sample({"cfg": s.cfg.describe(), "wire": [(frame_label(f[4]), len(f[4]) - 2) for f in s.wire.log],
                "outcome": [(c[1], c[4] if not isinstance(c[4], bytes) else len(c[4])) for c in s.client.confirmations]})
    return acc


def replay(case):
    vclock.install()
    if "window_schedule" in case:
        problems, facts = window_case(tuple(case["window_schedule"]))
        return not problems, "scripted client, window schedule %r -> %r\n%r" % (case["window_schedule"], problems[:3], facts)
    if "server_script" in case:
        problems, facts = server_script_case(*case["server_script"])
        return not problems, "scripted server (client window, granted, proposed for the response, final ack, response segments) %r -> %r\n%r" % (
            case["server_script"], problems[:3], facts)
    if "reversal_history" in case:
        problems, facts = reversal_case(tuple(case["reversal_history"]), case["y_seg"])
        return not problems, "history %r, Y is %s -> %r\n%r" % (case["reversal_history"], case["y_seg"], problems[:3], facts)
    if "identity_history" in case:
        problems, facts = identity_case(tuple(tuple(x) for x in case["identity_history"]))
        return not problems, "I-Am history %r -> %r\n%r" % (case["identity_history"], problems[:3], facts)
    cfg = Cfg.from_json(case["cfg"])
    sysm, points = run_execution(cfg, tuple(case.get("choices", ())), max_steps=3000)
    got, problems = judge(sysm)
    text = "cfg=%r\nwire=%r\noutcome=%r\nswallowed=%r\nproblems=%r" % (
        cfg.describe(), [(frame_label(f[4]), len(f[4]) - 2) for f in sysm.wire.log][:40],
        [(c[1], c[4] if not isinstance(c[4], bytes) else len(c[4])) for c in sysm.client.confirmations],
        O.swallowed_kinds(sysm), problems[:8])
    return not problems, text
