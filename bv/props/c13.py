"""C13 B/IP broadcasts reach every node once; foreign registrations expire on time.

Part 1 (E3 configurations x E1 delivery order): every layout of the stated family, one broadcast from every node,
        FIFO delivery plus every single reordering of two datagrams that can meet at one receiver; the recorder
        above each B/IP layer is compared with Annex J.4.5 written as set algebra (bv/refs/bbmdref.py).  Family C puts
        foreign devices on the wire of a BBMD other than their registrar (they then see that BBMD's local traffic too).
        The recorder consumes the buffer it is handed the way a decoder does, and what is compared is the octets: every
        PDU handed up anywhere after a broadcast was originated must be that broadcast's NPDU, unaltered.  Family D runs
        layouts again with the library's real network layer (NetworkServiceAccessPoint, NetworkServiceElement, an
        application recorder above) bound to the B/IP layers: broadcasts are originated as APDUs through it and every
        application recorder must be given the originator's APDU once per copy, from the true originator.
Part 2 (E2): breadth-first search over application / management / time histories of foreign devices on the real
        BIPForeign / BIPBBMD objects (virtual clock, perfect network), deduplicated on a canonical state; in every
        state every node broadcasts once and the foreign device table is read, and the lifetime rules of the
        statement are evaluated.  In the "moves" configurations the device may register with either BBMD at any time
        (both tables then list it for a while); in the "wire" configurations it sits next to the other BBMD; in the
        "3fd-one-table" configurations three devices share a table and the driven one keeps broadcasting after the BBMD
        has stopped listing it (what the BBMD distributes for it must reach every registered device).
Part 3 (deterministic sweep): TTL 1..300 with the renewals lost: the instant at which the registration stops
        being served / listed must fall in [TTL, TTL+30 s] after the acknowledgement, and the device must be
        served again after the first renewal that gets through.
"""
import itertools
import os
import time

import bv  # noqa: F401
from bv.engine import vclock, explorer
from bv.engine.acc import Acc, h64
from bv.engine.pool import run_shards, chunks, HarnessError, WORKERS
from bv.refs import bbmdref
from bv.stacks.bipsys import BipSystem

PROPERTY = "C13"
LEVEL = "model_checking"
BUDGET = {"quick": 120.0, "thorough": 1500.0}
RULE = ("part1: every layout of the family x every node as originator x (FIFO delivery + each single overtaking among "
        "datagrams that share a network; overtakings between datagrams on different networks are skipped because no B/IP "
        "node sees both).  Family A: every multiset of 1..3 [thorough 4] subnets, each with 0/1 BBMD and 0..2 ordinary nodes, "
        "0..2 [3] foreign devices on subnets of their own registered with any BBMD, every assignment of /32 (two-hop) or "
        "subnet (one-hop) masks to the BBMDs, full tables.  Family B: every combination of per-BBMD peer subsets (2 and 3 "
        "BBMDs; for 4 BBMDs one BBMD with each proper subset, nobody-lists-anybody, ring, star) x every mask assignment on "
        "fixed shapes (one ordinary node and one foreign device per BBMD; the same plus a subnet without BBMD; two devices at "
        "one BBMD with bare peers).  Family C: foreign devices whose IP address lies on the wire of a BBMD other than their "
        "registrar (2..3 BBMD subnets with 0/1 ordinary node each, with / without a subnet that has no BBMD; device 0 registered "
        "with BBMD 0 on the wire of BBMD 1, optional device 1 with any registrar on a subnet of its own or on the wire of any other "
        "BBMD; every mask assignment; full tables and, with one ordinary node per subnet, the partial tables); candidates in "
        "which Annex J itself hands the device its registrar's datagram twice (registrar lists that wire's BBMD with a subnet "
        "mask) are counted and not run.  Family D: the layouts of A, B and C with at most 2 [3] subnets (quick also: family A with 3 "
        "BBMD subnets of one ordinary node each) run again with the real network layer of the library above the B/IP layer of every "
        "node, and (at most 2 subnets) above the BBMDs only.  In every family the recorder above a B/IP layer consumes the buffer it "
        "was handed (PDUData.get_data, as NPDU.decode does) and every PDU handed up after the broadcast was originated is compared "
        "octet by octet with what the originator handed down.  A case is distinct by (layout incl. upper layers, originator, choice "
        "sequence).  "
        "part2: BFS over histories of register(fd, ttl in 1..3 [with any of the BBMDs in the 'moves' configurations: the device "
        "changes its registrar with or without unregistering]) | unregister | Delete-FDT-Entry sent to the BBMD | lose / "
        "pass the device's renewals | advance 0.5 s | 1 s | 30 s (30 s only while a registration is lapsing); in every "
        "state one broadcast from every kind of node and one Read-FDT are executed and judged (they are transitions too if "
        "they change the state).  A state is the canonical snapshot of every BIPBBMD / BIPForeign object (FDT entries with "
        "remaining seconds, status, timers relative to now), the pending task list, the clock phase and the lifetime "
        "monitor (times relative to now, capped where the verdict cannot change any more); the order of FDT entries is kept. "
        "States that violate an invariant are reported and not expanded.  In the '3fd-one-table' configurations three devices "
        "share one table: a setup history registers them in a stated order (two of them for 60 s), the search starts in the state "
        "it leaves and drives one [thorough also: two] of them with the alphabet above while the others renew by themselves; every "
        "state's broadcasts include one from the driven device whether or not the BBMD still lists it (entry deleted, dropped at "
        "TTL+5 s while the device waits until TTL+30 s): if the BBMD distributes such a broadcast at all, every device registered "
        "with it and inside its time-to-live must be sent it and be handed it once.  "
        "part3: every TTL 1..300 x registration phase with all renewals lost, probed by a broadcast and a Read-FDT every "
        "0.5 s until TTL+31.5 s (quick: every 0.5 s within 3 s of the acknowledgement, TTL-3..TTL+8 and the last 2 s, every "
        "5 s between), then renewals pass again.")
ASSUMPTIONS = [
    "single thread; virtual clock bound to bacpypes.task._time; UDP is replaced by vlan.IPNode on controlled IPNetworks joined by vlan.IPRouter",
    "foreign devices sit on subnets of their own (BIPForeign ignores Original-Broadcast-NPDU on its own wire; the statement does not decide that), "
    "or (family C, part 2 'wire' configurations) on the wire of a BBMD other than their registrar: such a device takes part in the network "
    "through its registrar only (J.5.2), it must get one copy through the registrar's table and nothing from what the other stations put on "
    "its wire; layouts in which the registrar's own Forwarded-NPDU reaches that wire as well (directed broadcast, or the registrar is the wire's "
    "BBMD) are outside the statement because Annex J itself duplicates there",
    "a device that moves its registration to another BBMD releases the earlier one like an unregistration does: the old BBMD may list it until "
    "that entry's TTL + grace is over, must not afterwards; whether the old entry still serves the device is not judged, two copies or its own "
    "broadcast coming back always are",
    "ordinary nodes on a subnet without BBMD are expected to reach their own subnet only; every BBMD lists itself",
    "'handed to the network layer' is judged on the octets: the PDU a B/IP layer hands up carries the NPDU the originator's network layer "
    "handed down, unaltered, with the originator's B/IP address as source; the layer above consumes that PDU in place (the harness's recorder "
    "does what NPDU.decode does; in family D and the 'network-layer' configurations of part 2 it is the library's own NetworkAdapter / "
    "NetworkServiceAccessPoint with a tap that passes the same PDU object on); what such a network layer delivers to the application "
    "recorder must be the originator's APDU (global broadcast Who-Is), once per NPDU copy",
    "part 2/3 run on a perfect zero-latency network: the only nondeterminism is the history; datagram loss is limited to the device's own Register-Foreign-Device requests",
    "instants exactly on a lifetime boundary (within 1 ms) are not judged; whether a BBMD must refuse Distribute-Broadcast from a sender it does "
    "not list (deleted, expired, never registered) is not judged: it may distribute nothing, but if it sends a Forwarded-NPDU for it to anybody "
    "it performs J.4.5's forwarding function, which includes every device currently in its table - each registered device other than the sender "
    "that is inside its time-to-live must then be sent the broadcast and be handed it exactly once; who else gets it is not judged "
    "(duplicates, echo and source always are)",
    "the grace period is the standard's 30 s: an implementation may drop an entry anywhere in [TTL, TTL+30 s]",
]
BOUNDS = {
    "quick": "part1 <=3 subnets, <=2 foreign devices, d<=1 reordering, real network layers above B/IP on the layouts with <=2 subnets and on "
             "3 BBMD subnets with one ordinary node each; part2 1 foreign device: closure (histories of any length) "
             "without datagram loss on a two-hop (recorders, and real network layers on every node) and a one-hop internetwork and with the "
             "device on the other BBMD's wire, depth<=7 with "
             "lost renewals, depth<=4 when the device may move between the two BBMDs (lost renewals included); 3 devices in one table, one "
             "driven (TTL 2, lost renewals, deletion, unregistration): depth<=5 after the setup with the driven device in the middle of the "
             "table, <=4 with it first; part3 TTL 1..300 x 2 phases",
    "thorough": "part1 <=4 subnets, <=3 foreign devices, d<=1 reordering, real network layers above B/IP on the layouts with <=3 subnets; "
                "part2 1 device: closure without loss (also with real network layers: every node two-hop, BBMDs one-hop), with lost renewals "
                "closure attempted on the two-hop internetwork (depth<=70, reported per configuration) and depth<=8 one-hop; "
                "moving between two BBMDs depth<=6 (two-hop), <=5 (one-hop, lost renewals; device on a third BBMD's wire); "
                "2 devices: depth<=8 without loss, <=6 with lost renewals; 3 devices in one table: one driven depth<=6 (TTL 1..3, mid-table) "
                "and <=7 (TTL 2, first in table) with lost renewals, two driven depth<=5 without loss; part3 TTL 1..300 x 4 phases, every 0.5 s",
}

SUB_OPTS = [(1, 0), (1, 1), (1, 2), (0, 1), (0, 2)]
P1_TTL = 300


# ===================================================================================== part 1: configurations

def _subsets(xs):
    for r in range(len(xs) + 1):
        for c in itertools.combinations(xs, r):
            yield list(c)


def _mask_choices(bb, limit=None):
    out = []
    for combo in itertools.product(("host", "subnet"), repeat=len(bb)):
        out.append({str(b): m for b, m in zip(bb, combo)})
    if limit and len(out) > limit:
        alt = {str(b): ("host", "subnet")[k % 2] for k, b in enumerate(bb)}
        out = [out[0], out[-1], alt]
    return out or [{}]


def p1_layouts(tier):
    """Family A: every shape with full tables.  Family B: every combination of partial tables on fixed shapes."""
    max_sub = 3 if tier == "quick" else 4
    max_fd = 2 if tier == "quick" else 3
    out = []
    for n in range(1, max_sub + 1):
        for subs in itertools.combinations_with_replacement(SUB_OPTS, n):
            bb = [i for i, s in enumerate(subs) if s[0]]
            k = len(bb)
            top_fd = max_fd if k < 4 else 2
            fdopts = [list(c) for r in range(0, top_fd + 1) for c in itertools.combinations_with_replacement(bb, r)] if k else [[]]
            for mask in _mask_choices(bb, limit=None if k < 4 else 3):
                for fds in fdopts:
                    out.append({"subnets": [list(s) for s in subs], "fds": fds, "bdt": "full", "mask": mask, "family": "A"})
    # family B
    shapes = []
    for k in ((2, 3) if tier == "quick" else (2, 3, 4)):
        shapes.append(([(1, 1)] * k, list(range(k))))                       # one ordinary node + one foreign device per BBMD
        if k == 2 or (k == 3 and tier != "quick"):
            shapes.append(([(1, 1)] * k + [(0, 1)], list(range(k))))        # plus a subnet without BBMD
        if k < 4:
            shapes.append(([(1, 2)] + [(1, 0)] * (k - 1), [0, 0]))          # two devices at one BBMD, bare peers
    for subs, fds in shapes:
        bb = [i for i, s in enumerate(subs) if s[0]]
        k = len(bb)
        if k <= 3:
            tables = [dict(zip([str(b) for b in bb], combo))
                      for combo in itertools.product(*[list(_subsets([p for p in bb if p != b])) for b in bb])]
        else:
            full = {str(b): [p for p in bb if p != b] for b in bb}
            tables = []
            for b in bb:                                                    # exactly one BBMD with a proper subset
                for sub in _subsets([p for p in bb if p != b]):
                    if len(sub) < k - 1:
                        t = dict(full)
                        t[str(b)] = sub
                        tables.append(t)
            tables.append({str(b): [] for b in bb})                         # nobody lists anybody
            tables.append({str(b): [bb[(i + 1) % k]] for i, b in enumerate(bb)})        # ring
            tables.append({str(b): ([p for p in bb if p != b] if i == 0 else [bb[0]]) for i, b in enumerate(bb)})   # star
        for t in tables:
            if all(len(t[str(b)]) == k - 1 for b in bb):
                continue                                                    # the full table is family A's business
            for mask in _mask_choices(bb, limit=None if k < 4 else 3):
                out.append({"subnets": [list(s) for s in subs], "fds": list(fds), "bdt": t, "mask": mask, "family": "B"})
    return out


def p1_layouts_wire(tier):
    """Family C: foreign devices whose IP address lies on the wire of a BBMD other than the one they are registered with
    (next to that BBMD and its ordinary nodes).  Returns (layouts inside the statement, number of candidates outside).

    Candidates: 2 [thorough: 2..3] BBMD subnets with 0/1 ordinary node each (every ordered combination), with and without
    an extra subnet that has no BBMD; for 3 BBMD subnets in the quick tier all with / all without an ordinary node.  Device 0
    is registered with BBMD 0 and sits on the wire of BBMD 1; an optional device 1 is registered with any BBMD and sits on
    a subnet of its own or on the wire of any other BBMD.  Every mask assignment; full tables, and on the shapes with one
    ordinary node per subnet every combination of partial tables as well.  A candidate is outside the statement when Annex
    J itself hands a device two copies (bbmdref.Topology.registrar_copies): the registrar lists the BBMD of the device's
    wire with a subnet mask, so that its directed broadcast arrives on that wire with the registrar's own address."""
    from bv.stacks.bipsys import layout_topology, layout_fdt
    cands = []

    def fd_options(k):
        opts = [([0], [1])]
        for r in range(k):
            for w in [None] + [x for x in range(k) if x != r]:
                opts.append(([0, r], [1, w]))
        return opts

    for k in (2, 3):
        ords = list(itertools.product((0, 1), repeat=k))
        if k == 3 and tier == "quick":
            ords = [(0, 0, 0), (1, 1, 1)]
        for o in ords:
            for extra in ((), ((0, 1),)):
                if k == 3 and extra and tier == "quick":
                    continue
                subs = [[1, n] for n in o] + [list(e) for e in extra]
                bb = list(range(k))
                tables = ["full"]
                if all(o) and not extra:
                    combos = itertools.product(*[list(_subsets([p_ for p_ in bb if p_ != b])) for b in bb])
                    part = [dict(zip([str(b) for b in bb], c)) for c in combos]
                    part = [t for t in part if not all(len(t[str(b)]) == k - 1 for b in bb)]
                    if k == 3 and tier == "quick":
                        # quick: the tables in which exactly one BBMD has a proper subset of peers
                        part = [t for t in part if sum(1 for b in bb if len(t[str(b)]) < k - 1) == 1]
                    tables += part
                for t in tables:
                    fdo = fd_options(k) if t == "full" else [([0], [1])] + ([([0, 1], [1, 2])] if k == 3 else [([0, 1], [1, 0])])
                    for mask in _mask_choices(bb):
                        for fds, wires in fdo:
                            cands.append({"subnets": subs, "fds": list(fds), "fdwire": list(wires), "bdt": t, "mask": mask, "family": "C"})
    out, outside = [], 0
    for lay in cands:
        if layout_topology(lay).inside_statement(layout_fdt(lay)):
            out.append(lay)
        else:
            outside += 1
    return out, outside


def lay_key(lay):
    return (tuple(map(tuple, lay["subnets"])), tuple(lay["fds"]), repr(lay["bdt"]), repr(lay["mask"]),
            tuple(lay.get("fdwire") or ()), repr(lay.get("upper", "rec")))


NSAP_ALL = "nsap"                       # every node carries the library's network layer above its B/IP layer
NSAP_BBMD = {"bbmd": "nsap"}            # the BBMDs do (as a BBMD device does), the others have the consuming recorder


def p1_layouts_upper(tier, lays):
    """Family D: layouts of families A, B and C run again with the real network layer (NetworkServiceAccessPoint +
    NetworkServiceElement, an application recorder above) bound to the B/IP layers instead of the recorder: on every node,
    and on the BBMDs only.  Quick: every layout with at most 2 subnets in both variants, and the family A layouts with 3 BBMD subnets
    of one ordinary node each (every placement of 0..2 foreign devices, full tables, every mask assignment) with the network
    layer on every node.  Thorough: every layout with at most 3 subnets on every node, those with at most 2 subnets on the
    BBMDs only as well."""
    out = []
    for lay in lays:
        n = len(lay["subnets"])
        variants = []
        if n <= 2:
            variants = [NSAP_ALL, NSAP_BBMD]
        elif tier == "quick":
            if lay["family"] == "A" and all(tuple(s_) == (1, 1) for s_ in lay["subnets"]):
                variants = [NSAP_ALL]
        elif n == 3:
            variants = [NSAP_ALL]
        for u in variants:
            d = dict(lay)
            d["upper"] = u
            d["family"] = "D"
            d["base_family"] = lay["family"]
            out.append(d)
    return out


def p1_execute(lay, origin, choices, max_steps=600):
    """Build the system, register the foreign devices over a perfect network, then let `origin` broadcast and
    deliver under the explorer's control.  Returns (system, points, payload)."""
    sysm = BipSystem(lay)
    for fd in sorted(sysm.life):
        sysm.register(fd, P1_TTL)
    payload = sysm.originate(origin)
    points = []
    i = 0
    while sysm.wire.inflight:
        fl = sysm.wire.inflight
        menu = [("deliver0", 0)]
        for j in range(1, len(fl)):
            # partial-order reduction: overtaking only matters if an overtaken datagram is on the same network
            if any(fl[m].net is fl[j].net for m in range(j)):
                menu.append(("deliver%d" % j, 1))
            else:
                menu.append(None)
        live = [m for m in menu if m is not None]
        idx = 0
        if i < len(choices):
            idx = choices[i]
            if idx >= len(live):
                raise HarnessError("C13 part1 replay diverged at point %d: choice %d not in menu %r" % (i, idx, live))
        points.append((live, idx))
        sysm.step(int(live[idx][0][7:]))
        i += 1
        if i >= max_steps:
            sysm.storm = True
            break
    return sysm, points, payload


def kind_of(nid):
    return {"b": "bbmd", "o": "ord", "f": "fd"}[nid[0]]


def judge_broadcast(sysm, origin, payload, expected, since=0.0, may=(), undecided=False):
    """Compare what the recorders saw with the reference.  `expected`: set of nodes that must get exactly one copy;
    `may`: nodes that may get zero or one; undecided: only duplicates / echo / source are judged.
    Returns [(problem, victim, detail)]"""
    problems = []
    got = sysm.copies(payload, since)
    src6 = sysm.nodes[origin].addr6
    for nid in sysm.order:
        c = got[nid]
        if nid == origin:
            if c:
                problems.append(("echo-to-originator", nid, len(c)))
            continue
        if len(c) > 1:
            problems.append(("duplicate", nid, len(c)))
        elif not undecided and nid not in may:
            if nid in expected and not c:
                problems.append(("not-delivered", nid, 0))
            elif nid not in expected and c:
                problems.append(("unexpected-recipient", nid, len(c)))
        for (src, dst) in c[:1]:
            if src != (2, src6):
                problems.append(("wrong-source", nid, {"source": src[1].hex(), "originator": src6.hex()}))
            if dst[0] != 1:
                problems.append(("destination-not-local-broadcast", nid, dst[0]))
    # the octets: whatever a B/IP layer handed up since this broadcast was originated is this broadcast's NPDU, unaltered
    for nid in sysm.order:
        other = [r for r in sysm.handed_up(nid) if r[3] != payload]
        if other:
            problems.append(("payload-altered", nid, {"handed_up": other[0][3].hex(), "sent": payload.hex(), "records": len(other),
                                                      "source": other[0][1][1].hex()}))
    # nodes that carry the real network layer: it delivers to the application what it was handed, once per copy
    want = None
    for nid in sysm.order:
        if sysm.nodes[nid].upper != "nsap":
            continue
        if want is None:
            want = bbmdref.split_npdu(payload)
        app = sysm.app_delivered(nid)
        # an unconfirmed request: PDU type in the high nibble of the first octet, service choice, service request
        head, body = (want["apdu"][0] >> 4, want["apdu"][1]), want["apdu"][2:]
        good = [r for r in app if r[3] == body and r[4] == head and r[1] == (2, src6) and r[2][0] == 5]
        if len(good) != len(app):
            bad = [r for r in app if r not in good][0]
            problems.append(("application-handed-something-else", nid, {
                "apdu": bad[3].hex(), "type_and_service": bad[4], "source": bad[1][1].hex(), "destination_type": bad[2][0],
                "sent_apdu": want["apdu"].hex(), "originator": src6.hex()}))
        elif len(good) != len(got[nid]):
            problems.append(("network-layer-above-could-not-use-it", nid, {"npdu_copies": len(got[nid]), "apdus_delivered": len(good)}))
    if sysm.storm:
        problems.append(("storm", origin, "more datagrams than the horizon"))
    return problems, got


def p1_record(acc, lay, origin, sysm, points, payload, confirm=True):
    topo = sysm.topo
    fdt = sysm.fdt_served()
    if set(f for s in fdt.values() for f in s) != set(sysm.life):
        # registration itself failed: report once, through the lifetime signature
        acc.fail("fd:not-served-while-registered:setup", {"layout": lay, "results": sysm.results},
                 {"part": 1, "layout": lay, "origin": origin, "choices": []})
    expected = topo.receivers(origin, fdt)
    if expected is None:
        raise HarnessError("reference undecided for a registered originator %s in %r" % (origin, lay))
    cnt = topo.copies(origin, fdt)
    if any(v != 1 for v in cnt.values()) or set(cnt) != expected:
        raise HarnessError("reference: layout outside the statement (multiset %r) %r" % (dict(cnt), lay))
    full = topo.is_full()
    if full and expected != topo.all_nodes() - {origin}:
        raise HarnessError("reference disagrees with the statement on a full-table layout %r" % (lay,))
    problems, got = judge_broadcast(sysm, origin, payload, expected)
    choices = [idx for (m, idx) in points]
    acc.case(("p1", lay_key(lay), origin, tuple(choices)))
    acc.traces += 1
    acc.transitions += len(points)
    acc.max_depth = max(acc.max_depth, len(points))
    acc.outcome("p1:%s:%s:reached=%d/%d" % ("full" if full else "partial", kind_of(origin), len(expected), len(sysm.order) - 1))
    up = lay.get("upper", "rec")
    if up != "rec":
        napp = sum(len(sysm.app_delivered(n_)) for n_ in sysm.order)
        acc.outcome("p1:network-layer-on=%s:originator-has-it=%s:applications-reached=%s" % (
            "all" if up == NSAP_ALL else "+".join(sorted(up)), sysm.nodes[origin].upper == "nsap", "none" if not napp else "some"))
        acc.add_info("part1 APDUs delivered to application recorders by real network layers", napp)
        acc.add_info("part1 executions with real network layers above B/IP (family D)", 1)
    for name, msg in sysm.swallowed():
        acc.swallowed["%s: %s" % (name, msg[:80])] += 1
    if problems and confirm and not any(s_.startswith("bcast:") for s_ in acc.fails):
        # every (first) violating execution is re-run twice more; a different verdict is a harness error, not a finding
        for _ in range(2):
            s2, pts2, pl2 = p1_execute(lay, origin, choices)
            again, _got = judge_broadcast(s2, origin, pl2, expected)
            if again != problems:
                raise HarnessError("C13 part1: violating execution does not reproduce: %r vs %r" % (problems, again))
    for prob, victim, detail in problems:
        sig = "bcast:%s:origin=%s:at=%s:%s-table" % (prob, kind_of(origin), kind_of(victim), "full" if full else "partial")
        acc.fail(sig, {"problem": prob, "at": victim, "detail": detail, "origin": origin, "layout": lay,
                       "expected": sorted(expected), "copies": {k: len(v) for k, v in got.items()},
                       "schedule": explorer.labels(points), "swallowed": sysm.swallowed()[:4]},
                 {"part": 1, "layout": lay, "origin": origin, "choices": choices})
    return problems


def p1_shard(item, deadline):
    acc = Acc()
    bound, lays = item
    for lay in lays:
        if time.time() > deadline:
            acc.cap("part1: deadline inside the configuration list")
            break
        probe = BipSystem(lay)
        origins = list(probe.order)
        for origin in origins:
            def run(prefix, lay=lay, origin=origin):
                sysm, points, payload = p1_execute(lay, origin, prefix)
                return (sysm, payload), points

            def on_exec(x, points, prefix, lay=lay, origin=origin):
                p1_record(acc, lay, origin, x[0], points, x[1])

            n, capped = explorer.explore(run, bound, on_exec, deadline)
            if capped:
                acc.cap("part1: deadline inside the reorderings of one broadcast")
                break
        acc.add_info("part1 configurations", 1)
        acc.add_info("part1 broadcasts", len(origins))
    return acc


# ===================================================================================== part 2: histories

class Hist(object):
    """One history on a fresh system: apply(event) executes it on the real objects and judges it."""

    def __init__(self, cfg):
        self.cfg = cfg
        self.sys = BipSystem(cfg["layout"])
        self.manager = cfg["manager"]
        self.problems = []          # (signature, detail)
        self.labels = []            # outcome labels of what was observed (drained by the caller)
        self.trace = []

    # ---- alphabet
    def changing_events(self):
        s = self.sys
        now = vclock.clock.now
        ev = []
        lapsing = False
        homes = self.cfg.get("homes")       # BBMDs a device may register with (default: its home BBMD only)
        # `actors`: the devices whose registration the history drives (default: all); the others stay as the setup
        # history of the configuration left them (registered, renewing by themselves)
        for fd in (self.cfg.get("actors") or sorted(s.life)):
            life = s.life[fd]
            for ttl in self.cfg["ttls"]:
                if homes:
                    ev.extend(("reg", fd, ttl, b) for b in homes)
                else:
                    ev.append(("reg", fd, ttl))
            if life.mode == "wanted":
                ev.append(("unreg", fd))
            home = s.fd_home[fd]
            for b in (homes or [home]):
                r = life.rec.get(b)
                if r is not None and not r[2]:
                    ev.append(("del", fd, b) if homes else ("del", fd))
            if self.cfg.get("mute"):
                if fd in s.muted:
                    ev.append(("pass", fd))
                elif life.mode == "wanted":
                    ev.append(("lose", fd))
            # a registration is lapsing: renewals are being lost, or the device unregistered and may still be listed,
            # or it moved its registration away from a BBMD that may still list it
            if fd in s.muted:
                lapsing = True
            for b in (homes or [home]):
                r = life.rec.get(b)
                if r is None or r[2] or life.listed(now, b) == "mustnot":
                    continue
                if life.mode == "unregistered" or (life.mode == "wanted" and b != life.bbmd):
                    lapsing = True
        ev.append(("adv", 0.5))
        ev.append(("adv", 1.0))
        if lapsing:
            ev.append(("adv", 30.0))
        return ev

    def probes(self):
        return [("bcast", n) for n in self.cfg["sources"]] + [("read", b) for b in self.cfg["read"]]

    # ---- execution + oracle
    def apply(self, ev):
        ev = tuple(ev)
        self.trace.append(ev)
        s = self.sys
        kind = ev[0]
        try:
            if kind == "reg":
                s.register(ev[1], ev[2], ev[3] if len(ev) > 3 else None)
            elif kind == "unreg":
                s.unregister(ev[1])
            elif kind == "del":
                s.delete_entry(self.manager, ev[2] if len(ev) > 2 else s.fd_home[ev[1]], ev[1])
            elif kind == "lose":
                s.muted.add(ev[1])
            elif kind == "pass":
                s.muted.discard(ev[1])
            elif kind == "adv":
                s.advance(ev[1])
            elif kind == "bcast":
                self._probe_broadcast(ev[1])
            elif kind == "read":
                self._probe_read(ev[1])
            else:
                raise ValueError(ev)
        except vclock.Livelock as err:
            self.problems.append(("env:livelock", {"event": ev, "error": str(err)}))
        self._state_invariants(ev)

    def _state_invariants(self, ev):
        s = self.sys
        now = vclock.clock.now
        for fd in sorted(s.life):
            life = s.life[fd]
            if life.renewal_overdue(now):
                self.problems.append(("fd:renewal-late", {
                    "fd": fd, "now": now, "last_request": life.last_reg, "ttl": life.ttl,
                    "status": s.nodes[fd].bip.registrationStatus}))
        if s.storm:
            self.problems.append(("bcast:storm", {"event": ev}))

    def _probe_broadcast(self, origin):
        s = self.sys
        now = vclock.clock.now
        must = s.fdt_served(now, "must")
        mayset = set(fd for fd, life in s.life.items() if life.served(now) == "may")
        undecided = False
        if origin in s.life:
            if s.life[origin].served(now) == "must":
                expected = s.topo.receivers(origin, must)
            else:
                expected, undecided = set(), True
        else:
            expected = s.topo.receivers(origin, must)
        n0 = len(s.wire.log)
        payload = s.originate(origin)
        s.flush()
        problems, got = judge_broadcast(s, origin, payload, expected, may=mayset, undecided=undecided)
        if undecided:
            self._unlisted_sender(origin, payload, n0, must, got, now)
        if origin in s.life and not undecided and any(p[0] == "not-delivered" for p in problems):
            node = s.nodes[origin]
            left = any(e[1] == node.net.name and e[2] == str(node.tuple) and e[4].endswith(payload) for e in s.wire.log[n0:])
            if not left:
                # one root cause, not one failure per node that misses the broadcast
                self.problems.append(("fd:not-served-while-registered:status=%s:own-broadcast-dropped-by-device" % node.bip.registrationStatus,
                                      {"origin": origin, "now": now, "status": node.bip.registrationStatus,
                                       "life": s.life[origin].canon(now), "copies": {k: len(v) for k, v in got.items()}}))
                problems = [p for p in problems if p[0] != "not-delivered"]
        for prob, victim, detail in problems:
            info = {"origin": origin, "at": victim, "now": now, "detail": detail,
                    "copies": {k: len(v) for k, v in got.items()}, "expected": sorted(expected), "may": sorted(mayset)}
            if victim in s.life and prob in ("not-delivered", "unexpected-recipient"):
                life = s.life[victim]
                node = s.nodes[victim]
                onwire = any(e[1] == node.net.name and e[3] == str(node.tuple) and e[4][1:2] == b"\x04" and e[4].endswith(payload)
                             for e in s.wire.log[n0:])
                info.update({"status": node.bip.registrationStatus, "forwarded_on_wire": onwire, "life": life.canon(now)})
                if prob == "not-delivered":
                    sig = "fd:not-served-while-registered:status=%s:%s" % (
                        node.bip.registrationStatus, "dropped-by-device" if onwire else "not-forwarded")
                elif life.served(now) == "mustnot":
                    sig = "fd:served-after-%s" % life.why(now)
                else:
                    sig = "bcast:unexpected-recipient:origin=%s:at=fd" % kind_of(origin)
            elif undecided or origin in s.life:
                sig = "bcast:%s:origin=fd:at=%s" % (prob, kind_of(victim))
            else:
                sig = "bcast:%s:origin=%s:at=%s" % (prob, kind_of(origin), kind_of(victim))
            self.problems.append((sig, info))

    def _unlisted_sender(self, origin, payload, n0, must, got, now):
        """The originator is a foreign device that nobody has to serve at this instant (never acknowledged, entry deleted,
        time-to-live over, unregistered).  If it still believes it is registered it sends a Distribute-Broadcast all the
        same.  The BBMD may ignore it; if it distributes it at all, every foreign device registered with that BBMD and
        inside its time-to-live gets it, once (bbmdref.unlisted_sender_rule; duplicates, echo and source were judged by
        judge_broadcast)."""
        s = self.sys
        name = {str(n.tuple): n.ref_addr for n in s.nodes.values()}
        ids = {n.ref_addr: nid for nid, n in s.nodes.items()}
        dgrams = [(name.get(e[2], e[2]), name.get(e[3], e[3]), e[4]) for e in s.wire.log[n0:]]
        registered = {s.nodes[b].ref_addr: set(s.nodes[f].ref_addr for f in must.get(b, ()) if f != origin)
                      for b in s.order if s.nodes[b].kind == "bbmd"}
        asked, acted, missed = bbmdref.unlisted_sender_rule(dgrams, s.nodes[origin].ref_addr, payload, registered)
        status = s.nodes[origin].bip.registrationStatus
        if not asked:
            self.labels.append("p2:unserved-sender:status=%s:sends-nothing" % status)
        for b in asked:
            cls = s.life[origin].served(now)
            self.labels.append("p2:unserved-sender:status=%s:serving-it-%s%s:bbmd-%s:registered-others=%d" % (
                status, cls, "(%s)" % s.life[origin].why(now) if cls == "mustnot" else "",
                "distributes" if b in acted else "ignores", len(registered[b])))
        for b in acted:
            for f in sorted(registered[b]):
                fid = ids[f]
                left_out = f in missed.get(b, ())
                if not left_out and got[fid]:
                    continue
                node = s.nodes[fid]
                self.problems.append((
                    "fd:not-served-while-registered:status=%s:%s" % (
                        node.bip.registrationStatus,
                        "left-out-of-the-distribution-of-an-unlisted-sender's-broadcast" if left_out else "dropped-by-device"),
                    {"origin": origin, "origin_status": status, "origin_is": s.life[origin].why(now), "bbmd": ids[b], "at": fid,
                     "now": now, "registered_with_that_bbmd": sorted(ids[x] for x in registered[b]),
                     "forwarded_to": sorted(ids.get(x, x) for x in (registered[b] - set(missed.get(b, ())))),
                     "copies": {k: len(v) for k, v in got.items()}, "life": s.life[fid].canon(now)}))

    def _probe_read(self, bbmd):
        s = self.sys
        now = vclock.clock.now
        entries = s.read_fdt(self.manager, bbmd)
        if entries is None:
            self.problems.append(("fdt:no-reply", {"bbmd": bbmd, "now": now}))
            return
        addrs = [e[0] for e in entries]
        if len(addrs) != len(set(addrs)):
            self.problems.append(("fdt:device-listed-twice", {"bbmd": bbmd, "entries": entries}))
        for fd in sorted(s.life):
            life = s.life[fd]
            cls = life.listed(now, bbmd)
            there = s.nodes[fd].ref_addr in addrs
            info = {"fd": fd, "bbmd": bbmd, "now": now, "entries": entries, "life": life.canon(now)}
            if cls == "must" and not there:
                self.problems.append(("fdt:not-listed-while-registered", info))
            elif cls == "mustnot" and there:
                self.problems.append(("fdt:listed-after-%s" % life.why(now, bbmd), info))

    def observation(self):
        s = self.sys
        return (s.wire.log, [(n, s.nodes[n].up, s.nodes[n].app) for n in s.order], s.fdt_replies, s.results, vclock.clock.now,
                [p[0] for p in self.problems])


def p2_configs(tier):
    """(configuration, depth bound, state cap).  `mute`: the lose/pass-renewals events are in the alphabet."""
    two = {"subnets": [[1, 1], [1, 1]], "fds": [0], "bdt": "full", "mask": "host"}
    one = {"subnets": [[1, 1], [1, 1]], "fds": [0], "bdt": "full", "mask": "subnet"}
    src = ["o0a", "o1a", "b0", "f0"]

    def cfg(label, layout, mute, sources=src, read=("b0",), ttls=(1, 2, 3), manager="o0a", homes=None, setup=None, actors=None):
        c = {"layout": layout, "sources": list(sources), "read": list(read), "manager": manager, "ttls": list(ttls),
             "mute": mute, "label": label}
        if setup:
            c["setup"] = [list(e) for e in setup]       # every history begins with these events
        if actors:
            c["actors"] = list(actors)                  # the devices the histories drive; the others stay as set up
        if homes:
            # the device may register with any of these BBMDs: histories in which it moves its registration, with and
            # without unregistering first; every one of them is read in every state
            c["homes"] = list(homes)
            c["read"] = list(homes)
        return c

    both = ("b0", "b1")

    # a device on the wire of BBMD 1 (next to it and its ordinary node) registered with BBMD 0; the same on the wire of a
    # third BBMD, moving between the other two
    wired = {"subnets": [[1, 1], [1, 1]], "fds": [0], "fdwire": [1], "bdt": "full", "mask": "host"}
    # without datagram loss the state space is finite and small: the bound 60 is never reached, the search ends when the
    # frontier is empty (closure: every history of any length over this alphabet has been judged)
    # the same two-hop internetwork with the library's network layer above every B/IP layer (broadcasts are real APDUs
    # through NetworkServiceAccessPoint, what the application recorders get is judged too)
    two_nl = dict(two, upper=NSAP_ALL)
    one_nl = dict(one, upper=NSAP_BBMD)
    # three devices in one table, two of them registered for a long time and left alone, the histories drive the third: its
    # entry is deleted (it is not told), its renewals are lost (the BBMD drops it 25 s before the device itself gives up),
    # it unregisters, comes back (then last in the table) - and it broadcasts in every state, listed or not.  The other two
    # are inside their time-to-live throughout: they are owed every broadcast the BBMD distributes.
    three = {"subnets": [[1, 1], [1, 1]], "fds": [0, 0, 0], "bdt": "full", "mask": "host"}
    src3 = ["o1a", "f0", "f2"]
    mid = [("reg", "f1", 60), ("reg", "f0", 2), ("reg", "f2", 60)]
    first = [("reg", "f0", 2), ("reg", "f1", 60), ("reg", "f2", 60)]
    if tier == "quick":
        return [
            (cfg("1fd-two-hop", two, False), 60, 100000),
            (cfg("1fd-two-hop-network-layer", two_nl, False), 60, 100000),
            (cfg("1fd-one-hop", one, False, manager="o1a"), 60, 100000),
            (cfg("1fd-moves-two-hop-lost-renewals", two, True, homes=both), 4, 100000),
            (cfg("1fd-on-peer-wire-two-hop", wired, False), 60, 100000),
            (cfg("3fd-one-table-driven-device-mid-table-lost-renewals", three, True, sources=src3, ttls=(2,), setup=mid, actors=["f0"]), 5, 100000),
            (cfg("3fd-one-table-driven-device-first-in-table-lost-renewals", three, True, sources=src3, ttls=(2,), setup=first, actors=["f0"]), 4, 100000),
            (cfg("1fd-two-hop-lost-renewals", two, True), 7, 100000),
        ]
    wired3 = {"subnets": [[1, 1], [1, 0], [1, 1]], "fds": [0], "fdwire": [2], "bdt": "full", "mask": {"0": "subnet", "1": "host", "2": "host"}}
    twofd = {"subnets": [[1, 1], [1, 0]], "fds": [0, 1], "bdt": "full", "mask": "host"}
    samefd = {"subnets": [[1, 1]], "fds": [0, 0], "bdt": "full", "mask": "host"}
    return [
        (cfg("1fd-two-hop", two, False), 60, 2000000),
        (cfg("1fd-one-hop", one, False, manager="o1a"), 60, 2000000),
        (cfg("1fd-two-hop-network-layer", two_nl, False), 60, 2000000),
        (cfg("1fd-one-hop-network-layer-on-bbmds", one_nl, False, manager="o1a"), 60, 2000000),
        (cfg("1fd-one-hop-lost-renewals", one, True, manager="o1a"), 8, 2000000),
        (cfg("2fd-two-bbmds", twofd, False, sources=["o0a", "b1", "f0", "f1"], read=["b0", "b1"], ttls=(1, 3)), 8, 2000000),
        (cfg("2fd-one-bbmd-lost-renewals", samefd, True, sources=["o0a", "f0", "f1"], ttls=(1, 2)), 6, 2000000),
        (cfg("1fd-on-peer-wire-two-hop", wired, False), 60, 2000000),
        (cfg("1fd-moves-two-hop", two, False, homes=both), 6, 2000000),
        (cfg("1fd-moves-one-hop-lost-renewals", one, True, manager="o1a", homes=both), 5, 2000000),
        (cfg("1fd-on-third-wire-moves", wired3, False, sources=["o0a", "b1", "o2a", "f0"], homes=both), 5, 2000000),
        (cfg("3fd-one-table-driven-device-mid-table-lost-renewals", three, True, sources=src3, setup=mid, actors=["f0"]), 6, 2000000),
        (cfg("3fd-one-table-driven-device-first-in-table-lost-renewals", three, True, sources=src3, ttls=(2,), setup=first, actors=["f0"]), 7, 2000000),
        (cfg("3fd-one-table-two-driven-devices", three, False, sources=["o1a", "f0", "f1", "f2"], ttls=(2,), setup=mid, actors=["f0", "f2"]), 5, 2000000),
        # last, with whatever is left of part 2's share: closes at about 75 000 states when it is given the time
        (cfg("1fd-two-hop-lost-renewals", two, True), 70, 400000),
    ]


def p2_replay(cfg, hist):
    h = Hist(cfg)
    for ev in hist:
        h.apply(ev)
    return h


def p2_expand(item, deadline):
    (cfg, max_depth), hists = item
    acc = Acc()
    nxt = []

    def note(h, ev, hist):
        acc.transitions += 1
        acc.evaluations += 1
        for lab in h.labels:
            acc.outcome(lab)
            if lab.endswith("sends-nothing"):
                continue
            acc.add_info("part2 broadcasts of a device that is not (any longer) owed service and still sends: the BBMD %s" % (
                "distributed it (every registered device of its table must get it once)" if "bbmd-distributes" in lab else "ignored it"), 1)
        del h.labels[:]
        for name, msg in h.sys.swallowed():
            acc.swallowed["%s: %s" % (name, msg[:80])] += 1
        for sig, detail in h.problems:
            if sig not in acc.fails:
                # first violating history per signature and shard: replay it twice more
                for _ in range(2):
                    again = p2_replay(cfg, tuple(hist) + (ev,))
                    if [p_[0] for p_ in again.problems] != [p_[0] for p_ in h.problems]:
                        raise HarnessError("C13 part2: violating history does not reproduce: %r: %r vs %r" % (
                            list(hist) + [ev], [p_[0] for p_ in h.problems], [p_[0] for p_ in again.problems]))
            acc.fail(sig, {"problem": sig, "detail": detail, "history": list(hist) + [ev], "cfg": cfg["label"],
                           "swallowed": h.sys.swallowed()[:4]},
                     {"part": 2, "cfg": cfg, "hist": [list(e) for e in hist] + [list(ev)]})
        return bool(h.problems)

    for hist in hists:
        if time.time() > deadline:
            acc.cap("part2 %s: deadline inside frontier expansion" % cfg["label"])
            break
        h = p2_replay(cfg, hist)
        if h.problems:
            raise HarnessError("C13 part2: history %r was clean when generated and fails when replayed: %r" % (hist, h.problems[:1]))
        del h.labels[:]
        acc.traces += 1
        base = h64(h.sys.canon_state())
        events = h.changing_events() if len(hist) < max_depth else []
        fresh = True                    # h is (canonically) in the state reached by `hist`
        for ev in h.probes():
            if not fresh:
                h = p2_replay(cfg, hist)
                del h.labels[:]
                fresh = True
            h.apply(ev)
            bad = note(h, ev, hist)
            now = vclock.clock.now
            if ev[0] == "bcast":
                label = "bcast:%s:fd=%s" % (kind_of(ev[1]), ",".join(h.sys.life[f].served(now) for f in sorted(h.sys.life)))
            else:
                label = "read:fd=%s" % ",".join(h.sys.life[f].listed(now, ev[1]) for f in sorted(h.sys.life))
            acc.outcome("p2:" + label)
            k = h64(h.sys.canon_state())
            if bad:
                fresh = False
            elif k != base:
                fresh = False           # a probe that changes the state is an ordinary transition
                if len(hist) < max_depth:
                    nxt.append((k, tuple(hist) + (ev,)))
        for ev in events:
            if not fresh:
                h = p2_replay(cfg, hist)
                del h.labels[:]
            fresh = False
            h.apply(ev)
            bad = note(h, ev, hist)
            acc.outcome("p2:%s" % ev[0])
            if not bad:
                nxt.append((h64(h.sys.canon_state()), tuple(hist) + (ev,)))
    acc.info["next"] = nxt
    return acc


def p2_bfs(cfg, depth, cap, deadline, acc):
    """Level-synchronous BFS.  Level L expands the histories of length L; at L == depth only the probes run.
    `closed` means the frontier emptied before the depth bound, with nothing cut short."""
    label = "part2[%s]" % cfg["label"]
    # `setup`: a history every history of this configuration begins with (the search starts in the state it leaves; the depth
    # bound counts what follows).  It is judged like any other history: if it fails there is nothing to search from.
    root = tuple(tuple(e) for e in cfg.get("setup", ()))
    h0 = p2_replay(cfg, root)
    if h0.problems:
        for sig, detail in h0.problems:
            acc.fail(sig, {"problem": sig, "detail": detail, "history": list(root), "cfg": cfg["label"]},
                     {"part": 2, "cfg": cfg, "hist": [list(e) for e in root]})
        acc.info["%s states" % label] = 0
        return False
    seen = {h64(h0.sys.canon_state())}
    frontier = [root]
    closed = False
    reached = 0
    for level in range(depth + 1):
        if not frontier:
            closed = True
            break
        if time.time() > deadline:
            acc.cap("%s: deadline at depth %d with %d frontier states" % (label, level, len(frontier)))
            break
        if len(seen) > cap:
            acc.cap("%s: state cap %d reached at depth %d" % (label, cap, level))
            break
        n = min(len(frontier), WORKERS * 4)
        sub = run_shards(p2_expand, [((cfg, depth + len(root)), c) for c in chunks(frontier, n)], deadline, persistent=True)
        nxt = sub.info.pop("next", [])
        cut = bool(sub.caps)
        acc.merge(sub)
        reached = level
        frontier = []
        for k, hist in nxt:
            if k not in seen:
                seen.add(k)
                frontier.append(tuple(hist))
        if cut:
            break
    for k in seen:
        acc.states.add(k)
        acc.keys.add(k)
    acc.max_depth = max(acc.max_depth, reached)
    acc.info["%s states" % label] = len(seen)
    acc.info["%s depth" % label] = reached
    acc.info["%s closed" % label] = closed
    acc.closed = closed if acc.closed is None else (acc.closed and closed)
    return closed


# ===================================================================================== part 3: TTL sweep

def p3_case(ttl, phase, dense):
    """Register once with `ttl` at start time `phase`, lose every renewal, probe until TTL + grace is over, then let
    renewals through again.  Returns (problems, facts)."""
    lay = {"subnets": [[1, 1]], "fds": [0], "bdt": "full", "mask": "host", "phase": phase}
    h = Hist({"layout": lay, "sources": ["o0a"], "read": ["b0"], "manager": "o0a", "ttls": [ttl], "mute": True, "label": "sweep"})
    s = h.sys
    h.apply(("reg", "f0", ttl))
    life = s.life["f0"]
    rec = life.rec.get("b0")
    if rec is None:
        return [("fd:not-served-while-registered:no-acknowledgement", {"ttl": ttl, "results": s.results})], {}
    t_ack = rec[0]
    h.apply(("lose", "f0"))
    end = t_ack + ttl + bbmdref.GRACE + 1.5
    # probe instants: quarter-second offsets so that no probe coincides with a tick or a lifetime boundary
    t = t_ack + 0.25
    instants = []
    while t <= end:
        rel = t - t_ack
        if dense or rel < 3 or ttl - 3 < rel < ttl + 8 or rel > ttl + bbmdref.GRACE - 2 or int(rel * 2) % 10 == 0:
            instants.append(t)
        t += 0.5
    first_unserved = first_unlisted = None
    served_n = 0
    for t in instants:
        h.apply(("adv", t - vclock.clock.now))
        n_up = len(s.nodes["f0"].up)
        h.apply(("bcast", "o0a"))
        got = len(s.nodes["f0"].up) > n_up
        n_r = len(s.fdt_replies)
        h.apply(("read", "b0"))
        listed = any(e[0] == s.nodes["f0"].ref_addr for r in s.fdt_replies[n_r:] for e in r[2])
        served_n += got
        if not got and first_unserved is None:
            first_unserved = t - t_ack
        if not listed and first_unlisted is None:
            first_unlisted = t - t_ack
        if h.problems:
            break
    facts = {"ttl": ttl, "phase": phase, "t_ack": t_ack, "first_unserved_after_ack": first_unserved,
             "first_unlisted_after_ack": first_unlisted, "probes": len(instants)}
    if not h.problems:
        # renewals get through again: the device must come back by itself within one TTL
        h.apply(("pass", "f0"))
        h.apply(("adv", float(ttl) + 0.5))
        h.apply(("bcast", "o0a"))
        h.apply(("read", "b0"))
        facts["status_after_recovery"] = s.nodes["f0"].bip.registrationStatus
    facts["transitions"] = len(h.trace)
    return h.problems, facts


def p3_shard(item, deadline):
    acc = Acc()
    dense, cases = item
    for ttl, phase in cases:
        if time.time() > deadline:
            acc.cap("part3: deadline inside the TTL sweep")
            break
        problems, facts = p3_case(ttl, phase, dense)
        acc.case(("p3", ttl, phase))
        acc.traces += 1
        acc.transitions += facts.get("transitions", 1)
        fu = facts.get("first_unserved_after_ack")
        acc.outcome("p3:unserved-from=TTL+%s" % (None if fu is None else round(fu - ttl, 2)))
        for sig, detail in problems:
            acc.fail(sig, {"problem": sig, "detail": detail, "facts": facts}, {"part": 3, "ttl": ttl, "phase": phase, "dense": dense})
        if ttl in (1, 300) and phase == 0.5:
            acc.sample({"part": 3, "facts": facts})
    return acc


# ===================================================================================== part 4: steady state

def p4_case(ttl, phase):
    """Register once, let every renewal through, and broadcast once a second for more than two renewal cycles plus the
    device's own expiry tracking interval: a device whose registration is renewed and acknowledged all the time must be
    served and listed all the time.  Returns (problems, facts)."""
    lay = {"subnets": [[1, 1]], "fds": [0], "bdt": "full", "mask": "host", "phase": phase}
    h = Hist({"layout": lay, "sources": ["o0a"], "read": ["b0"], "manager": "o0a", "ttls": [ttl], "mute": False, "label": "steady"})
    s = h.sys
    h.apply(("reg", "f0", ttl))
    rec = s.life["f0"].rec.get("b0")
    if rec is None:
        return [("fd:not-served-while-registered:no-acknowledgement", {"ttl": ttl, "results": s.results})], {}
    t_ack = rec[0]
    end = t_ack + 2 * (ttl + bbmdref.GRACE) + ttl + 5
    t = t_ack + 0.25
    missed = []
    probes = 0
    while t <= end and not h.problems:
        h.apply(("adv", t - vclock.clock.now))
        n_up = len(s.nodes["f0"].up)
        h.apply(("bcast", "o0a"))
        if len(s.nodes["f0"].up) <= n_up:
            missed.append(round(t - t_ack, 2))
        n_o = len(s.nodes["o0a"].up)
        h.apply(("bcast", "f0"))
        if len(s.nodes["o0a"].up) <= n_o:
            missed.append(("own", round(t - t_ack, 2)))
        probes += 1
        # dense around the instants where the device's own tracker (TTL + grace after an ack) could fire
        rel = (t - t_ack) % (ttl + bbmdref.GRACE)
        t += 0.5 if (rel < 2 or rel > ttl + bbmdref.GRACE - 2) else 1.0
    problems = list(h.problems)
    if missed and not problems:
        problems.append(("fd:not-served-while-continuously-renewed", {"ttl": ttl, "missed_at_seconds_after_first_ack": missed[:6]}))
    return problems, {"ttl": ttl, "phase": phase, "probes": probes, "missed": missed[:6], "transitions": len(h.trace)}


def p4_shard(item, deadline):
    acc = Acc()
    for ttl, phase in item:
        if time.time() > deadline:
            acc.cap("part4: deadline inside the steady-state sweep")
            break
        problems, facts = p4_case(ttl, phase)
        acc.case(("p4", ttl, phase))
        acc.traces += 1
        acc.transitions += facts.get("transitions", 1)
        acc.outcome("p4:%s" % ("always-served" if not problems else problems[0][0]))
        for sig, detail in problems:
            acc.fail(sig, {"problem": sig, "detail": detail, "facts": facts}, {"part": 4, "ttl": ttl, "phase": phase})
    return acc


# ===================================================================================== part 5: the grace is one constant

def p5_case(ttls, phase):
    """Several foreign devices register with one BBMD in the same instant (table order = order of `ttls`), every renewal
    is lost.  The time between the end of a device's time-to-live and the instant it stops being listed / served is the
    grace period: it must be the same for every device, whatever else is in the table.  Returns (problems, facts)."""
    n = len(ttls)
    lay = {"subnets": [[1, 1]], "fds": [0] * n, "bdt": "full", "mask": "host", "phase": phase}
    h = Hist({"layout": lay, "sources": ["o0a"], "read": ["b0"], "manager": "o0a", "ttls": sorted(set(ttls)), "mute": True, "label": "grace"})
    s = h.sys
    fds = sorted(s.life)
    for fd, ttl in zip(fds, ttls):
        h.apply(("reg", fd, ttl))
    acks = {}
    for fd in fds:
        rec = s.life[fd].rec.get("b0")
        if rec is None:
            return [("fd:not-served-while-registered:no-acknowledgement", {"ttls": ttls})], {}
        acks[fd] = rec[0]
        h.apply(("lose", fd))
    end = max(acks.values()) + max(ttls) + bbmdref.GRACE + 1.5
    unlisted, unserved = {}, {}
    t = min(acks.values()) + 0.25
    while t <= end and not h.problems:
        h.apply(("adv", t - vclock.clock.now))
        before = {fd: len(s.nodes[fd].up) for fd in fds}
        h.apply(("bcast", "o0a"))
        n_r = len(s.fdt_replies)
        h.apply(("read", "b0"))
        for fd in fds:
            listed = any(e[0] == s.nodes[fd].ref_addr for r in s.fdt_replies[n_r:] for e in r[2])
            if not listed and fd not in unlisted:
                unlisted[fd] = t
            if len(s.nodes[fd].up) <= before[fd] and fd not in unserved:
                unserved[fd] = t
        t += 0.5
    problems = list(h.problems)
    grace_l = {fd: round(unlisted[fd] - acks[fd] - ttl, 2) for fd, ttl in zip(fds, ttls) if fd in unlisted}
    grace_s = {fd: round(unserved[fd] - acks[fd] - ttl, 2) for fd, ttl in zip(fds, ttls) if fd in unserved}
    facts = {"ttls": list(ttls), "phase": phase, "grace_until_unlisted": grace_l, "grace_until_unserved": grace_s,
             "transitions": len(h.trace)}
    if not problems:
        for name, g in (("listed", grace_l), ("served", grace_s)):
            if len(g) == n and len(set(g.values())) > 1:
                problems.append(("fd:grace-differs-between-devices-of-one-table:%s" % name,
                                 {"ttls_in_table_order": list(ttls), "seconds_after_ttl_end": g}))
    return problems, facts


def p5_cases(tier):
    import itertools as it
    base = [(2, 2), (3, 1), (1, 3), (2, 5), (5, 2), (10, 20), (20, 10), (7, 5, 3), (3, 5, 7), (2, 2, 2), (7, 5, 3, 10), (1, 2, 3, 4)]
    if tier != "quick":
        base += list(it.permutations((2, 4, 6))) + list(it.permutations((1, 3, 5, 9))) + [(30, 60), (60, 30), (5,) * 5]
    for ttls in base:
        for phase in ((0.25,) if tier == "quick" else (0.25, 0.75)):
            yield (tuple(ttls), phase)


def p5_shard(item, deadline):
    acc = Acc()
    for ttls, phase in item:
        if time.time() > deadline:
            acc.cap("part5: deadline inside the grace sweep")
            break
        problems, facts = p5_case(ttls, phase)
        acc.case(("p5", ttls, phase))
        acc.traces += 1
        acc.transitions += facts.get("transitions", 1)
        acc.outcome("p5:grace=%s" % sorted(set(facts.get("grace_until_unlisted", {}).values())))
        for sig, detail in problems:
            acc.fail(sig, {"problem": sig, "detail": detail, "facts": facts}, {"part": 5, "ttls": list(ttls), "phase": phase})
        if ttls == (7, 5, 3, 10):
            acc.sample({"part": 5, "facts": facts})
    return acc


# ===================================================================================== entry points

def _determinism():
    lay = {"subnets": [[1, 1], [1, 1]], "fds": [0, 1], "bdt": "full", "mask": {"0": "host", "1": "subnet"}}
    obs = []
    kids = explorer.children(p1_execute(lay, "f0", ())[1], 0, 1)
    prefix = kids[len(kids) // 2] if kids else ()
    for _ in range(2):
        sysm, points, payload = p1_execute(lay, "f0", prefix)
        obs.append((sysm.wire.log, [(n, sysm.nodes[n].up) for n in sysm.order], points, sysm.canon_state()))
    if obs[0] != obs[1]:
        raise HarnessError("C13 part1: the same execution run twice differs")
    obs = []
    lay = dict(lay, upper=NSAP_ALL)
    for _ in range(2):
        sysm, points, payload = p1_execute(lay, "f0", prefix)
        obs.append((sysm.wire.log, [(n, sysm.nodes[n].up, sysm.nodes[n].app, sysm.nodes[n].down) for n in sysm.order], points,
                    sysm.canon_state()))
    if obs[0] != obs[1]:
        raise HarnessError("C13 part1: the same execution with network layers run twice differs")
    cfg = p2_configs("quick")[0][0]
    hist = (("reg", "f0", 2), ("adv", 1.0), ("lose", "f0"), ("adv", 1.0), ("bcast", "o1a"), ("unreg", "f0"), ("adv", 30.0),
            ("read", "b0"), ("reg", "f0", 1), ("adv", 0.5), ("bcast", "f0"))
    o = []
    for _ in range(2):
        h = p2_replay(cfg, hist)
        o.append((h.observation(), h.sys.canon_state()))
    if o[0] != o[1]:
        raise HarnessError("C13 part2: the same history replayed twice differs")
    cfg = [c for (c, _d, _n) in p2_configs("quick") if c.get("homes")][0]
    hist = (("reg", "f0", 3, "b0"), ("adv", 1.0), ("reg", "f0", 2, "b1"), ("bcast", "o0a"), ("lose", "f0"), ("adv", 1.0),
            ("del", "f0", "b0"), ("bcast", "f0"), ("read", "b0"), ("reg", "f0", 1, "b0"), ("adv", 30.0), ("read", "b1"))
    o = []
    for _ in range(2):
        h = p2_replay(cfg, hist)
        o.append((h.observation(), h.sys.canon_state()))
    if o[0] != o[1]:
        raise HarnessError("C13 part2: the same history with a moved registration replayed twice differs")


def run(tier, seed, deadline):
    vclock.install()
    acc = Acc()
    t0 = time.time()
    span = deadline - t0
    parts = os.environ.get("BV_C13_PARTS", "12345")     # debugging aid only
    _determinism()

    # ---- parts 4 and 5 (cheap, bounded)
    if "4" in parts:
        ttls4 = (1, 2, 3, 4, 5, 7, 10, 20, 30, 45, 60, 300) if tier == "quick" else tuple(range(1, 31)) + (40, 45, 50, 59, 60, 61, 90, 120, 299, 300)
        cases4 = [(ttl, ph) for ttl in ttls4 for ph in ((0.25,) if tier == "quick" else (0.25, 0.75))]
        run_shards(p4_shard, [[c] for c in sorted(cases4, key=lambda c: -c[0])], t0 + span * 0.2, into=acc)
        acc.info["part4 cases"] = len(cases4)
    if "5" in parts:
        cases5 = list(p5_cases(tier))
        run_shards(p5_shard, chunks(cases5, 32), t0 + span * 0.25, into=acc)
        acc.info["part5 cases"] = len(cases5)

    # ---- part 3 (cheap, bounded)
    if "3" in parts:
        phases = [0.0, 0.5] if tier == "quick" else [0.0, 0.25, 0.5, 0.75]
        cases3 = [(ttl, ph) for ttl in range(1, 301) for ph in phases]
        run_shards(p3_shard, [(tier != "quick", c) for c in chunks(cases3, 64)], t0 + span * 0.15, into=acc)
        acc.info["part3 cases"] = len(cases3)

    # ---- part 2 (before part 1: under a loaded machine the cap then falls on the largest layouts of part 1)
    if "2" in parts:
        plans = p2_configs(tier)
        for k, (cfg, depth, cap) in enumerate(plans):
            remaining = t0 + span * 0.6 - time.time()
            if remaining <= 0:
                acc.cap("part2: deadline before %s" % cfg["label"])
                break
            sub_deadline = time.time() + remaining / (len(plans) - k)
            p2_bfs(cfg, depth, cap, sub_deadline, acc)
        acc.sample({"part": 2, "cfg": plans[0][0]["label"], "state_of_a_history": repr(p2_replay(
            plans[0][0], (("reg", "f0", 2), ("adv", 1.0), ("unreg", "f0"))).sys.canon_state())[:1500]})
    # ---- part 1
    if "1" in parts:
        lays = p1_layouts(tier)
        wire_lays, outside = p1_layouts_wire(tier)
        lays += wire_lays
        upper_lays = p1_layouts_upper(tier, lays)
        lays += upper_lays
        acc.info["part1 layouts run again with the real network layer above the B/IP layers (family D)"] = len(upper_lays)
        acc.info["part1 layouts with a foreign device on the wire of another BBMD (family C)"] = len(wire_lays)
        acc.info["part1 family C candidates outside the statement (not run)"] = outside
        lays.sort(key=lambda l: (sum(a + b for a, b in l["subnets"]) + len(l["fds"]), l["family"]))
        acc.info["part1 layouts in the family"] = len(lays)
        run_shards(p1_shard, [(1, c) for c in chunks(lays, 128)], deadline, into=acc)
        mid = lays[len(lays) // 2]
        s0, pts, pl = p1_execute(mid, BipSystem(mid).order[0], ())
        acc.sample({"part": 1, "layout": mid, "originator": s0.order[0],
                    "wire": ["%s %s->%s %s" % (e[1], e[2], e[3], bbmdref.parse_bvll(e[4])["name"]) for e in s0.wire.log[-12:]],
                    "copies": {k: len(v) for k, v in s0.copies(pl).items()}})

    return acc


def _replay_sweeps(case):
    if case.get("part") == 4:
        problems, facts = p4_case(case["ttl"], case["phase"])
        return not problems, "steady state ttl=%r: %r\n%r" % (case["ttl"], problems[:3], facts)
    if case.get("part") == 5:
        problems, facts = p5_case(tuple(case["ttls"]), case["phase"])
        return not problems, "grace constancy ttls=%r: %r\n%r" % (case["ttls"], problems[:3], facts)
    return None


def replay(case):
    vclock.install()
    r = _replay_sweeps(case)
    if r is not None:
        return r
    vclock.install()
    part = case["part"]
    if part == 1:
        acc = Acc()
        sysm, points, payload = p1_execute(case["layout"], case["origin"], tuple(case["choices"]))
        problems = p1_record(acc, case["layout"], case["origin"], sysm, points, payload, confirm=False)
        text = "layout=%r origin=%s schedule=%r\ncopies=%r\nwire=%r\nproblems=%r" % (
            case["layout"], case["origin"], explorer.labels(points), {k: len(v) for k, v in sysm.copies(payload).items()},
            ["%s %s->%s %s" % (e[1], e[2], e[3], bbmdref.parse_bvll(e[4])["name"]) for e in sysm.wire.log[-30:]], problems)
        return not problems and not acc.fails, text
    if part == 2:
        hist = [tuple(e) for e in case["hist"]]
        h = p2_replay(case["cfg"], hist)
        s = h.sys
        text = "cfg=%s history=%r\nproblems=%r\nFDT=%r status=%r now=%r" % (
            case["cfg"]["label"], hist, h.problems,
            {b: [(str(e.fdAddress), e.fdTTL, e.fdRemain) for e in s.nodes[b].bip.bbmdFDT] for b in s.order if b[0] == "b"},
            {f: s.nodes[f].bip.registrationStatus for f in s.life}, vclock.clock.now)
        return not h.problems, text
    if part == 3:
        problems, facts = p3_case(case["ttl"], case["phase"], case.get("dense", True))
        return not problems, "facts=%r problems=%r" % (facts, problems)
    return False, "unknown part"
