"""C16 COV subscribers are told of every qualifying change, and only while subscribed.

Part 1 (E2): breadth-first search over timelines of subscribe / re-subscribe / cancel / write / burst / time /
        read-active-subscriptions on a real COV server device with 1..3 logical subscribers on two real
        subscriber stacks (perfect network, virtual clock), per object kind; states are deduplicated on a
        canonical snapshot of the device's COV records, the object values, the pending timers and the
        reference model; the oracle (bv/refs/covref.py) is evaluated after every event.
Part 2 (E3): the forms a SubscribeCOV request may take (lifetime omitted = indefinite, clause 13.14.1.1.4) on every
        object kind, fresh and as a re-subscription.
Part 3 (E3 over timelines): many subscriptions with different lifetimes (up to 8 / 10 pending expiry timers), in every
        order of a few and in every subset of many, then one cancellation or renewal of any one of them, then nothing
        but time: the clock is moved across the expiries without traffic and the device is probed (all objects change in
        one instant, activeCovSubscriptions is read) half a second after an expiry, for every expiry.
"""
import itertools
import os
import re
import time

import bv  # noqa: F401
from bv.engine import vclock
from bv.engine.acc import Acc, h64
from bv.engine.pool import run_shards, chunks, HarnessError, WORKERS
from bv.refs.covref import CovRef
from bv.stacks.covsys import CovSystem, KINDS, INITIAL, INCREMENT, COV_PERIOD, SUB_MACS, DEVICE_MAC, DEVICE_INSTANCE

PROPERTY = "C16"
LEVEL = "model_checking"
BUDGET = {"quick": 140.0, "thorough": 1800.0}
RULE = ("part1: per configuration (object kind(s), logical subscribers = (stack, process id), alphabet) breadth-first over all "
        "timelines of the alphabet {subscribe/re-subscribe(s, confirmed|unconfirmed, lifetime 0|2|5), cancel(s), single "
        "writes (analog: +0.375*increment, +increment, -increment, back to the last reported value, toggle a status flag; "
        "others: toggle, same value, toggle a status flag), bursts = two writes in one instant, advance 1 s / 3 s, read "
        "activeCovSubscriptions}; the time-* and renew-time configurations use a restricted alphabet (one bounded qualifying "
        "write, 1 s steps) so that the search closes; every successor is produced by replaying the timeline on fresh real "
        "stacks; a state is distinct by the canonical snapshot (generic attribute walk) of every COVDetection with its "
        "Subscription records (confirmed, lifetime, armed expiry relative to now), last reported value, the objects' present "
        "value / status flags / monitor counts, the transaction tables, all pending timers relative to now, the clock phase "
        "modulo the COV period where the periodic object is used, plus the reference model's own state.  Merged on purpose: "
        "invoke-id counters and IOCB serials (they only pair a reply with its request inside one event) and the subscribers' "
        "observation logs (judged per event).  States in which the oracle failed are reported and not expanded further.  "
        "The queue-* configurations put three logical subscribers on ONE subscriber device (three processes on one object; "
        "one process on three objects, with the event 'the objects of a group change in the same instant'), so that "
        "several notifications for one address are under way at once, with indefinite lifetimes and one bounded write per "
        "object so that the search closes.  "
        "part2: every (object kind, confirmed flag, prior subscription none|indefinite|timed) with the lifetime omitted.  "
        "part3: slot i of ten fixed logical subscriptions (2 stacks x 2 processes x analog/binary/multi-state/pulse "
        "converter) always asks for lifetime (11,5,21,9,33,14,7,25,17,28)[i] s, confirmed on even slots; a case = "
        "(subscription order: every permutation of the first n slots and every non-empty subset of the first N slots in "
        "slot order, all at t=0) x (at t=1: cancel | renew with the other notification kind and a lifetime shorter than / "
        "between / longer than all others) x (which subscribed slot) x (passive: step to half a second after every "
        "expiry in turn, judged at every step, then probe | k: go straight to half a second after the k-th expiry and "
        "probe); probe = every monitored object changes in one instant, then activeCovSubscriptions is read; a timeline "
        "stops at the first event the oracle objects to.")
ASSUMPTIONS = [
    "single thread; virtual clock bound to bacpypes.task._time; perfect vlan (every frame delivered at once, in order); "
    "subscribers acknowledge every confirmed notification (what happens to unacknowledged ones is not judged)",
    "the last reported value is kept per object: a notification sent to anybody about the object (initial, periodic or "
    "change) is a report; this is the reading of the statement under which one shared COV increment baseline is correct",
    "an instant = one driver event followed by running the stacks until nothing is due; a burst issues two writes before "
    "the stacks run",
    "periodic notifications of a pulse converter with a COV period are allowed but not required (the statement is silent); "
    "when seen they must go to live subscriptions only, carry the current values and count as a report",
    "values are dyadic rationals (0.375 instead of 0.4 of the increment) so that 'at least the increment' is decided "
    "exactly in binary floating point, as single precision on the wire and as double in the device",
    "part1: timelines beyond the stated depth, lifetimes other than 0/2/5 s, more than three logical subscribers (five in "
    "one thorough configuration) are not covered; part3: ten fixed lifetimes between 5 and 33 s and renewals of 3/12/40 s, "
    "all subscriptions made in one instant, one cancellation or renewal per timeline; network faults (C04/C05) are not "
    "covered anywhere",
]
BOUNDS = {
    "quick": "part1 depth: one subscriber av<=5, bv/msv<=6 (closure), pc<=4, periodic pc<=5; two stacks av<=4, bv<=4, "
             "periodic pc<=3; two processes on one stack av<=3; three subscribers av<=3; av+bv mixed<=3; restricted "
             "time-crossing alphabets <=10 (closure for av); three processes of one device on av and one process on "
             "av+bv+msv changing together: closure; part2: 5 kinds x 2 flags x 3 prior states; part3: all orders of the "
             "first n<=4 slots and all 255 subsets of the first 8 slots x {cancel, renew 3 s, renew 40 s} x every slot x "
             "{passive, probe after the k-th expiry for every k}",
    "thorough": "part1 depth: one subscriber av<=8, bv/msv<=12 (closure), pc<=6, periodic pc<=7; two stacks av<=5, "
                "bv<=12 (closure), msv<=5, pc<=4, periodic pc<=4; two processes av<=4, bv<=12; all 25 burst pairs: one "
                "subscriber av<=5, bv<=12, two stacks av<=4; three subscribers av<=4; mixed<=5; restricted alphabets <=16 "
                "(closure); three processes of one device on av (closure) and on bv with lifetimes 0/5 <=5, one process "
                "on av+bv+msv changing singly and in every group (closure), 2 processes x 2 objects + a second device <=5; "
                "part2 as quick; part3: all orders of the first n<=6 slots and all 1023 subsets of the ten slots x "
                "{cancel, renew 3 s, renew 12 s, renew 40 s} x every slot x {passive, probe after every expiry}",
}

SMALL = 0.375
ANALOG = ("av", "pc", "pcp")
A_WRITES = ("small", "inc", "dec", "back", "flags")
G_WRITES = ("toggle", "same", "flags")
A_BURSTS = (("inc", "back"), ("small", "small"), ("small", "flags"), ("flags", "flags"), ("small", "inc"), ("inc", "inc"),
            ("dec", "inc"))
G_BURSTS = (("toggle", "toggle"), ("toggle", "flags"), ("same", "toggle"), ("toggle", "same"), ("flags", "flags"))


# ----------------------------------------------------------------------------- configurations

def make_cfg(label, subs, depth, lifetimes=(0, 2, 5), flags=(False, True), writes=None, bursts="curated", advs=(1, 3),
             read=True, cancel=True, max_states=60000, multi=()):
    kinds = sorted(set(s[2] for s in subs))
    if multi == "all":          # every group of two or more of the monitored objects changes in one instant
        multi = [g for n in range(2, len(kinds) + 1) for g in itertools.combinations(kinds, n)]
    w = {}
    b = {}
    for k in kinds:
        base = A_WRITES if k in ANALOG else G_WRITES
        w[k] = list(base if writes is None else [t for t in writes if t in base or (t == "flip" and k in ANALOG)])
        if bursts == "curated":
            b[k] = [list(p) for p in (A_BURSTS if k in ANALOG else G_BURSTS)]
        elif bursts == "few":
            b[k] = [list(p) for p in (A_BURSTS[:4] if k in ANALOG else G_BURSTS[:3])]
        elif bursts == "all":
            b[k] = [[x, y] for x in base for y in base]
        else:
            b[k] = [list(p) for p in bursts if all(t in base for t in p)]
    return {"label": label, "subs": [list(s) for s in subs], "depth": depth, "lifetimes": list(lifetimes),
            "flags": list(flags), "writes": w, "bursts": b, "advs": list(advs), "read": read, "cancel": cancel,
            "max_states": max_states, "multi": [list(g) for g in multi]}


def configs(tier):
    q = tier == "quick"
    out = []
    one = [(0, 1)]
    two_addr = [(0, 1), (1, 1)]         # same process id on two stacks: told apart by address only
    two_pid = [(0, 1), (0, 2)]          # two processes on one stack: told apart by process id only
    three = [(0, 1), (1, 1), (0, 2)]

    def subs(ls, kind):
        return [(s, p, kind) for (s, p) in ls]

    cur = "few" if q else "curated"     # quick: 4 (analog) / 3 (others) bursts, thorough: 7 / 5, or all pairs
    # (depth quick, depth thorough); the generic kinds have few states and reach closure
    d1 = {"av": (5, 8), "bv": (6, 12), "msv": (6, 12), "pc": (4, 6), "pcp": (5, 7)}
    for kind in ("av", "bv", "msv", "pc", "pcp"):
        out.append(make_cfg("1sub-%s" % kind, subs(one, kind), d1[kind][0 if q else 1], bursts=cur))
    d2 = {"av": (4, 5), "bv": (4, 12), "msv": (0, 5), "pc": (0, 4), "pcp": (3, 4)}
    for kind in ("av", "bv", "msv", "pc", "pcp"):
        d = d2[kind][0 if q else 1]
        if d:
            out.append(make_cfg("2stacks-%s" % kind, subs(two_addr, kind), d, bursts=cur))
    out.append(make_cfg("2pids-av", subs(two_pid, "av"), 3 if q else 4, bursts=cur))
    if not q:
        out.append(make_cfg("2pids-bv", subs(two_pid, "bv"), 12))
        out.append(make_cfg("2stacks-av-allbursts", subs(two_addr, "av"), 4, bursts="all"))
        out.append(make_cfg("1sub-av-allbursts", subs(one, "av"), 5, bursts="all"))
        out.append(make_cfg("1sub-bv-allbursts", subs(one, "bv"), 12, bursts="all"))
    out.append(make_cfg("3subs-av", subs(three, "av"), 3 if q else 4, bursts=(("inc", "back"),)))
    out.append(make_cfg("mixed-av+bv", [(0, 1, "av"), (1, 1, "bv")], 3 if q else 5,
                        bursts=(("inc", "back"), ("toggle", "toggle"))))
    # restricted alphabets (one bounded qualifying write, 1 s steps) that cross every expiry
    for kind in ("av", "pcp") if q else ("av", "bv", "pcp"):
        out.append(make_cfg("time-%s" % kind, subs(two_addr, kind), 10 if q else 16, lifetimes=(2, 5), flags=(True,),
                            writes=("flip", "toggle"), bursts=(), advs=(1,), read=False, cancel=False))
    out.append(make_cfg("renew-time-av", subs(one, "av"), 10 if q else 16, lifetimes=(0, 2, 5), flags=(False, True),
                        writes=("flip",), bursts=(), advs=(1,), read=True, cancel=False))
    # several notifications for one subscriber device in one instant (they queue up behind each other in the device):
    # three processes of one device watching one object, and one process watching three objects that change in the
    # same instant, singly and in every group; restricted alphabet (indefinite lifetime, one bounded qualifying
    # write per object) so that the search closes
    three_pids = [(0, 1), (0, 2), (0, 3)]
    three_objs = [(0, 1, "av"), (0, 1, "bv"), (0, 1, "msv")]
    out.append(make_cfg("queue-3pids-av", subs(three_pids, "av"), 8 if q else 16, lifetimes=(0,), writes=("flip",),
                        bursts=(), advs=()))
    # (quick: the three objects change together only; thorough: singly and in every group)
    out.append(make_cfg("queue-3objs", three_objs, 8 if q else 16, lifetimes=(0,), writes=() if q else ("flip", "toggle"),
                        bursts=(), advs=(), multi=[("av", "bv", "msv")] if q else "all"))
    if not q:
        out.append(make_cfg("queue-3pids-bv-timed", subs(three_pids, "bv"), 5, lifetimes=(0, 5), writes=("toggle",),
                            bursts=(("toggle", "toggle"),), advs=(1,)))
        out.append(make_cfg("queue-2pids-2objs+1", [(0, 1, "av"), (0, 2, "av"), (0, 1, "bv"), (0, 2, "bv"), (1, 1, "av")], 5,
                            lifetimes=(0,), writes=("flip", "toggle"), bursts=(), advs=(), multi="all"))
    return out


# ----------------------------------------------------------------------------- one timeline on the real stacks

def ref_objects():
    return {k: {"value": INITIAL[k], "increment": INCREMENT.get(k), "period": COV_PERIOD if k == "pcp" else 0} for k in KINDS}


CTX = {"obj_ids": {k: v[0] for k, v in KINDS.items()}, "device": ("device", DEVICE_INSTANCE),
       "macs": {i: bytes([m]) for i, m in enumerate(SUB_MACS)}, "device_addr": str(DEVICE_MAC)}


def resolve(kind, token, state, reported):
    """The (value, flags) the object takes when `token` is written in `state`; None if the token is not enabled."""
    v, f = state
    if token == "flags":
        return (v, (f[0], 1 - f[1], f[2], f[3]))
    if kind in ANALOG:
        if token == "small":
            return (v + SMALL * INCREMENT[kind], f)
        if token == "inc":
            return (v + INCREMENT[kind], f)
        if token == "dec":
            return (v - INCREMENT[kind], f)
        if token == "back":
            return None if reported is None else (reported[0], f)
        if token == "flip":                 # one increment up from the initial value, or back down to it
            return (v + INCREMENT[kind], f) if v <= INITIAL[kind] else (v - INCREMENT[kind], f)
    else:
        if token == "same":
            return (v, f)
        if token == "toggle":
            if kind == "bv":
                return (1 - v, f)
            return (2 if v == 1 else 1, f)
    return None


def menu(cfg, ref):
    ev = []
    for li, (stack, pid, kind) in enumerate(cfg["subs"]):
        for conf in cfg["flags"]:
            for life in cfg["lifetimes"]:
                ev.append(("sub", li, conf, life))
        if cfg["cancel"]:
            ev.append(("cancel", li))
    for kind in sorted(cfg["writes"]):
        o = ref.objs[kind]
        for tok in cfg["writes"][kind]:
            if resolve(kind, tok, o.state(), o.reported) is not None:
                ev.append(("w", kind, (tok,)))
        for pair in cfg["bursts"][kind]:
            s1 = resolve(kind, pair[0], o.state(), o.reported)
            if s1 is not None and resolve(kind, pair[1], s1, o.reported) is not None:
                ev.append(("w", kind, tuple(pair)))
    for group in cfg.get("multi", ()):
        ev.append(multi_write(group))
    for n in cfg["advs"]:
        ev.append(("adv", n))
    if cfg["read"]:
        ev.append(("read", cfg["subs"][-1][0]))
    return ev


def multi_write(kinds):
    """The event in which every object of `kinds` takes a qualifying new value in the same instant (analog: one
    increment up from the initial value or back down to it; others: toggle); both tokens are always enabled."""
    return ("mw", tuple((k, ("flip" if k in ANALOG else "toggle",)) for k in kinds))


class Run(object):
    """One timeline: the real system, the reference, and the judged observation of every event."""

    def __init__(self, cfg):
        self.cfg = cfg
        n_stacks = 1 + max(s[0] for s in cfg["subs"])
        self.sysm = CovSystem(n_subscribers=n_stacks, pids=(0, 0))
        self.ref = CovRef(ref_objects(), now=vclock.clock.now)
        self.log = []           # (event, observation summary, problems)
        self.times = []         # virtual time after each event
        self.phase = any(s[2] == "pcp" for s in cfg["subs"])

    def key(self, li):
        stack, pid, kind = self.cfg["subs"][li]
        return (stack, pid, kind)

    def apply(self, ev):
        sysm, ref = self.sysm, self.ref
        mark = sysm.mark()
        n_sw = len(sysm.swallowed())
        listing = None
        kind = ev[0]
        if kind == "sub":
            key = self.key(ev[1])
            exp = ref.subscribe(key, ev[2], ev[3])
            sysm.subscribe(key[0], key[2], ev[2], ev[3], pid=key[1])
        elif kind == "cancel":
            key = self.key(ev[1])
            exp = ref.cancel(key)
            sysm.cancel(key[0], key[2], pid=key[1])
        elif kind == "w":
            okind, toks = ev[1], ev[2]
            o = ref.objs[okind]
            exp = ref.write(okind, self._issue_writes(okind, toks, o.state(), o.reported))
            sysm.settle()
        elif kind == "mw":                  # several objects change in the same instant: ((kind, tokens), ...)
            writes = []
            for okind, toks in ev[1]:
                o = ref.objs[okind]
                writes.append((okind, self._issue_writes(okind, toks, o.state(), o.reported)))
            exp = ref.write_many(writes)
            sysm.settle()
        elif kind == "adv":
            exp = ref.advance(float(ev[1]))
            sysm.advance(float(ev[1]))
        elif kind == "read":
            exp = ref.read_active(ev[1])
            replies, listing = sysm.read_active(ev[1])
        else:
            raise HarnessError("unknown event %r" % (ev,))
        notes, replies = sysm.since(mark)
        problems = ref.judge(exp, notes, [[r[:4] for r in rs] for rs in replies], listing, CTX)
        if not os.environ.get("BV_C16_OBSERVABLE_ONLY"):     # (self-test aid: judge by what subscribers see alone)
            problems.extend(self.records_invariant())
        refused = [p for p in problems if p[0].startswith("cov:subscribe-request-not-acknowledged")]
        if refused:
            problems = refused      # a refused subscription explains the missing record and the missing notification
        new_sw = sysm.swallowed()[n_sw:]
        if problems and new_sw:
            kinds = sorted(set(_exc_kind(m) for (_, m) in new_sw))
            problems = [(sig + "|swallowed=" + ",".join(kinds)[:80], detail) for (sig, detail) in problems]
        obs = (tuple(tuple((n["confirmed"], n["pid"], n["obj"], n["remaining"], n["values"], n["t"]) for n in ns) for ns in notes),
               tuple(tuple(r[3] for r in rs) for rs in replies), listing)
        self.log.append((ev, obs, problems))
        self.times.append(vclock.clock.now)
        if abs(ref.now - vclock.clock.now) > 1e-9:
            raise HarnessError("reference clock %r and virtual clock %r diverged" % (ref.now, vclock.clock.now))
        return problems, obs

    def _issue_writes(self, okind, toks, st, rep):
        """Assign the properties of the local object as the tokens say, without running the stacks; returns the
        successive (value, flags) the object took."""
        states = []
        for tok in toks:
            st2 = resolve(okind, tok, st, rep)
            if st2 is None:
                raise HarnessError("write token %r not enabled in %r" % (tok, st))
            if st2[0] != st[0] or tok in ("same", "back"):
                self.sysm.write_value(okind, st2[0], settle=False)
            if st2[1] != st[1]:
                self.sysm.write_flags(okind, st2[1], settle=False)
            states.append(st2)
            st = st2
        return states

    def records_invariant(self):
        """The device's own records = the live subscriptions, one each, armed for the expiry last requested."""
        out = []
        have = {}
        dup = False
        for cov in self.sysm.device.subscriptions():
            mac = bytes(cov.client_addr.addrAddr)
            ident = (mac, cov.proc_id, tuple(cov.obj_id))
            if ident in have:
                dup = True
            have[ident] = cov.taskTime if cov.isScheduled else None
        want = {}
        for key, rec in self.ref.recs.items():
            want[(CTX["macs"][key[0]], key[1], tuple(CTX["obj_ids"][key[2]]))] = rec.expiry
        if dup:
            out.append(("cov:second-record-for-one-subscription", {"records": sorted(map(repr, have))}))
        if set(have) - set(want):
            out.append(("cov:record-kept-for-a-dead-subscription", {"extra": sorted(map(repr, set(have) - set(want)))}))
        if set(want) - set(have):
            out.append(("cov:record-lost-for-a-live-subscription", {"missing": sorted(map(repr, set(want) - set(have)))}))
        for ident in set(have) & set(want):
            a, b = have[ident], want[ident]
            if (a is None) != (b is None) or (a is not None and abs(a - b) > 1e-6):
                out.append(("cov:record-not-armed-for-the-requested-expiry",
                            {"record": repr(ident), "armed_for": a, "requested_expiry": b, "now": self.ref.now}))
        return out

    def state_hash(self):
        c = self.sysm.canon_state()
        if not self.phase:
            c = c[:-1]
        return h64((self.cfg["label"], c, self.ref.canon()))


def _exc_kind(msg):
    m = re.search(r"([A-Za-z_]+(Error|Exception))", msg)
    return m.group(1) if m else msg[:30]


def run_timeline(cfg, hist):
    r = Run(cfg)
    for ev in hist:
        r.apply(ev)
    return r


def outcome_label(ev, obs):
    notes, replies, listing = obs
    n = "+".join("%s%d" % ("s", i) + "".join("C" if x[0] else "U" for x in ns) for i, ns in enumerate(notes) if ns) or "silent"
    r = "+".join("/".join(x[0] for x in rs) for rs in replies if rs) or "-"
    extra = ""
    if listing is not None:
        extra = "|listed=%d" % len(listing)
    what = ev[0] if ev[0] != "w" else "w%d" % len(ev[2])
    return "%s|%s|%s%s" % (what, r, n, extra)


def brief_obs(obs):
    """One line per event for the written-out samples."""
    notes, replies, listing = obs
    parts = []
    for i, rs in enumerate(replies):
        for x in rs:
            parts.append("stack%d<-%s" % (i, "/".join(map(str, x))))
    for i, ns in enumerate(notes):
        for (conf, pid, obj, rem, vals, t) in ns:
            vv = ",".join("%s=%s" % (v[0], v[2][0] if len(v[2]) == 1 else v[2]) for v in vals)
            parts.append("stack%d<-%s(pid %s, t=%s, remaining %s, %s)" % (i, "ConfirmedCOV" if conf else "UnconfirmedCOV", pid, t, rem, vv))
    if listing is not None:
        parts.append("active=%s" % [(e[1].hex(), e[2], e[3][0], "C" if e[5] else "U", e[6]) for e in listing])
    return "; ".join(parts) or "silence"


# ----------------------------------------------------------------------------- part 1: BFS

def p1_expand(item, deadline):
    cfg, hists = item
    acc = Acc()
    nxt = []
    pruned = 0
    n_trans = 0
    cpu0 = time.process_time()
    for hist in hists:
        if time.time() > deadline:
            acc.cap("part1 %s: deadline inside frontier expansion" % cfg["label"])
            break
        base = run_timeline(cfg, hist)
        acc.traces += 1
        events = menu(cfg, base.ref)
        for j, ev in enumerate(events):
            if j == 0:
                r = base                # the first successor continues the run that produced the menu
            else:
                r = run_timeline(cfg, hist)
                acc.traces += 1
            problems, obs = r.apply(ev)
            n_trans += 1
            acc.transitions += 1
            acc.evaluations += 1
            acc.outcome(outcome_label(ev, obs))
            for name, msg in r.sysm.swallowed():
                acc.swallowed["%s: %s" % (name, msg[:90])] += 1
            h2 = hist + (ev,)
            if problems:
                # every failing execution that is written out is re-run twice; it has to fail the same way
                if any(acc.fails.get(sig, {"count": 0})["count"] < 3 for sig, _ in problems):
                    for _ in range(2):
                        again = run_timeline(cfg, hist)
                        p2, o2 = again.apply(ev)
                        acc.traces += 1
                        if [p[0] for p in p2] != [p[0] for p in problems] or o2 != obs:
                            raise HarnessError("failing timeline %r is not reproducible" % (h2,))
                for sig, detail in problems:
                    acc.fail(sig, {"problem": detail, "cfg": cfg["label"], "timeline": h2, "observed_in_last_event": obs[:2]},
                             {"part": 1, "cfg": cfg, "hist": h2})
                pruned += 1
                acc.state(h64(("failed", cfg["label"], h2)))
                continue
            if ev[0] == "read":
                continue            # changes nothing the state contains
            nxt.append((r.state_hash(), h2))
    acc.info["next"] = [(cfg["label"], k, h) for (k, h) in nxt]
    acc.add_info("part1[%s] transitions" % cfg["label"], n_trans)
    acc.add_info("cpu ms in part1 shards", int((time.process_time() - cpu0) * 1000))
    if pruned:
        acc.add_info("part1 states not expanded because the oracle failed there", pruned)
    return acc


def part1(acc, cfgs, deadline):
    """Level-synchronous BFS over all configurations at once (one pool per level)."""
    by_label = {c["label"]: c for c in cfgs}
    seen = {}
    frontier = {}
    depth_done = {}
    for c in cfgs:
        r0 = run_timeline(c, ())
        seen[c["label"]] = {r0.state_hash()}
        frontier[c["label"]] = [()]
        depth_done[c["label"]] = 0
    level = 0
    stopped = False
    cut = set()             # configurations whose last level was cut short by the deadline
    while True:
        active = [c for c in cfgs if frontier[c["label"]] and depth_done[c["label"]] < c["depth"]
                  and len(seen[c["label"]]) <= c["max_states"]]
        if not active:
            break
        if time.time() > deadline:
            stopped = True
            break
        items = []
        for c in active:
            fr = frontier[c["label"]]
            size = max(1, min(6, len(fr) // (WORKERS * 2) or 1))
            for i in range(0, len(fr), size):
                items.append((c, fr[i:i + size]))
        # the long timelines first, so that the level ends evenly
        items.sort(key=lambda it: -len(it[1][0]))
        sub = run_shards(p1_expand, items, deadline)
        nxt = sub.info.pop("next", [])
        acc.merge(sub)
        level += 1
        new = {c["label"]: [] for c in active}
        # deterministic representative per state: the smallest timeline
        for label, k, hist in sorted(nxt, key=lambda x: (x[0], x[1], repr(x[2]))):
            if k not in seen[label]:
                seen[label].add(k)
                new[label].append(tuple(hist))
        for c in active:
            new[c["label"]].sort(key=repr)
            frontier[c["label"]] = new[c["label"]]
            depth_done[c["label"]] += 1
        acc.max_depth = max(acc.max_depth, max(depth_done.values()))
        if os.environ.get("BV_C16_TRACE"):
            print("level %d: %d transitions so far, cpu %.0fs, frontier %s" % (
                level, acc.transitions, acc.info.get("cpu ms in part1 shards", 0) / 1000.0,
                {c["label"]: len(frontier[c["label"]]) for c in active}), flush=True)
        if sub.caps:
            stopped = True
            cut = set(c["label"] for c in active)
            break
        if os.environ.get("BV_C16_STOP_AT_FIRST") and any(not k.startswith("cov:lifetime-omitted") for k in acc.fails):
            acc.cap("stopped at the first level with a failure (BV_C16_STOP_AT_FIRST)")
            break
    all_closed = True
    for c in cfgs:
        label = c["label"]
        for k in seen[label]:
            acc.states.add(k)
            acc.keys.add(k)
        closed = not frontier[label] and label not in cut
        all_closed = all_closed and closed
        acc.info["part1[%s] states" % label] = len(seen[label])
        acc.info["part1[%s] depth" % label] = depth_done[label]
        acc.info["part1[%s] closed" % label] = closed
        if label in cut:
            acc.cap("part1[%s]: deadline inside level %d of %d" % (label, depth_done[label], c["depth"]))
        elif not closed and depth_done[label] < c["depth"]:
            why = "deadline" if stopped else "state cap %d" % c["max_states"]
            acc.cap("part1[%s]: %s at depth %d of %d with %d frontier states"
                    % (label, why, depth_done[label], c["depth"], len(frontier[label])))
    acc.closed = all_closed if acc.closed is None else (acc.closed and all_closed)
    return frontier


# ----------------------------------------------------------------------------- part 2: request forms

def p2_cases():
    for kind in ("av", "bv", "msv", "pc", "pcp"):
        for conf in (True, False):
            for prior in ("none", "indefinite", "timed"):
                yield (kind, conf, prior)


def p2_run(case):
    kind, conf, prior = case
    cfg = make_cfg("forms-%s" % kind, [(0, 1, kind)], 0)
    r = Run(cfg)
    if prior == "indefinite":
        r.apply(("sub", 0, conf, 0))
    elif prior == "timed":
        r.apply(("sub", 0, conf, 5))
        r.apply(("adv", 1))
    r.apply(("sub", 0, conf, None))         # lifetime omitted: indefinite
    r.apply(("read", 0))
    tok = "inc" if kind in ANALOG else "toggle"
    r.apply(("w", kind, (tok,)))
    r.apply(("adv", 3))
    r.apply(("adv", 3))
    r.apply(("w", kind, (tok,)))
    r.apply(("read", 0))
    return r


def p2_shard(item, deadline):
    acc = Acc()
    for case in item:
        r = p2_run(case)
        acc.case(("p2",) + case)
        acc.traces += 1
        acc.transitions += len(r.log)
        first = None
        for ev, obs, problems in r.log:
            acc.outcome("forms:" + outcome_label(ev, obs))
            if problems and first is None:
                first = (ev, obs, problems)
        if first is not None:
            # only the first failing event of the timeline is reported: what follows is its consequence
            ev, obs, problems = first
            again = p2_run(case)
            if [(e, o) for e, o, p in again.log] != [(e, o) for e, o, p in r.log]:
                raise HarnessError("part2 case %r is not reproducible" % (case,))
            for sig, detail in problems:
                sig = "cov:lifetime-omitted:" + sig[4:]
                acc.fail(sig, {"problem": detail, "case": case, "event": ev, "observed": obs[:2],
                               "timeline": [e for e, o, p in r.log]}, {"part": 2, "case": case})
    if item:
        r = p2_run(item[0])
        acc.sample({"part": 2, "case": item[0], "timeline": ["%r -> %s" % (ev, brief_obs(obs)) for ev, obs, _ in r.log]})
    return acc


# ----------------------------------------------------------------------------- part 3: many lifetimes, then silence

# ten logical subscriptions on two stacks, two processes and four objects; slot i always asks for lifetime i, confirmed
# notifications on the even slots.  The lifetimes are distinct and not monotone in the slot number, every expiry
# (also of a renewal at P3_GAP) is at a whole second of its own, so that "half a second after an expiry" is unambiguous.
P3_SLOTS = ((0, 1, "av"), (1, 1, "bv"), (0, 1, "msv"), (1, 1, "pc"), (1, 1, "av"), (0, 1, "bv"), (1, 1, "msv"), (0, 1, "pc"),
            (0, 2, "av"), (1, 2, "bv"))
P3_LIFETIMES = (11, 5, 21, 9, 33, 14, 7, 25, 17, 28)
P3_GAP = 1                      # seconds between the last subscription and the cancellation / renewal
P3_BOUNDS = {                   # tier -> (orders: all permutations of the first n slots, n <=; subsets of the first N; renewals)
    "quick": (4, 8, (3, 40)),
    "thorough": (6, 10, (3, 12, 40)),
}


def p3_cfg():
    return make_cfg("timers", P3_SLOTS, 0)


def p3_cases(tier):
    """(subscription order, action, slot acted on, mode): every order of the first n slots and every subset of the
    first N slots in slot order x cancel | renew with a lifetime shorter than / between / longer than the others
    x every subscribed slot x passive (step over every expiry in turn, then probe) | probe right after the k-th expiry."""
    n_max, n_sub, renewals = P3_BOUNDS[tier]
    orders = []
    for n in range(1, n_max + 1):
        orders.extend(itertools.permutations(range(n)))
    for n in range(1, n_sub + 1):
        orders.extend(itertools.combinations(range(n_sub), n))
    seen = set()
    acts = [("cancel",)] + [("renew", life) for life in renewals]
    for order in sorted(orders, key=lambda o: (len(o), o)):
        if order in seen:
            continue
        seen.add(order)
        for act in acts:
            for idx in order:
                n_instants = len(order) - (1 if act[0] == "cancel" else 0)
                yield (order, act, idx, "passive")
                for k in range(n_instants):
                    yield (order, act, idx, k)


def p3_timeline(order, act, idx, mode):
    hist = [("sub", i, i % 2 == 0, P3_LIFETIMES[i]) for i in order]
    hist.append(("adv", P3_GAP))
    t = float(P3_GAP)
    expiry = {i: float(P3_LIFETIMES[i]) for i in order}
    if act[0] == "cancel":
        hist.append(("cancel", idx))
        del expiry[idx]
    else:                       # the renewal also asks for the other kind of notification
        hist.append(("sub", idx, idx % 2 != 0, act[1]))
        expiry[idx] = t + act[1]
    instants = sorted(set(expiry.values()))
    if len(instants) != len(expiry):
        raise HarnessError("part3: two expiries in one instant %r" % (expiry,))
    probe = [multi_write(sorted(set(P3_SLOTS[i][2] for i in order))), ("read", 0)]
    if mode == "passive":
        for e in instants:
            hist.append(("adv", e + 0.5 - t))
            t = e + 0.5
    else:
        hist.append(("adv", instants[mode] + 0.5 - t))
    return tuple(hist + probe)


def p3_run(cfg, hist):
    """Run until the first event the oracle objects to (what follows is its consequence)."""
    r = Run(cfg)
    for ev in hist:
        problems, obs = r.apply(ev)
        if problems:
            break
    return r


def p3_shard(item, deadline):
    acc = Acc()
    cfg = p3_cfg()
    done = 0
    cpu0 = time.process_time()
    for case in item:
        if time.time() > deadline:
            acc.cap("part3: deadline after %d of %d timelines of a shard" % (done, len(item)))
            break
        hist = p3_timeline(*case)
        r = p3_run(cfg, hist)
        done += 1
        acc.case(("p3",) + case)
        acc.traces += 1
        acc.transitions += len(r.log)
        acc.max_depth = max(acc.max_depth, len(r.log))
        for ev, obs, problems in r.log:
            acc.outcome("timers:" + outcome_label(ev, obs))
        for name, msg in r.sysm.swallowed():
            acc.swallowed["%s: %s" % (name, msg[:90])] += 1
        ev, obs, problems = r.log[-1]
        if not problems:
            acc.state(r.state_hash())
            continue
        log = [(e, o) for e, o, p in r.log]
        again = p3_run(cfg, hist)
        if [(e, o) for e, o, p in again.log] != log:
            raise HarnessError("part3 case %r is not reproducible" % (case,))
        for sig, detail in problems:
            acc.fail(sig, {"problem": detail, "case": case, "event": ev, "clock": r.times[-1], "observed": obs[:2],
                           "timeline": [e for e, o in log]},
                     {"part": 3, "cfg": cfg, "hist": [e for e, o in log]})
    acc.add_info("part3 timelines", done)
    acc.add_info("cpu ms in part3 shards", int((time.process_time() - cpu0) * 1000))
    return acc


def part3(acc, tier, seed, deadline):
    cases = list(p3_cases(tier))
    sub = run_shards(p3_shard, chunks(cases, WORKERS * 6), deadline)
    acc.merge(sub)
    acc.info["part3 cases"] = len(cases)
    acc.info["part3 subscription orders"] = len(set(c[0] for c in cases))
    acc.info["part3 most subscriptions in one timeline"] = max(len(c[0]) for c in cases)
    if time.time() > deadline:
        return
    if sub.info.get("part3 timelines", 0) != len(cases) and not sub.caps:
        raise HarnessError("part3: %r of %d timelines were run" % (sub.info.get("part3 timelines"), len(cases)))
    most = max(len(x[0]) for x in cases)
    pick = [c for c in cases if len(c[0]) == most and c[3] == "passive"]
    case = pick[(seed or 0) % len(pick)]
    r = p3_run(p3_cfg(), p3_timeline(*case))
    acc.sample({"part": 3, "case": case,
                "timeline": ["%r -> %s%s" % (e, brief_obs(o), (" !!! %s" % [p[0] for p in ps]) if ps else "") for e, o, ps in r.log]})


# ----------------------------------------------------------------------------- entry points

def run(tier, seed, deadline):
    vclock.install()
    acc = Acc()
    t0 = time.time()
    # determinism probe
    probe_cfg = make_cfg("probe", [(0, 1, "pcp"), (1, 1, "pcp")], 0)
    probe = (("sub", 0, True, 5), ("w", "pcp", ("small",)), ("sub", 1, False, 2), ("adv", 1), ("w", "pcp", ("inc", "back")),
             ("adv", 3), ("read", 0), ("cancel", 0), ("w", "pcp", ("flags",)))
    a = run_timeline(probe_cfg, probe)
    ha = a.state_hash()         # taken before the next run resets the scheduler under it
    b = run_timeline(probe_cfg, probe)
    if [(e, o) for e, o, p in a.log] != [(e, o) for e, o, p in b.log] or ha != b.state_hash():
        raise HarnessError("C16: the same timeline run twice gave two observations")
    acc.sample({"part": 1, "cfg": "probe (two stacks on the periodic pulse converter)",
                "timeline": ["%r -> %s%s" % (e, brief_obs(o), (" !!! %s" % [p[0] for p in ps]) if ps else "") for e, o, ps in a.log]})

    cases2 = list(p2_cases())
    run_shards(p2_shard, chunks(cases2, 8), deadline, into=acc)
    acc.info["part2 cases"] = len(cases2)

    cfgs = configs(tier)
    # the configurations with small state spaces (generic kinds, restricted alphabets) run to their bound first
    small = [c for c in cfgs if c["label"].startswith(("time-", "renew-time", "queue-")) or c["subs"][0][2] in ("bv", "msv")]
    heavy = [c for c in cfgs if c not in small]
    frontier = part1(acc, small, deadline)
    part3(acc, tier, seed, deadline)
    frontier.update(part1(acc, heavy, deadline))
    for label in sorted(frontier)[::4]:
        fr = frontier[label]
        if fr:
            acc.sample({"part": 1, "cfg": label, "a_timeline_of_the_deepest_level": list(fr[(seed or 0) % len(fr)])})
    acc.info["part1 configurations"] = len(cfgs)
    acc.info["wall part1+2+3"] = round(time.time() - t0, 1)
    return acc


def replay(case):
    vclock.install()
    if case["part"] == 2:
        r = p2_run(tuple(case["case"]))
    else:
        cfg = case["cfg"]
        hist = [_tup(ev) for ev in case["hist"]]
        r = run_timeline(cfg, hist)
    lines = []
    bad = False
    for (ev, obs, problems), t in zip(r.log, r.times):
        lines.append("%r   (clock afterwards %s)" % (ev, t))
        for i, rs in enumerate(obs[1]):
            for x in rs:
                lines.append("        stack%d reply %r" % (i, x))
        for i, ns in enumerate(obs[0]):
            for (conf, pid, obj, rem, vals, tn) in ns:
                lines.append("        stack%d %s notification t=%s pid=%s obj=%s remaining=%s values=%s"
                             % (i, "confirmed" if conf else "unconfirmed", tn, pid, obj, rem,
                                [(v[0], v[2]) for v in vals]))
        if obs[2] is not None:
            lines.append("        active list %r" % (obs[2],))
        for sig, detail in problems:
            lines.append("    !!! %s %r" % (sig, detail))
        if problems:
            bad = True
            lines.append("    (what follows the first failing event is its consequence and is not judged)")
            break
    sw = r.sysm.swallowed()
    if sw:
        lines.append("swallowed: %r" % (sw[:6],))
    return not bad, "\n".join(lines)


def _tup(x):
    if isinstance(x, list):
        return tuple(_tup(i) for i in x)
    return x
