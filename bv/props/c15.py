"""C15 Property reads and writes over the wire are consistent, typed, all-or-nothing.

Part hist  (E2): breadth-first search over histories of ReadProperty / WriteProperty / ReadPropertyMultiple
           requests sent by a real client application stack to a real device application stack (S-DEV, perfect
           vlan), states deduplicated on the canonical dump of every object's `_values`, every reply judged
           against the dictionary model bv.refs.propref.
Part sweep (E3): every registered object class x every property, one instance with a generated value per
           datatype (and a twin class whose plainly described properties are re-declared writable):
           read whole / 0 / 1 / n / n+1, ReadPropertyMultiple of the same references and of all / required /
           optional, writes of a valid, a wrong-typed and a Null value, whole and per element; next to every swept
           object the device's own Device object is read through the wildcard instance 4194303.
           In both parts every array property - stored or computed per request (propertyList of an object with
           CurrentPropertyListMixIn, the device's objectList), by the object's identifier and for the device also by the
           wildcard - is walked completely: whole value, length at index 0, every element 1..n, index n+1, with ReadProperty
           and in one ReadPropertyMultiple; they have to describe one array (bv.refs.propref.array_census).
Part cmd   (E3): two objects of one commandable class on one device; every history of valid commands, relinquishes and
           writes of things that are not values of the datatype (bv.refs.cmdref.INVALID), with priority 8 or none; after
           every step the command state of both objects is read back over the wire and compared with a 16-slot model, a
           refused write must also leave the canonical dump of every object unchanged.

Deviations from DESIGN.md: the standard classes declare almost every property read-only, so the history objects
are vendor subclasses that re-declare some properties writable and the sweep adds a "writable twin" of every class
(what an application does to open a property for writing); the value generator is a small recursive one of its own
(bv.stacks.devsys.gen_property) instead of the C03 generator; the quick tier uses indexes {none,0,1} for properties
that are not arrays (they have no n); writes whose acceptance the statement leaves open (array length, Null where the
datatype admits NULL) are judged on their consequences only.
"""
import time

import bv  # noqa: F401
from bv.engine import vclock
from bv.engine.acc import Acc, h64
from bv.engine.bfs import bfs
from bv.engine.pool import run_shards, HarnessError
from bv.refs import propref as R
from bv.stacks import devsys as D

PROPERTY = "C15"
LEVEL = "model_checking"
BUDGET = {"quick": 85.0, "thorough": 840.0}
RULE = ("hist: BFS over all histories of the alphabet {ReadProperty, WriteProperty, ReadPropertyMultiple} x 5 objects "
        "(analog value, binary value, multi-state value, character-string value, the device; vendor subclasses re-declare "
        "present value / stateText / alarmValues / eventTimeStamps writable) + 2 unknown objects x role properties "
        "{present value, array(s), list(s), read-only, absent, not in the class} x index {none,0,1,n,n+1} x value {valid1, "
        "valid2, wrong-typed, Null, two values for a scalar} (+ priority 1/16 on present value, + explicit / mixed / all / "
        "required / optional RPM); every read, explicit RPM and selector the device gets by its own identifier it also gets "
        "by the wildcard identifier (device, 4194303), which the reference resolves to the device's own Device object; "
        "a state is the canonical dump of every object's _values (+ the device's object indexes); every operation is "
        "applied in every state reached by at most depth-1 state-changing operations, operations that leave the dump "
        "unchanged are applied one after another on the same live system, after a state-changing one the state is rebuilt "
        "by replaying its history on fresh stacks; failing transitions are not expanded.  Merged on purpose: the protocol "
        "stacks' own state (next invoke id, device info cache) is not part of the state - each transaction completes before "
        "the next request and the property is stated on the objects.  A case is distinct by (state, operation).  "
        "sweep: one long history per (class, variant): per property in table order reads at 5 indexes, one RPM with the same "
        "references, then the writes; the model follows accepted writes, system and model are rebuilt after a failing "
        "state change; a case is distinct by (class, variant, property, operation); per instance the device's own Device "
        "object is read by the wildcard identifier (ReadProperty and one RPM that names it by both identifiers).  "
        "census (hist: in every state; sweep: per array property before its writes and for the device's own objectList / "
        "propertyList per instance): the value without index, index 0, every index 1..n (n = what index 0 answered) and n+1 of every "
        "array property, computed ones included, by ReadProperty and in one ReadPropertyMultiple: the elements one after the other "
        "are the octets of the whole value, n+1 is refused as an invalid index; a case is distinct by (state | class, object, property).  "
        "cmd: two objects of one commandable class on one device; alphabet = {value_i, Null (relinquish), invalid_j (every "
        "entry of cmdref.INVALID for the class: undefined enumeration number, value of another datatype, undefined "
        "enumeration name, out of range)} x object x priority {8, none}; all histories up to the stated length, fresh "
        "stacks per history; after every step ReadProperty of present value and addressed array element of both objects, "
        "after a refused step and after the last step also whole array, array length and relinquish default, compared "
        "with a per-object 16-slot model (cmdref.CmdRef); a refused write must leave the canonical dump of all objects "
        "unchanged; a case is distinct by (class, history)")
ASSUMPTIONS = [
    "perfect network, one outstanding request, unsegmented requests; single thread; virtual clock bound to bacpypes.task._time",
    "values travel as tag octets produced by bacpypes' own encoders (their correctness is C01-C03); 'returns the written "
    "value' is judged on the octets of the property value in the ReadProperty-ACK / RPM result",
    "refusals are judged per refusal class against an admissible set (unknown-object, unknown-property, wrong-datatype = "
    "Error invalid-datatype or Reject invalid-parameter-datatype / invalid-tag and the alternates clause 18.9 allows, "
    "read-only, bad-array-index = invalid-array-index / property-is-not-an-array); when several classes apply any of them "
    "is accepted (the statement does not rank them)",
    "writing the length of a fixed-size array, a whole fixed-size array of another length, Null to a datatype that admits "
    "NULL and writes to computed properties of unmodelled type are judged on their consequences only",
    "commandable objects (priority array semantics) are C17; here Null to a non-commandable property is a wrong-typed write "
    "and a priority on a non-commandable property is ignored",
    "sweep: the per-class required/optional split and the datatype of each property are read from the class tables "
    "(they are the configuration of the device, the handlers are what is checked); property datatypes whose generated "
    "value does not survive bacpypes' encode/decode/encode are skipped and counted",
    "values outside the alphabets (other leaf values, longer arrays, deeper histories) are not covered",
    "the wildcard Device instance 4194303 is defined for ReadProperty and ReadPropertyMultiple only (15.5.2, 15.7.2); it is "
    "not written to.  The reply may name the object by the identifier asked for or by the device's actual identifier; "
    "ReadProperty and ReadPropertyMultiple have to name it the same way",
    "cmd: a value of another application datatype has to be refused with a reply of the wrong-datatype class; an "
    "application-tagged Enumerated whose number the enumeration does not define falls under no refusal class of the "
    "statement: any error or reject counts as a refusal (observed replies are recorded as outcomes "
    "cmd-invalid-write:*), its consequences are judged in full",
]
BOUNDS = {
    "quick": "hist: every operation of the alphabet in every state reached by <=2 state-changing operations (all histories "
             "of length <=3); sweep: 63 classes x {standard, writable twin} x all properties, one value variant, arrays of 2; "
             "cmd: 6 classes (real, binary, character string, unsigned, octet string, bit string), all histories of "
             "length <=2 over the whole alphabet (valid and invalid writes)",
    "thorough": "hist: every operation in every state reached by <=3 state-changing operations (histories of length <=4); "
                "sweep: 63 classes x {standard, writable twin} x all properties x 2 value variants (other choice alternatives, "
                "optional elements absent, arrays/lists of 3); cmd: 20 classes, all histories of length <=2 over the whole "
                "alphabet (valid and invalid writes) and of length <=3 made of valid commands",
}

DEPTH = {"quick": 3, "thorough": 4}
UNKNOWN_OBJECTS = [("analogValue", 99), ("accumulator", 1)]
WILD = R.WILDCARD_DEVICE            # read services only: "the Device object of whoever you are"


# =====================================================================================================
# small helpers
# =====================================================================================================

def short(reply):
    if reply[0] == "ack":
        return "ack"
    return "/".join(str(x) for x in reply[:3])


def tk(ptype):
    if ptype is None:
        return "absent"
    if ptype[0] == "array":
        return "fixed-array" if ptype[2] is not None else "array"
    if ptype[0] == "opaque":
        return "computed-" + ptype[1]
    if ptype[0] == "one":
        ks = ptype[1]
        if ks == R.ALL_APP:
            return "any-atomic"
        if all(k[0] == "app" for k in ks):
            return "primitive"
        return "constructed"
    return ptype[0]


def norm_sw(msgs):
    """Swallowed/logged exceptions of one transaction, reduced to the exception class + the first words of its
    text up to the first type name or number (so that one root cause gives one signature)."""
    out = []
    for name, msg in msgs:
        m = msg
        if m.startswith("exception: "):
            m = m[len("exception: "):]
        head = m.split("(")[0]
        rest = m[len(head):].strip("()'\"")
        words = []
        for w in rest.replace(",", " ").split():
            if any(c.isupper() or c.isdigit() for c in w) or len(words) >= 4:
                break
            words.append(w)
        if rest.split()[-1:] == ["required"]:
            words = ["<object-type>", "required"]       # ObjectIdentifierProperty: "<type name> required"
        t = "%s(%s)" % (head, " ".join(words))
        if t not in out:
            out.append(t)
    return ";".join(out[:2])


def strip_prop(dump, objkey, prop):
    objs, names = dump
    out = []
    for (ok, cls, vals) in objs:
        if ok == objkey:
            vals = tuple(kv for kv in vals if kv[0] != prop)
        out.append((ok, cls, vals))
    return (tuple(out), names)


def diff_dump(a, b):
    """(objkey, prop) pairs whose value differs between two dumps"""
    out = []
    da = dict((o[0], dict(o[2])) for o in a[0])
    db = dict((o[0], dict(o[2])) for o in b[0])
    for ok in sorted(set(da) | set(db), key=repr):
        pa, pb = da.get(ok, {}), db.get(ok, {})
        for p in sorted(set(pa) | set(pb)):
            if pa.get(p, "<absent>") != pb.get(p, "<absent>"):
                out.append((ok, p))
    if a[1] != b[1]:
        out.append(("application", "objectName index"))
    return out


def value_class(value, ptype, index):
    if tuple(value) == (R.NULL_ITEM,):
        return "null"
    if ptype is None:
        return "any"
    f = R.fits(value, ptype, index)
    return "fits" if f else ("misfit" if f is False else "unjudged")


def idx_class(model, objkey, prop, index):
    if index is None:
        return "whole"
    obj = model.objects.get(model.denotes(objkey))
    p = obj.get(prop) if obj else None
    if p is None:
        return "idx"
    if p.kind() != "array":
        return "idx-on-non-array" if p.kind() != "opaque" else "idx"
    if index == 0:
        return "0"
    return "elem" if 1 <= index <= len(p.items) else "beyond"


def items_json(value):
    return [[it[0][0], it[0][1], it[1]] for it in value]


def items_unjson(js):
    return tuple(((k0, (int(k1) if k0 == "app" else k1)), bytes(o)) for (k0, k1, o) in js)


# =====================================================================================================
# the judge: one live system + the model of its state
# =====================================================================================================

class Session(object):
    def __init__(self, sysm, model, acc, mkcase):
        self.s = sysm
        self.m = model
        self.acc = acc
        self.mkcase = mkcase            # opdesc -> replay case
        self.base = sysm.dump()
        self.cache = {}                 # ReadProperty replies of the current state
        self.echo = {}                  # ... and the object identifier each acknowledgement carried
        self.badrp = set()
        self.nsw = len(vclock.swallowed)
        self.nfail = 0
        self.broken = False             # system and model may have diverged (after a failing state change)

    # ---- bookkeeping
    def _sw(self):
        msgs = vclock.swallowed[self.nsw:]
        self.nsw = len(vclock.swallowed)
        for name, msg in msgs:
            self.acc.swallowed["%s: %s" % (name, msg[:70])] += 1
        return norm_sw(msgs)

    def fail(self, sig, detail, opdesc):
        self.nfail += 1
        self.acc.fail(sig, detail, self.mkcase(opdesc, sig))

    def ptype(self, objkey, prop):
        obj = self.m.objects.get(self.m.denotes(objkey))
        p = obj.get(prop) if obj else None
        return p.ptype if p is not None else None

    # ---- ReadProperty
    def rp(self, objkey, prop, index):
        k = (objkey, prop, index)
        if k in self.cache:
            return self.cache[k]
        opdesc = ["R", list(objkey), prop, index]
        reply = self.s.read(objkey, prop, index, answers=self.m.answers_as(objkey))
        self.echo[k] = self.s.echoed
        sw = self._sw()
        self.acc.transitions += 1
        self.acc.evaluations += 1
        self.acc.outcome("read:" + short(reply))
        after = self.s.dump()
        if after != self.base:
            self.fail("read:changes-state:%s" % tk(self.ptype(objkey, prop)),
                      {"op": opdesc, "reply": reply, "changed": diff_dump(self.base, after)}, opdesc)
            self.broken = True
            self.base = after
        exp = self.m.read(objkey, prop, index)
        t, ic = tk(self.ptype(objkey, prop)), idx_class(self.m, objkey, prop, index)
        bad = False
        if reply[0] not in ("ack", "error", "reject"):
            bad = True
            self.fail("read:no-proper-reply:%s:%s:got=%s" % (t, ic, short(reply)), {"op": opdesc, "reply": reply}, opdesc)
        elif exp[0] == "value":
            if reply[0] != "ack":
                bad = True
                self.fail("read:value-expected:%s:%s:got=%s%s" % (t, ic, short(reply), "|swallowed=" + sw if sw else ""),
                          {"op": opdesc, "reply": reply, "expected": exp[1]}, opdesc)
            elif exp[1] is not None and reply[1] != exp[1]:
                bad = True
                self.fail("read:value-differs:%s:%s" % (t, ic), {"op": opdesc, "reply": reply, "expected": exp[1]}, opdesc)
        elif exp[0] == "refuse":
            if reply[0] == "ack":
                bad = True
                self.fail("read:refusal-expected(%s):%s:%s:got=ack" % ("+".join(exp[1]), t, ic),
                          {"op": opdesc, "reply": reply}, opdesc)
            elif reply not in R.admissible(exp[1]):
                bad = True
                self.fail("read:refusal-not-admissible(%s):%s:%s:got=%s%s" % ("+".join(exp[1]), t, ic, short(reply),
                                                                             "|swallowed=" + sw if sw else ""),
                          {"op": opdesc, "reply": reply, "admissible": sorted(R.admissible(exp[1]))}, opdesc)
        else:   # unpredicted (computed property with an index): a value or an index refusal
            if reply[0] != "ack" and reply not in R.admissible(("bad-array-index",)):
                bad = True
                self.fail("read:refusal-not-admissible(bad-array-index):%s:%s:got=%s" % (t, ic, short(reply)),
                          {"op": opdesc, "reply": reply}, opdesc)
        if bad:
            self.badrp.add(k)
        self.cache[k] = reply
        return reply

    # ---- WriteProperty
    def wp(self, objkey, prop, index, value, prio=None):
        """Returns (changed, dump after).  After a change the caller decides how to go on."""
        value = tuple(value)
        opdesc = ["W", list(objkey), prop, index, items_json(value), prio]
        ptype = self.ptype(objkey, prop)
        t, ic, vc = tk(ptype), idx_class(self.m, objkey, prop, index), value_class(value, ptype, index)
        verdict = self.m.write(objkey, prop, index, value)
        octets = R.concat(value)
        nf0 = self.nfail
        reply = self.s.write(objkey, prop, octets, index, prio)
        sw = self._sw()
        swt = "|swallowed=" + sw if sw else ""
        self.acc.transitions += 1
        self.acc.evaluations += 1
        self.acc.traces += 1
        after = self.s.dump()
        changed = after != self.base
        self.acc.outcome("write:%s:%s" % (verdict[0] + ("(" + "+".join(verdict[1]) + ")" if verdict[0] == "refuse" else ""),
                                          short(reply)))
        detail = {"op": opdesc, "reply": reply, "reference": verdict, "property-type": t, "index": ic, "value": vc}
        if reply == ("ack",):
            if verdict[0] == "refuse":
                detail["changed"] = diff_dump(self.base, after)
                self.fail("write:acked-but-refusal-expected(%s):%s:%s:%s" % ("+".join(verdict[1]), t, ic, vc), detail, opdesc)
            else:
                rb = self.s.read(objkey, prop, index)
                sw2 = self._sw()
                self.acc.transitions += 1
                if rb != ("ack", octets):
                    detail["read-back"] = rb
                    self.fail("write:acked-but-read-back-differs:%s:%s:%s:got=%s%s" % (
                        t, ic, vc, "other-value" if rb[0] == "ack" else short(rb), "|swallowed=" + sw2 if sw2 else ""),
                        detail, opdesc)
                else:
                    other = diff_dump(strip_prop(self.base, objkey, prop), strip_prop(after, objkey, prop))
                    if other:
                        detail["also-changed"] = other
                        self.fail("write:acked-but-changed-another-property:%s:%s" % (t, ic), detail, opdesc)
                    m2 = self.m.copy()
                    m2.apply(objkey, prop, index, value)
                    self._census_after_write(m2, objkey, prop, detail, opdesc, t, ic)
                    if self.nfail == nf0:
                        self.m = m2
        else:
            if reply[0] not in ("error", "reject"):
                self.fail("write:no-proper-reply:%s:%s:%s:got=%s%s" % (t, ic, vc, short(reply), swt), detail, opdesc)
            elif verdict[0] == "accept":
                self.fail("write:refused-but-accept-expected:%s:%s:got=%s%s" % (t, ic, short(reply), swt), detail, opdesc)
            elif verdict[0] == "refuse" and reply not in R.admissible(verdict[1]):
                detail["admissible"] = sorted(R.admissible(verdict[1]))
                # an exception the device logged names the root cause better than the type/index class does
                where = "" if swt else ":%s:%s" % (t, ic)
                self.fail("write:refusal-not-admissible(%s)%s:got=%s%s" % ("+".join(verdict[1]), where, short(reply), swt),
                          detail, opdesc)
            if changed:
                detail["changed"] = diff_dump(self.base, after)
                self.fail("write:refused-but-state-changed:%s:%s:%s:reply=%s" % (t, ic, vc, short(reply)), detail, opdesc)
        if changed:
            self.base = after
            self.cache.clear()
            self.echo.clear()
            self.badrp.clear()
            if self.nfail != nf0:
                self.broken = True
        return changed, after

    def _census_after_write(self, m2, objkey, prop, detail, opdesc, t, ic):
        """After an accepted write the whole property and every element must read as the model says
        (elements the standard leaves to the device are learnt here)."""
        p = m2.objects[objkey][prop]
        if p.kind() != "array":
            return
        n = len(p.items)
        for i in list(range(0, n + 2)) + [None]:
            r = self.s.read(objkey, prop, i)
            sw = self._sw()
            self.acc.transitions += 1
            exp = m2.read(objkey, prop, i)
            if exp[0] == "value" and exp[1] is None and i is not None and r[0] == "ack":
                m2.learn(objkey, prop, i, (self._kind_guess(p, r[1]), r[1]))
                continue
            if exp[0] == "value":
                ok = (r[0] == "ack") and (exp[1] is None or r[1] == exp[1])
            else:
                ok = r[0] != "ack" and r in R.admissible(exp[1])
            if not ok:
                d = dict(detail)
                d["then-read"] = {"index": i, "reply": r, "expected": exp}
                self.fail("write:acked-but-array-inconsistent:%s:%s:then-read-%s:got=%s%s" % (
                    t, ic, "whole" if i is None else ("0" if i == 0 else ("elem" if i <= n else "beyond")),
                    "other-value" if r[0] == "ack" else short(r), "|swallowed=" + sw if sw else ""), d, opdesc)
                return

    @staticmethod
    def _kind_guess(p, octets):
        ks = p.ptype[1]
        k = D.kind_of_octets(octets, "?")
        if k in ks:
            return k
        for c in ks:
            if c[0] == "con":
                return c
        return k

    # ---- ReadPropertyMultiple
    def _rpm(self, specs, opdesc):
        reply = self.s.rpm(specs)
        sw = self._sw()
        self.acc.transitions += 1
        self.acc.evaluations += 1
        self.acc.traces += 1
        self.acc.outcome("rpm:" + short(reply))
        after = self.s.dump()
        if after != self.base:
            self.fail("rpm:changes-state", {"op": opdesc, "changed": diff_dump(self.base, after)}, opdesc)
            self.broken = True
            self.base = after
        if reply[0] != "ack":
            self.fail("rpm:no-ack:got=%s%s" % (short(reply), "|swallowed=" + sw if sw else ""), {"op": opdesc, "reply": reply}, opdesc)
            return None
        results = reply[1]
        # one result per specification, in the order of the request, for the object asked for (the wildcard Device
        # instance may be answered under the device's own identifier)
        if len(results) != len(specs) or any(r[0] not in self.m.answers_as(o) for r, (o, _) in zip(results, specs)):
            self.fail("rpm:result-objects-differ-from-request", {"op": opdesc, "got": [r[0] for r in results]}, opdesc)
            return None
        return results

    def _cmp(self, objkey, prop, index, r, opdesc, what, robj=None):
        k = (objkey, prop, index)
        rp = self.rp(objkey, prop, index)
        if k in self.badrp:
            self.acc.add_info("rpm elements not compared because ReadProperty itself failed its judgement")
            return
        if robj is not None and rp[0] == "ack" and self.echo.get(k) is not None and self.echo[k] != robj:
            # both are admissible on their own (reference: answers_as); the two services have to agree
            self.fail("rpm:result-object-identifier-differs-from-readproperty-ack",
                      {"op": opdesc, "reference": [list(objkey), prop, index], "readproperty-ack": self.echo[k],
                       "rpm-result": robj}, opdesc)
        if rp[0] == "ack":
            ok = r == ("value", rp[1])
        elif rp[0] == "error":
            ok = r == ("error", rp[1], rp[2])
        else:
            ok = r[0] == "error"
        self.acc.outcome("rpm-element:%s" % ("value" if r[0] == "value" else "/".join(r)))
        if not ok:
            t, ic = tk(self.ptype(objkey, prop)), idx_class(self.m, objkey, prop, index)
            self.fail("rpm:%s-element-differs-from-readproperty:%s:%s:rp=%s:rpm=%s" % (
                what, t, ic, short(rp), "other-value" if (r[0] == "value" and rp[0] == "ack") else
                ("value" if r[0] == "value" else "/".join(r))),
                {"op": opdesc, "reference": [list(objkey), prop, index], "readproperty": rp, "rpm": r}, opdesc)

    def rpm_explicit(self, specs):
        opdesc = ["M", [[list(o), [[p, i] for (p, i) in refs]] for (o, refs) in specs]]
        results = self._rpm(specs, opdesc)
        if results is None:
            return
        for (objkey, refs), (robj, elems) in zip(specs, results):
            if [(p, i) for (p, i, _) in elems] != [(p, i) for (p, i) in refs]:
                self.fail("rpm:references-echoed-differ-from-request",
                          {"op": opdesc, "object": objkey, "got": [(p, i) for (p, i, _) in elems]}, opdesc)
                continue
            for (p, i, r) in elems:
                self._cmp(objkey, p, i, r, opdesc, "explicit", robj)

    # ---- one array, every index class against every other
    def census(self, objkey, prop):
        """The whole value, the length at index 0, every element 1..n and index n+1 of one array property, read with
        ReadProperty and once more with ReadPropertyMultiple, have to describe ONE array (R.array_census).  This needs
        no prediction of the content, so it also judges the arrays a device computes per request (propertyList of an
        object with CurrentPropertyListMixIn, objectList), where the dictionary model predicts nothing."""
        opdesc = ["C", list(objkey), prop]
        t = tk(self.ptype(objkey, prop))
        whole = self.rp(objkey, prop, None)
        if whole[0] != "ack" or (objkey, prop, None) in self.badrp:
            return                      # judged by rp()
        length = self.rp(objkey, prop, 0)
        n = R.dec_unsigned(length[1]) if length[0] == "ack" else None
        if n is not None and n > R.CENSUS_MAX:
            self.acc.add_info("census: arrays longer than %d not walked" % R.CENSUS_MAX)
            return
        elements = [self.rp(objkey, prop, i) for i in range(1, (n or 0) + 1)]
        beyond = self.rp(objkey, prop, n + 1) if n is not None else None
        self.acc.evaluations += 1
        self.acc.outcome("census:%s:n=%s" % (t, "none" if n is None else ("0" if n == 0 else ("1-3" if n <= 3 else ">3"))))
        for what, detail in R.array_census(whole[1], length, elements, beyond):
            detail.update({"op": opdesc, "whole": whole[1]})
            self.fail("array:%s:%s" % (what, t), detail, opdesc)
            return
        # the same references in one ReadPropertyMultiple: every result is compared with the ReadProperty reply
        refs = [(prop, None)] + [(prop, i) for i in range(0, n + 2)]
        self.rpm_explicit([(objkey, refs)])

    def rpm_selector(self, objkey, which):
        opdesc = ["S", list(objkey), which]
        results = self._rpm([(objkey, [(which, None)])], opdesc)
        if results is None:
            return
        robj, elems = results[0]
        if self.m.denotes(objkey) not in self.m.objects:
            if len(elems) != 1 or elems[0][0] != which or elems[0][2] != ("error", "object", "unknownObject"):
                self.fail("rpm:selector-on-unknown-object:not-one-embedded-unknown-object-error",
                          {"op": opdesc, "got": elems}, opdesc)
            return
        names = [p for (p, i, _) in elems]
        want = self.m.selector(objkey, which)
        extra = sorted(set(names) - set(want))
        missing = sorted(set(want) - set(names))
        dup = sorted(set(n for n in names if names.count(n) > 1))
        if any(i is not None for (_, i, _) in elems):
            self.fail("rpm:selector-%s:element-carries-an-index" % which, {"op": opdesc}, opdesc)
        def who(names_):
            # one or two deviating properties are named (a defect of their descriptors); more is systematic
            return "%s.%s" % (objkey[0], "+".join(names_)) if len(names_) <= 2 else "many-properties"

        if extra:
            self.fail("rpm:selector-%s:returns-unselected:%s" % (which, who(extra)),
                      {"op": opdesc, "extra": extra, "expected": want}, opdesc)
        if missing:
            self.fail("rpm:selector-%s:omits-selected:%s" % (which, who(missing)),
                      {"op": opdesc, "missing": missing, "expected": want}, opdesc)
        if dup:
            self.fail("rpm:selector-%s:property-returned-twice" % which, {"op": opdesc, "twice": dup}, opdesc)
        for (p, i, r) in elems:
            if p in want and i is None:
                self._cmp(objkey, p, None, r, opdesc, which, robj)


# =====================================================================================================
# Part hist: objects, model, alphabet
# =====================================================================================================

def _k(n):
    return frozenset([("app", n)])


def A(cls, py):
    return D.item(cls(py))


class HistAlphabet(object):
    """Everything static of the history part for one (tier, seed)."""

    def __init__(self, tier, seed):
        from bacpypes.primitivedata import Real, Unsigned, CharacterString, ObjectIdentifier
        from bacpypes.basetypes import BinaryPV, TimeStamp, DeviceStatus, EngineeringUnits
        self.tier, self.seed = tier, seed
        rot = seed % 3

        def pick(pool):
            return pool[rot % len(pool)], pool[(rot + 1) % len(pool)]

        reals = [A(Real, x) for x in (2.5, -3.25, 1e10)]
        unsg = [A(Unsigned, x) for x in (2, 3, 70000)]
        strs = [A(CharacterString, x) for x in ("x", "", "été")]
        bins = [A(BinaryPV, x) for x in ("active", "inactive", "active")]
        texts = [A(CharacterString, x) for x in ("p", "q", "r", "s", "t")]
        stamps = [D.item(TimeStamp(sequenceNumber=7)), D.item(TimeStamp(time=(5, 6, 7, 8))),
                  D.item(TimeStamp(sequenceNumber=9)), D.item(TimeStamp(sequenceNumber=10)),
                  D.item(TimeStamp(time=(9, 9, 9, 9)))]
        texts = texts[rot:] + texts[:rot]
        stamps = stamps[rot:] + stamps[:rot]
        wr_u, wr_r, wr_s = A(Unsigned, 7), A(Real, 7.5), A(CharacterString, "wrong")
        null = R.NULL_ITEM
        U = R.unsigned_item

        def scalar_values(v1, v2, wrong):
            vals = {"valid1": (v1,), "valid2": (v2,), "wrong": (wrong,), "null": (null,)}
            whole = dict(vals)
            whole["two"] = (v1, v2)         # two values where one is expected: also a wrong datatype
            return {"whole": whole, "zero": vals, "elem": vals}

        def array_values(w1, w2, wrong_whole, e1, e2, wrong_elem, len1, len2):
            return {"whole": {"valid1": tuple(w1), "valid2": tuple(w2), "wrong": tuple(wrong_whole), "null": (null,)},
                    "zero": {"valid1": (U(len1),), "valid2": (U(len2),), "wrong": (wr_s,), "null": (null,)},
                    "elem": {"valid1": (e1,), "valid2": (e2,), "wrong": (wrong_elem,), "null": (null,)}}

        def list_values(w1, w2, wrong_whole):
            vals = {"valid1": tuple(w1), "valid2": tuple(w2), "wrong": tuple(wrong_whole), "null": (null,)}
            return {"whole": vals, "zero": vals, "elem": vals}

        def P(ptype, items, writable=False, required=None):
            return R.Prop(ptype, items, writable, required)

        def OP(kind="one"):
            return R.Prop(("opaque", kind), None, False, None)

        self.objects = []       # (objkey, {prop: Prop}, [(prop, values)] roles)
        C = R.CONFORMANCE

        self.local_device = ("device", D.DEVICE_INSTANCE)

        def add(objkey, typed, opaque, roles):
            props = {}
            for name, pr in typed.items():
                props[name] = pr
            for name, kind in opaque.items():
                props[name] = OP(kind)
            conf = C[objkey[0]]
            for name, pr in props.items():
                if name not in conf:
                    raise HarnessError("conformance code of %s.%s not transcribed" % (objkey[0], name))
                pr.required = conf[name]
            self.objects.append((objkey, props, roles))

        r1, r2 = pick(reals)
        u1, u2 = pick(unsg)
        s1, s2 = pick(strs)
        b1, b2 = pick(bins)
        av = ("analogValue", 1)
        cfg_init = [A(CharacterString, x) for x in ("to-offnormal", "to-fault", "to-normal")]
        add(av,
            {"presentValue": P(("one", _k(4)), [A(Real, 1.5)], True),
             "eventMessageTextsConfig": P(("array", _k(7), 3), cfg_init, False),
             "units": P(("one", _k(9)), [A(EngineeringUnits, "degreesCelsius")], False)},
            {"objectIdentifier": "one", "objectName": "one", "objectType": "one", "statusFlags": "one",
             "eventState": "one", "outOfService": "one", "description": "one", "covIncrement": "one"},
            [("presentValue", scalar_values(r1, r2, wr_u)),
             ("eventMessageTextsConfig", array_values(texts[0:3], texts[1:4], [texts[0], texts[1], wr_u],
                                                      texts[3], texts[4], wr_u, 3, 2)),
             ("units", scalar_values(A(EngineeringUnits, "degreesFahrenheit"), A(EngineeringUnits, "percent"), wr_u)),
             ("reliability", scalar_values(wr_r, wr_s, wr_u)),          # in the class table, no value
             ("stateText", scalar_values(wr_s, wr_r, wr_u))])           # not a property of the class
        bvk = ("binaryValue", 1)
        ts_init = [D.item(TimeStamp(sequenceNumber=1)), D.item(TimeStamp(sequenceNumber=2)),
                   D.item(TimeStamp(time=(1, 2, 3, 4)))]
        tsk = frozenset([("con", "TimeStamp")])
        add(bvk,
            {"presentValue": P(("one", _k(9)), [A(BinaryPV, "inactive")], True),
             "eventTimeStamps": P(("array", tsk, 3), ts_init, True),
             "activeText": P(("one", _k(7)), [A(CharacterString, "on")], False)},
            {"objectIdentifier": "one", "objectName": "one", "objectType": "one", "statusFlags": "one",
             "eventState": "one", "outOfService": "one", "description": "one", "inactiveText": "one"},
            [("presentValue", scalar_values(b1, b2, wr_u)),
             ("eventTimeStamps", array_values(stamps[0:3], stamps[1:4], [stamps[0], stamps[1], wr_r],
                                              stamps[3], stamps[4], wr_r, 3, 2)),
             ("activeText", scalar_values(s1, s2, wr_u)),
             ("reliability", scalar_values(wr_r, wr_s, wr_u))])
        msv = ("multiStateValue", 1)
        st_init = [A(CharacterString, x) for x in ("one", "two", "three")]
        add(msv,
            {"presentValue": P(("one", _k(2)), [A(Unsigned, 1)], True),
             "stateText": P(("array", _k(7), None), st_init, True),
             "alarmValues": P(("list", _k(2)), [A(Unsigned, 1), A(Unsigned, 2)], True),
             "faultValues": P(("list", _k(2)), [A(Unsigned, 3)], False),
             "numberOfStates": P(("one", _k(2)), [A(Unsigned, 3)], False)},
            {"objectIdentifier": "one", "objectName": "one", "objectType": "one", "statusFlags": "one",
             "eventState": "one", "outOfService": "one", "propertyList": "array"},
            [("presentValue", scalar_values(u1, u2, wr_r)),
             ("stateText", array_values(texts[0:2], texts[2:3], [texts[0], wr_u], texts[3], texts[4], wr_u, 2, 4)),
             ("alarmValues", list_values([A(Unsigned, 3), A(Unsigned, 1)], [], [wr_r])),
             ("faultValues", list_values([A(Unsigned, 2)], [], [wr_r])),
             ("numberOfStates", scalar_values(A(Unsigned, 4), A(Unsigned, 5), wr_r)),
             ("propertyList", scalar_values(wr_u, wr_s, wr_r)),
             ("fileSize", scalar_values(wr_u, wr_s, wr_r))])
        csv = ("characterstringValue", 1)
        add(csv,
            {"presentValue": P(("one", _k(7)), [A(CharacterString, "hello")], True),
             "alarmValues": P(("array", frozenset([("app", 0), ("app", 7)]), None),
                              [A(CharacterString, "al"), R.NULL_ITEM], False),
             "statusFlags": P(("one", _k(8)), None, False)},
            {"objectIdentifier": "one", "objectName": "one", "objectType": "one", "eventState": "one",
             "outOfService": "one"},
            [("presentValue", scalar_values(s1, s2, wr_u)),
             ("alarmValues", array_values([texts[0], null], [texts[1]], [texts[0], wr_u], texts[3], texts[4], wr_u, 1, 3)),
             ("statusFlags", scalar_values(wr_s, wr_r, wr_u)),
             ("reliability", scalar_values(wr_r, wr_s, wr_u))])
        dev = ("device", D.DEVICE_INSTANCE)
        olist = [A(ObjectIdentifier, k) for k in (dev, av, bvk, msv, csv)]
        add(dev,
            {"systemStatus": P(("one", _k(9)), [A(DeviceStatus, "operational")], False),
             "objectList": P(("array", _k(12), None), olist, False),
             "deviceAddressBinding": P(("list", frozenset([("con", "AddressBinding")])), [], False),
             "vendorName": P(("one", _k(7)), [A(CharacterString, "verif")], False)},
            dict([(n, "one") for n in (
                "objectIdentifier", "objectName", "objectType", "vendorIdentifier", "modelName", "firmwareRevision",
                "applicationSoftwareVersion", "protocolVersion", "protocolRevision", "protocolServicesSupported",
                "maxApduLengthAccepted", "segmentationSupported", "apduTimeout", "numberOfApduRetries",
                "databaseRevision", "location", "description", "maxSegmentsAccepted", "apduSegmentTimeout",
                "localTime", "localDate")] + [("propertyList", "array")]),
            [("systemStatus", scalar_values(A(DeviceStatus, "operationalReadOnly"), A(DeviceStatus, "downloadRequired"), wr_u)),
             ("objectList", array_values(olist[0:2], olist[1:2], [olist[0], wr_u], olist[2], olist[3], wr_u, 2, 6)),
             ("propertyList", scalar_values(wr_u, wr_s, wr_r)),
             ("deviceAddressBinding", list_values([], [wr_u], [wr_r])),
             ("vendorName", scalar_values(s1, s2, wr_u)),
             ("presentValue", scalar_values(wr_r, wr_s, wr_u))])

        # ---- operations
        IDX = (None, 0, 1, "n", "n+1")

        def idxs(props, prop):
            """quick tier: a property that is not an array has no n; indexes 0 and 1 stand for 'any index'"""
            pr = props.get(prop)
            isarr = pr is not None and (pr.kind() == "array" or pr.ptype == ("opaque", "array"))
            return IDX if (isarr or tier != "quick") else (None, 0, 1)

        self.reads = []         # (objkey, prop, idxsym)
        self.writes = []        # (objkey, prop, idxsym, value name, priority)
        self.values = {}        # (objkey, prop) -> values table
        for objkey, props, roles in self.objects:
            for prop, values in roles:
                self.values[(objkey, prop)] = values
                for ix in idxs(props, prop):
                    self.reads.append((objkey, prop, ix))
        for uo in UNKNOWN_OBJECTS:
            self.values[(uo, "presentValue")] = scalar_values(reals[0], strs[0], wr_u)
            for ix in (None, 0, 1):
                self.reads.append((uo, "presentValue", ix))
        # the Device object addressed by the wildcard instance: every read the device gets by its own identifier
        self.read_only_ids = [WILD]
        for objkey, props, roles in self.objects:
            if objkey == self.local_device:
                for prop, values in roles:
                    for ix in idxs(props, prop):
                        self.reads.append((WILD, prop, ix))
        # writes, simplest first: whole valid, then the rest
        order = []
        for objkey, props, roles in self.objects:
            for prop, values in roles:
                for ix in idxs(props, prop):
                    for vn in ("valid1", "valid2", "wrong", "null", "two"):
                        if vn not in values["whole" if ix is None else ("zero" if ix == 0 else "elem")]:
                            continue
                        order.append((0 if (ix is None and vn == "valid1") else 1, objkey, prop, ix, vn, None))
                if prop == "presentValue":
                    order.append((1, objkey, prop, None, "valid1", 1))
                    order.append((1, objkey, prop, None, "valid2", 16))
        for uo in UNKNOWN_OBJECTS:
            for ix in (None, 0):
                for vn in ("valid1", "null"):
                    order.append((1, uo, "presentValue", ix, vn, None))
        order.sort(key=lambda o: o[0])
        self.writes = [o[1:] for o in order]

    def model(self):
        m = R.Model()
        for objkey, props, roles in self.objects:
            m.add(objkey, dict((n, p.copy()) for n, p in props.items()), local_device=(objkey == self.local_device))
        return m

    def resolve(self, model, objkey, prop, ixsym):
        obj = model.objects.get(model.denotes(objkey))
        p = obj.get(prop) if obj else None
        n = len(p.items) if (p is not None and p.kind() == "array") else 2
        if ixsym == "n":
            return n
        if ixsym == "n+1":
            return n + 1
        return ixsym

    def value(self, objkey, prop, index, vname):
        table = self.values[(objkey, prop)]
        return table["whole" if index is None else ("zero" if index == 0 else "elem")][vname]

    def arrays(self, model):
        """Every array property of every object of the model, the computed ones included (and the device's once more
        through the wildcard identifier): the properties Session.census walks in every state."""
        out = []
        for objkey, props, roles in self.objects:
            for prop in sorted(model.objects[objkey]):
                p = model.objects[objkey][prop]
                if p.kind() == "array" or p.ptype == ("opaque", "array"):
                    out.append((objkey, prop))
                    if objkey == self.local_device:
                        out.append((WILD, prop))
        return out

    def rpm_specs(self, model):
        """Explicit ReadPropertyMultiple requests of a state."""
        out = []
        per_obj = {}
        for (objkey, prop, ixsym) in self.reads:
            per_obj.setdefault(objkey, [])
            ref = (prop, self.resolve(model, objkey, prop, ixsym))
            if ref not in per_obj[objkey]:
                per_obj[objkey].append(ref)
        for objkey, props, roles in self.objects:
            out.append([(objkey, per_obj[objkey])])
        for objkey in self.read_only_ids:
            out.append([(objkey, per_obj[objkey])])
        mixed = []
        for objkey, props, roles in self.objects:
            refs = [(roles[0][0], None), (roles[1][0], 0), (roles[1][0], self.resolve(model, objkey, roles[1][0], "n+1")),
                    (roles[-1][0], None)]
            mixed.append((objkey, refs))
            if len(mixed) == 2:
                mixed.append((UNKNOWN_OBJECTS[0], [("presentValue", None), ("objectName", 1)]))
        mixed.append((UNKNOWN_OBJECTS[1], [("presentValue", None)]))
        # the same object twice in one request, once by the wildcard instance (after the device by its identifier)
        droles = [roles for objkey, props, roles in self.objects if objkey == self.local_device][0]
        mixed.append((WILD, [(droles[0][0], None), (droles[1][0], 0), (droles[1][0], 1), (droles[-1][0], None)]))
        out.append(mixed)
        return out


_alpha = {}


def alphabet(tier, seed):
    k = (tier, seed)
    if k not in _alpha:
        _alpha[k] = HistAlphabet(tier, seed)
    return _alpha[k]


def build_state(al, hist):
    """Fresh stacks + model, history (indexes into al.writes) replayed.  The history was accepted when it was
    discovered; anything else now is non-determinism of the harness."""
    sysm = D.history_system()
    model = al.model()
    for wi in hist:
        objkey, prop, ixsym, vname, prio = al.writes[wi]
        index = al.resolve(model, objkey, prop, ixsym)
        value = al.value(objkey, prop, index, vname)
        reply = sysm.write(objkey, prop, R.concat(value), index, prio)
        if reply != ("ack",):
            raise HarnessError("history %r does not replay: step %r answered %r" % (hist, al.writes[wi], reply))
        model.apply(objkey, prop, index, value)
        for i in model.unknown_elements(objkey, prop):
            r = sysm.read(objkey, prop, i)
            if r[0] != "ack":
                raise HarnessError("history %r does not replay: element %d of %s unreadable" % (hist, i, prop))
            p = model.objects[objkey][prop]
            model.learn(objkey, prop, i, (Session._kind_guess(p, r[1]), r[1]))
    return sysm, model


def hist_opdescs(al, hist):
    """Concrete description of a history (for replay files)."""
    model = al.model()
    out = []
    for wi in hist:
        objkey, prop, ixsym, vname, prio = al.writes[wi]
        index = al.resolve(model, objkey, prop, ixsym)
        value = al.value(objkey, prop, index, vname)
        out.append(["W", list(objkey), prop, index, items_json(value), prio])
        model.apply(objkey, prop, index, value)
        # unknown elements do not influence later index resolution
    return out


def explore_state(al, hist, acc, nxt):
    sysm, model = build_state(al, hist)
    descs = hist_opdescs(al, hist)

    def mkcase(opdesc, sig):
        return {"part": "hist", "tier": al.tier, "seed": al.seed, "history": descs, "op": opdesc, "signature": sig}

    ses = Session(sysm, model, acc, mkcase)
    base = ses.base
    shash = h64(base)
    depth = len(hist)
    acc.max_depth = max(acc.max_depth, depth + 1)

    # -- reads of the alphabet
    for (objkey, prop, ixsym) in al.reads:
        index = al.resolve(ses.m, objkey, prop, ixsym)
        acc.case((shash, "R", objkey, prop, index))
        ses.rp(objkey, prop, index)
        acc.traces += 1
    # -- explicit / mixed RPM
    for specs in al.rpm_specs(ses.m):
        acc.case((shash, "M", repr(specs)))
        ses.rpm_explicit(specs)
    # -- selectors (every returned element is compared with ReadProperty of that property)
    for objkey, props, roles in al.objects:
        for which in ("all", "required", "optional"):
            acc.case((shash, "S", objkey, which))
            ses.rpm_selector(objkey, which)
    for objkey in al.read_only_ids:
        for which in ("all", "required", "optional"):
            acc.case((shash, "S", objkey, which))
            ses.rpm_selector(objkey, which)
    for uo in UNKNOWN_OBJECTS:
        acc.case((shash, "S", uo, "all"))
        ses.rpm_selector(uo, "all")
    # -- every array, computed or stored: whole value, length, every element and the index beyond describe one array
    for (objkey, prop) in al.arrays(ses.m):
        acc.case((shash, "C", objkey, prop))
        ses.census(objkey, prop)
    if ses.broken:
        return      # a read changed the state: reported, nothing below can be judged
    # -- writes
    done = set()
    for wi, (objkey, prop, ixsym, vname, prio) in enumerate(al.writes):
        index = al.resolve(ses.m, objkey, prop, ixsym)
        value = al.value(objkey, prop, index, vname)
        key = (objkey, prop, index, R.concat(value), len(value), prio)
        if key in done:
            continue
        done.add(key)
        acc.case((shash, "W") + key)
        nf0 = ses.nfail
        changed, after = ses.wp(objkey, prop, index, value, prio)
        if changed:
            if ses.nfail == nf0:
                nxt.append((h64(after), tuple(hist) + (wi,)))
            sysm, model = build_state(al, hist)
            ses = Session(sysm, model, acc, mkcase)
            if ses.base != base:
                raise HarnessError("state of history %r is not reproducible" % (hist,))


def hist_expand(item, deadline):
    (tier, seed), hists = item
    al = alphabet(tier, seed)
    acc = Acc()
    nxt = []
    for hist in hists:
        if time.time() > deadline:
            acc.cap("hist: deadline inside the expansion of a frontier")
            break
        if len(hist) == 0:
            # determinism: the initial state is explored twice and everything observed must agree
            a1, n1 = Acc(), []
            explore_state(al, hist, a1, n1)
            a2, n2 = Acc(), []
            explore_state(al, hist, a2, n2)
            if (n1, a1.outcomes, sorted(a1.fails), a1.evaluations, a1.keys) != (n2, a2.outcomes, sorted(a2.fails), a2.evaluations, a2.keys):
                raise HarnessError("exploring the initial state twice gives different observations")
            acc.merge(a1)
            nxt.extend(n1)
            continue
        explore_state(al, hist, acc, nxt)
    acc.info["next"] = nxt
    return acc


# =====================================================================================================
# Part sweep
# =====================================================================================================

SWEEP_INSTANCE = 7
SWEEP_DEVICE = ("device", D.DEVICE_INSTANCE)
SWEEP_DEVICE_NAME = "device"        # what DevSystem names its device
SWEEP_DEVICE_REFS = [("objectIdentifier", None), ("objectName", None), ("objectName", 1), ("objectList", None),
                     ("objectList", 0), ("objectList", 1), ("objectList", 2), ("objectList", 3)]


SWEEP_DEVICE_ARRAYS = ["objectList", "propertyList"]


class SweepObject(object):
    """One instance of one class (standard or writable twin) with generated values + its model."""

    def __init__(self, ci, variant, v, n):
        from bacpypes.primitivedata import CharacterString, ObjectIdentifier
        from bacpypes.basetypes import ObjectType
        self.ci, self.variant, self.v, self.n = ci, variant, v, n
        self.base_cls = D.sweep_classes()[ci]
        self.cls = D.writable_twin(self.base_cls) if variant == "twin" else self.base_cls
        self.objkey = (str(self.base_cls.objectType), SWEEP_INSTANCE)
        self.skipped = []
        self.kwargs = {}
        self.props = {}
        self.order = []
        name = "sweep-%s" % self.base_cls.objectType
        for pid, p in self.cls._properties.items():
            dt = p.datatype
            if pid == "objectIdentifier":
                py, items = self.objkey, [D.item(ObjectIdentifier(self.objkey))]
            elif pid == "objectName":
                py, items = name, [D.item(CharacterString(name))]
            elif pid == "objectType":
                py, items = None, [D.item(ObjectType(self.base_cls.objectType))]
            else:
                try:
                    g = D.gen_property(dt, v + (hash_name(pid) % 2), n)
                except D.CannotGenerate as err:
                    self.skipped.append((pid, str(err)[:100]))
                    continue
                py, items = g.py, g.items
            if py is not None:
                self.kwargs[pid] = py
            self.props[pid] = (D.ptype_of(dt), items, bool(p.mutable), not p.optional)
            self.order.append(pid)

    def make(self):
        from bacpypes.primitivedata import CharacterString, ObjectIdentifier
        obj = self.cls(**self.regen())
        sysm = D.DevSystem([obj])
        model = R.Model()
        model.add(self.objkey, dict((pid, R.Prop(pt, items, w, req)) for pid, (pt, items, w, req) in self.props.items()))
        # the device's own Device object, only as far as the sweep asks for it (SWEEP_DEVICE_REFS, through the wildcard
        # instance): its identifier, its name and the list of the two objects the device holds.  When the swept class
        # is the Device class the device holds two Device objects; the wildcard is the one that describes the device.
        oid = lambda k: D.item(ObjectIdentifier(k))
        model.add(SWEEP_DEVICE, {
            "objectIdentifier": R.Prop(("one", _k(12)), [oid(SWEEP_DEVICE)], False, True),
            "objectName": R.Prop(("one", _k(7)), [D.item(CharacterString(SWEEP_DEVICE_NAME))], False, True),
            "objectList": R.Prop(("array", _k(12), None), [oid(SWEEP_DEVICE), oid(self.objkey)], False, True),
            "propertyList": R.Prop(("opaque", "array"), None, False, True),     # computed per request, not predicted
        }, local_device=True)
        return sysm, model

    def regen(self):
        """kwargs with fresh (unshared) values"""
        out = {}
        for pid in self.kwargs:
            p = self.cls._properties[pid]
            if pid in ("objectIdentifier", "objectName"):
                out[pid] = self.kwargs[pid]
            else:
                out[pid] = D.gen_property(p.datatype, self.v + (hash_name(pid) % 2), self.n).py
        return out


def hash_name(s):
    return sum(ord(c) for c in s)


def sweep_one(ci, variant, v, n, acc, only_prop=None):
    so = SweepObject(ci, variant, v, n)
    cname = so.base_cls.__name__
    objkey = so.objkey
    for pid, why in so.skipped:
        acc.add_info("sweep: properties skipped (value not generatable / codec)")
        acc.outcome("sweep-skip:" + why.split(":")[0])

    def mkcase(opdesc, sig):
        return {"part": "sweep", "class": cname, "ci": ci, "variant": variant, "v": v, "n": n, "op": opdesc,
                "signature": sig}

    sysm, model = so.make()
    ses = Session(sysm, model, acc, mkcase)

    def restart():
        s2, m2 = so.make()
        return Session(s2, m2, acc, mkcase)

    U = R.unsigned_item
    for pid in so.order:
        if only_prop is not None and pid != only_prop:
            continue
        if ses.broken:
            ses = restart()
        dt = so.cls._properties[pid].datatype
        p = ses.m.objects[objkey][pid]
        isarr = p.kind() == "array"
        ln = len(p.items) if isarr else 2
        idxs = [None, 0, 1, ln, ln + 1]
        idxs = [i for k, i in enumerate(idxs) if i not in idxs[:k]]
        ck = (cname, variant, v, pid)
        # reads
        for i in idxs:
            acc.case(ck + ("R", i))
            ses.rp(objkey, pid, i)
            acc.traces += 1
        acc.case(ck + ("M",))
        ses.rpm_explicit([(objkey, [(pid, i) for i in idxs])])
        if isarr:
            acc.case(ck + ("C",))
            ses.census(objkey, pid)
        # writes
        try:
            g2 = D.gen_property(dt, v + 2 + (hash_name(pid) % 2), (so.n + 1) if (isarr and p.ptype[2] is None) else so.n)
        except D.CannotGenerate:
            continue
        wrong = D.wrong_item(dt)
        plan = [(None, tuple(g2.items), "valid")]
        if wrong is not None:
            # the wrong-typed item comes first: it cannot begin an element, and it cannot be taken for an
            # optional trailing component of the element before it
            if p.kind() == "one":
                plan.append((None, (wrong,), "wrong"))
            elif isarr and p.ptype[2] is not None:
                plan.append((None, (wrong,) + tuple(g2.items[1:]), "wrong"))
            else:
                plan.append((None, (wrong, g2.items[0]), "wrong"))
        plan.append((None, (R.NULL_ITEM,), "null"))
        if p.kind() == "one" and all(k[0] == "app" for k in p.ptype[1]):
            plan.append((None, (g2.items[0], g2.items[0]), "two"))      # two primitives where one is expected
        if isarr:
            plan.append((0, "same-length", "valid"))
            plan.append((1, (g2.items[0],), "valid"))
            plan.append(("n", (g2.items[-1],), "valid"))
            plan.append(("n+1", (g2.items[0],), "valid"))
            if wrong is not None:
                plan.append((1, (wrong,), "wrong"))
            plan.append((1, (R.NULL_ITEM,), "null"))
            plan.append((0, (R.NULL_ITEM,), "null"))
            if p.ptype[2] is None:
                plan.append((0, "grow", "valid"))
                plan.append((0, "shrink", "valid"))
        else:
            plan.append((1, tuple(g2.items), "valid"))
        for (ix, value, vname) in plan:
            if ses.broken:
                ses = restart()
            pm = ses.m.objects[objkey][pid]
            cur = len(pm.items) if isarr else 2
            index = cur if ix == "n" else (cur + 1 if ix == "n+1" else ix)
            if value == "same-length":
                value = (U(cur),)
            elif value == "grow":
                value = (U(cur + 1),)
            elif value == "shrink":
                value = (U(max(0, cur - 2)),)
            acc.case(ck + ("W", ix, vname, len(value)))
            ses.wp(objkey, pid, index, value)
    if only_prop is None:
        if ses.broken:
            ses = restart()
        for which in ("all", "required", "optional"):
            acc.case((cname, variant, v, "S", which))
            ses.rpm_selector(objkey, which)
        # unknown property / unknown object once per class
        acc.case((cname, variant, v, "unknown"))
        absent = "fileSize" if "fileSize" not in so.cls._properties else "presentValue"
        if absent not in so.cls._properties:
            ses.rp(objkey, absent, None)
            ses.wp(objkey, absent, None, (U(1),))
            ses.rpm_explicit([(objkey, [(absent, None), ("objectName", None)]),
                              ((objkey[0], SWEEP_INSTANCE + 1), [("objectName", None)])])
        ses.rp((objkey[0], SWEEP_INSTANCE + 1), "objectName", None)
        ses.wp((objkey[0], SWEEP_INSTANCE + 1), "objectName", None, (U(1),))
        # the device's own Device object by the wildcard instance, next to the swept object
        if ses.broken:
            ses = restart()
        acc.case((cname, variant, v, "wildcard"))
        for (p_, i_) in SWEEP_DEVICE_REFS:
            ses.rp(WILD, p_, i_)
            acc.traces += 1
        ses.rpm_explicit([(WILD, SWEEP_DEVICE_REFS), (objkey, [("objectName", None)]), (SWEEP_DEVICE, SWEEP_DEVICE_REFS[:2])])
        # the arrays the device computes about itself (the list of its objects, the list of the properties of its
        # Device object), by its own identifier and by the wildcard: whole, length, every element, one beyond
        for who in (SWEEP_DEVICE, WILD):
            for p_ in SWEEP_DEVICE_ARRAYS:
                acc.case((cname, variant, v, "C", who, p_))
                ses.census(who, p_)


def sweep_shard(item, deadline):
    acc = Acc()
    for (ci, variant, v, n) in item:
        if time.time() > deadline:
            acc.cap("sweep: deadline before all classes were swept")
            break
        sweep_one(ci, variant, v, n, acc)
        acc.add_info("sweep: (class, variant, value variant) instances")
    return acc



# =====================================================================================================
# part cmd: present value and priority array of commandable objects, written and read over the wire
# =====================================================================================================

CMD_PRIOS = (8, None)
# invalid-value kinds of bv.refs.cmdref.INVALID that cross the wire as a value of ANOTHER application datatype (an
# undefined enumeration name is a character string there, a negative number for an unsigned type a signed integer):
# the statement's "wrong datatype".  "undefined-enumeration-value" is a correctly tagged Enumerated whose number the
# enumeration does not define: the statement names no refusal class for it, any error or reject is a refusal.
CMD_WRONG_DATATYPE_KINDS = ("wrong-datatype", "undefined-enumeration-name", "out-of-range")


def cmd_ops(nvalues, ninvalid=0):
    """Valid commands first (value or relinquish x object x priority), then the writes of things that are not values
    of the datatype (kind x object x priority)."""
    ops = []
    for which in (0, 1):
        for prio in CMD_PRIOS:
            for vi in range(nvalues):
                ops.append(("w", which, prio, vi))
            ops.append(("r", which, prio))
    for which in (0, 1):
        for prio in CMD_PRIOS:
            for j in range(ninvalid):
                ops.append(("x", which, prio, j))
    return ops


def cmd_alphabet(name):
    from bv.refs import cmdref
    domain = [d for (n, c, d) in cmdref.CLASSES if n == name][0]
    return cmd_ops(len(cmdref.DOMAINS[domain]["values"]), len(cmdref.INVALID[domain]))


def cmd_histories(ops, first, depth, xdepth, xdepth_one, lens=(1, 99)):
    """Histories that begin with ops[first] and have lens[0] <= length <= lens[1]:
       every history of length <= xdepth over the whole alphabet,
       every history of length <= xdepth_one over the operations on the object of the first operation (whole alphabet),
       every history of length <= depth made of valid commands only."""
    import itertools as it
    valid = [o for o in ops if o[0] != "x"]
    f = ops[first]
    same = [o for o in ops if o[1] == f[1]]
    for n in range(max(1, lens[0]), min(lens[1], max(depth, xdepth, xdepth_one)) + 1):
        for rest in it.product(ops, repeat=n - 1):
            hist = (f,) + rest
            if n <= xdepth:
                yield hist
            elif n <= xdepth_one and all(o in same for o in rest):
                yield hist
            elif n <= depth and f[0] != "x" and all(o[0] != "x" for o in rest):
                yield hist


def cmd_case(name, hist):
    """Two objects of one commandable class on one device.  Every step is a WriteProperty of presentValue with or without
    priority to one of them: a value, Null to relinquish, or something that is not a value of the datatype (an undefined
    enumeration number, a value of another datatype, a number outside the range).  A valid command has to be
    acknowledged, an invalid one has to be refused - a wrong datatype with a reply of that refusal class - and must
    leave the canonical dump of every object of the device as it was.  After every step, acknowledged or refused,
    ReadProperty of the present value, of the addressed array element, of the whole priority array, of its length and of
    the relinquish default of BOTH objects must give what an independent per-object model says (priorities 1..16 of the
    quantifier; a write to one object changes no property of the other; a refused write changes nothing, so the model is
    what it was before).  -> (problem or None, trace)"""
    from bv.refs import cmdref
    from bv.stacks import cmdstack as cs
    from bacpypes.primitivedata import Unsigned
    from bacpypes.basetypes import PriorityValue, PriorityArray
    choice, domain = [(c, d) for (n, c, d) in cmdref.CLASSES if n == name][0]
    dom = cmdref.DOMAINS[domain]
    invalid = cmdref.INVALID[domain]
    vclock.reset(0.0)
    pair = cs.WirePair()
    objs = [cs.make_object(name, domain, instance=i + 1) for i in range(2)]
    for o in objs:
        pair.add(o)
    refs = [cmdref.CmdRef(dom["default"]) for _ in objs]
    dt = objs[0].get_datatype("presentValue")
    trace = []

    def rd(k, prop, idx, cast):
        st, anyv = pair.read(objs[k].objectIdentifier, prop, idx)
        if st != ("ack",):
            return ("?answer",) + tuple(st)
        try:
            return cast(anyv)
        except Exception as err:
            return ("?decode", type(err).__name__)

    def read_pv(k):
        return rd(k, "presentValue", None, lambda a: cs.from_py(domain, a.cast_out(dt)))

    def read_slot(k, idx):
        return rd(k, "priorityArray", idx, lambda a: cs.slot_view(domain, choice, a.cast_out(PriorityValue)))

    def read_array(k):
        def whole(a):
            arr = a.cast_out(PriorityArray)
            if len(arr) != 16:
                return ("?length", len(arr))
            return tuple(cs.slot_view(domain, choice, arr[i]) for i in range(1, 17))
        return rd(k, "priorityArray", None, whole)

    def read_length(k):
        return rd(k, "priorityArray", 0, lambda a: a.cast_out(Unsigned))

    def read_rd(k):
        return rd(k, "relinquishDefault", None, lambda a: cs.from_py(domain, a.cast_out(dt)))

    def observe(step, op, which, slot, after):
        """present value and addressed element after every step; the rest of the command state (whole array, its length,
        relinquish default) after every refused step and after the last step of the history (every prefix of a history
        of the enumeration is a history of the enumeration, so every reached state is observed in full)"""
        full = after == "refused" or step == len(hist) - 1
        for k in (0, 1):
            who = "written" if k == which else "other"
            probes = [("present-value", lambda: read_pv(k), refs[k].pv),
                      ("array-element", lambda: read_slot(k, slot), refs[k].slots[slot])]
            if full:
                probes += [("whole-array", lambda: read_array(k), tuple(refs[k].slots[1:])),
                           ("array-length", lambda: read_length(k), 16),
                           ("relinquish-default", lambda: read_rd(k), refs[k].rd)]
            for what, read, want in probes:
                got = read()
                if got != want:
                    return ("cmd:%s-of-the-%s-object-differs-after-%s-write" % (what, who, after),
                            {"step": step, "op": op, "object": k, "slot": slot, "got": got, "want": want})
        return None

    # two fresh objects start from the same state
    for k in (0, 1):
        if read_pv(k) != refs[k].pv:
            return ("cmd:fresh-object-present-value-differs", {"object": k, "got": read_pv(k), "want": refs[k].pv}), trace
    for step, op in enumerate(hist):
        which, prio = op[1], op[2]
        slot = 16 if prio is None else prio
        if op[0] == "x":
            kind, tagged = invalid[op[3]]
            before = D.dump_objects(pair.device)
            reply = pair.write(objs[which].objectIdentifier, "presentValue", cs.invalid_encodable(tagged), priority=prio)
            if reply[0] == "reject":
                reply = ("reject", D.REJECT_NAMES.get(reply[1], reply[1]))
            trace.append((op, reply))
            try:
                refs[which].command_invalid(kind, priority=prio)
                raise HarnessError("the reference takes an invalid value (%s) as a command" % kind)
            except cmdref.Refused:
                pass
            if reply == ("ack",):
                return ("cmd:invalid-value-acknowledged:%s" % kind, {"step": step, "op": op, "value": list(tagged)}), trace
            if reply[0] not in ("error", "reject"):
                return ("cmd:invalid-value-no-proper-reply:%s:got=%s" % (kind, short(reply)),
                        {"step": step, "op": op, "value": list(tagged), "reply": reply}), trace
            if kind in CMD_WRONG_DATATYPE_KINDS and tuple(reply) not in R.admissible(("wrong-datatype",)):
                return ("cmd:refusal-not-admissible(wrong-datatype):%s:got=%s" % (kind, short(reply)),
                        {"step": step, "op": op, "value": list(tagged), "reply": reply}), trace
            after = D.dump_objects(pair.device)
            if after != before:
                return ("cmd:refused-write-changed-state:%s:reply=%s" % (kind, short(reply)),
                        {"step": step, "op": op, "value": list(tagged), "reply": reply,
                         "changed": diff_dump(before, after)}), trace
            bad = observe(step, op, which, slot, "refused")
            if bad is not None:
                bad[1]["reply"] = reply
                return bad, trace
            continue
        value = dom["values"][op[3]] if op[0] == "w" else cmdref.NULL
        reply = pair.write(objs[which].objectIdentifier, "presentValue", cs.to_encodable(domain, value), priority=prio)
        trace.append((op, reply))
        if reply != ("ack",):
            return ("cmd:valid-command-not-acknowledged:%s" % ":".join(str(x) for x in reply[:3]), {"step": step, "op": op}), trace
        refs[which].command(value, priority=prio)
        bad = observe(step, op, which, slot, "acknowledged")
        if bad is not None:
            return bad, trace
    trace.append(("transactions", pair.transactions))
    return None, trace


def cmd_shard(item, deadline):
    acc = Acc()
    for (name, first, depth, xdepth, xdepth_one, lens) in item:
        ops = cmd_alphabet(name)
        for hist in cmd_histories(ops, first, depth, xdepth, xdepth_one, lens):
            if time.time() > deadline:
                acc.cap("cmd: deadline")
                return acc
            bad, trace = cmd_case(name, hist)
            for lname, msg in list(vclock.swallowed):       # cmd_case resets the clock, which empties the list
                acc.swallowed["%s: %s" % (lname, msg[:70])] += 1
            acc.case(("cmd", name, hist))
            acc.traces += 1
            acc.evaluations += len(hist) - 1            # acc.case counted one; every step is judged
            acc.transitions += trace[-1][1] if (bad is None) else len(hist) * 11
            acc.outcome("cmd:%s" % ("ok" if bad is None else bad[0]))
            for (op, reply) in trace[:len(hist)]:
                if op[0] == "x":
                    acc.outcome("cmd-invalid-write:%s" % short(reply))
            if bad is not None:
                acc.fail(bad[0], {"class": name, "history": [list(o) for o in hist], "mismatch": bad[1]},
                         {"part": "cmd", "class": name, "hist": [list(o) for o in hist]})
    return acc

# =====================================================================================================
# run / replay
# =====================================================================================================

def run(tier, seed, deadline):
    acc = Acc()
    t0 = time.time()
    # -- sweep first (short, fixed cost), on a share of the budget
    ncls = len(D.sweep_classes())
    variants = [(seed % 2, 2)] if tier == "quick" else [(seed % 2, 2), ((seed + 1) % 2, 3)]
    work = [(ci, variant, v, n) for (v, n) in variants for ci in range(ncls) for variant in ("std", "twin")]
    # big classes first
    sizes = dict((ci, len(c._properties)) for ci, c in enumerate(D.sweep_classes()))
    work.sort(key=lambda w: -sizes[w[0]])
    sweep_deadline = t0 + (deadline - t0) * 0.45
    run_shards(sweep_shard, [[w] for w in work], sweep_deadline, into=acc)
    acc.info["sweep: classes"] = ncls
    acc.info["sweep wall s"] = round(time.time() - t0, 1)
    sweep_eval = acc.evaluations
    acc.info["sweep: evaluations"] = sweep_eval
    # -- commandable objects (two of a class), present value / priority array over the wire (short, fixed cost: before
    #    the histories, which take what is left)
    from bv.refs import cmdref
    if tier == "quick":
        names = ["AnalogValueCmdObject", "BinaryOutputCmdObject", "CharacterStringValueCmdObject", "MultiStateValueCmdObject",
                 "OctetStringValueCmdObject", "BitStringValueCmdObject"]
        depth, xdepth, xdepth_one = 2, 2, 2
    else:
        names = [n for (n, c, d) in cmdref.CLASSES]
        depth, xdepth, xdepth_one = 3, 2, 2
    t2 = time.time()
    ev0 = acc.evaluations
    # simplest first: every history of length <= 2 of every class, then the longer ones (the valid first operations
    # carry them)
    firsts = [(n, first) for n in names for first in range(len(cmd_alphabet(n)))]
    items = [[(n, first, depth, xdepth, xdepth_one, (1, 2))] for (n, first) in firsts]
    if max(depth, xdepth, xdepth_one) > 2:
        items += [[(n, first, depth, xdepth, xdepth_one, (3, 99))] for (n, first) in firsts
                  if cmd_alphabet(n)[first][0] != "x" or max(xdepth, xdepth_one) > 2]
    run_shards(cmd_shard, items, t2 + (deadline - t2) * 0.3, into=acc)
    acc.info["cmd wall s"] = round(time.time() - t2, 1)
    acc.info["cmd: evaluations"] = acc.evaluations - ev0
    acc.info["cmd: classes"] = len(names)
    # -- histories
    t1 = time.time()
    ev1 = acc.evaluations
    al = alphabet(tier, seed)
    sysm, _ = build_state(al, ())
    init_hash = h64(sysm.dump())
    acc.info["hist: alphabet (reads, writes)"] = [len(al.reads), len(al.writes)]
    bfs(hist_expand, (tier, seed), (), init_hash, DEPTH[tier], deadline, acc, max_states=400000, label="hist",
        shards_per_level=256)
    acc.info["hist wall s"] = round(time.time() - t1, 1)
    acc.info["hist: evaluations"] = acc.evaluations - ev1
    return acc


def replay(case):
    acc = Acc()
    if case.get("part") == "cmd":
        vclock.install()
        bad, trace = cmd_case(case["class"], [tuple(o) for o in case["hist"]])
        return bad is None, "%s history=%r -> %r\ntrace=%r" % (case["class"], case["hist"], bad, trace)
    sig = case.get("signature")
    if case.get("part") == "sweep":
        op = case["op"]
        prop = None
        if op[0] in ("R", "W", "C"):
            prop = op[2]
        elif op[0] == "M":
            prop = op[1][0][1][0][0]
        known = D.sweep_classes()[case["ci"]]._properties
        if prop in known:
            sweep_one(case["ci"], case["variant"], case["v"], case["n"], acc, only_prop=prop)
        if not acc.fails:
            # the case may depend on what was written to the properties before it: replay the whole instance
            sweep_one(case["ci"], case["variant"], case["v"], case["n"], acc)
    else:
        sysm = D.history_system()
        al = alphabet(case.get("tier", "quick"), case.get("seed", 0))
        model = al.model()
        for (_, ok, prop, index, items, prio) in case["history"]:
            objkey = (ok[0], int(ok[1]))
            value = items_unjson(items)
            reply = sysm.write(objkey, prop, R.concat(value), index, prio)
            if reply != ("ack",):
                return False, "history step %r answered %r instead of an ack" % ((objkey, prop, index), reply)
            model.apply(objkey, prop, index, value)
            for i in model.unknown_elements(objkey, prop):
                r = sysm.read(objkey, prop, i)
                if r[0] == "ack":
                    model.learn(objkey, prop, i, (Session._kind_guess(model.objects[objkey][prop], r[1]), r[1]))
        ses = Session(sysm, model, acc, lambda opdesc, s: {"op": opdesc})
        op = case["op"]
        if op[0] == "R":
            ses.rp((op[1][0], int(op[1][1])), op[2], op[3])
        elif op[0] == "W":
            ses.wp((op[1][0], int(op[1][1])), op[2], op[3], items_unjson(op[4]), op[5])
        elif op[0] == "M":
            ses.rpm_explicit([((o[0], int(o[1])), [(p, i) for (p, i) in refs]) for (o, refs) in op[1]])
        elif op[0] == "S":
            ses.rpm_selector((op[1][0], int(op[1][1])), op[2])
        elif op[0] == "C":
            ses.census((op[1][0], int(op[1][1])), op[2])
    if not acc.fails:
        return True, "no failure on this case"
    if sig is not None and sig not in acc.fails:
        return False, "other failures than recorded: %s" % "; ".join(sorted(acc.fails))
    lines = []
    for s, ent in sorted(acc.fails.items()):
        if sig is None or s == sig:
            lines.append("%s: %r" % (s, ent["cases"][0]["detail"]))
    return False, "\n".join(lines)
